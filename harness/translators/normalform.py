"""Translator (tie T) for C15, legacy half: regenerate coq/Gen/NormalFormGen.v from the *current* bodies of

    LogicalBinaryOperator.apply          NormalForm.inner / outer / allows
    TransformationWrapper / Opaque / LogicalNot / LogicalBinaryOperation:
        not_  satisfies  normalize  flatten
        _satisfiesDispatch  _satisfiesDispatchAtomic  _satisfiesDispatchBinary
        _normalizeDispatch  _normalizeDispatchAtomic  _normalizeDispatchBinary

in python/lsst/daf/butler/registry/queries/expressions/normalForm.py.  Props/C15.v re-states the legacy theorems over
the generated `py_*` definitions (Proofs/NormalFormProofsG.v), so a semantic edit of a dispatch / distribution /
negation rule breaks a proof on the next run, independently of the correspondence run.

How the classes become Gallina.  The three concrete wrapper classes are the three constructors of
`wrap` (Model/NormalForm.v):  Opaque(node) = `Opaque a`,  LogicalNot(Opaque(node)) = `WNot a`,
LogicalBinaryOperation(lhs, op, rhs) = `WBin lhs op rhs`; both enums are `bool` (their declared values).  Every method
`m` becomes ONE function `py_m` that matches on the receiver; the branch for a class is the body found by the
method-resolution order (the class itself, then TransformationWrapper).  A call `x.m(...)` is a call of `py_m ... x ...`
(dynamic dispatch = the match).  `not_`, `satisfies`, `flatten` are structural `Fixpoint`s on the receiver.
`e.normalize(form)` is NOT structurally recursive: it is translated to `rec e`, where `rec : wrap -> option wrap` is a
parameter of every function that (transitively) normalises; the fixed trailer ties the knot with fuel:
    py_normalize (S n) form w = py_normalize_step (py_normalize n form) form w,      py_normalize 0 = None
None = out of fuel, or a failed `assert`.  Sub-expressions of type `option wrap` are sequenced left to right.

Fail-closed: anything outside the subset below raises `Untranslatable`.

  types   wrap | op (LogicalBinaryOperator) | form (NormalForm) | bool | option wrap (results of normalising methods)
          | list wrap (generator `flatten`)
  expr ::= parameter | local | self | self._lhs | self._rhs | self._operator | self._operand (in LogicalNot)
         | o.apply(w, w) | LogicalBinaryOperation(w, o, w) | LogicalNot(self) (in Opaque only)
         | LogicalBinaryOperator(not x.value) | LogicalBinaryOperator(x.value) | x.inner | x.outer   (x : op / form)
         | f.allows(inner=o, outer=o) | w.m(args..., form=f) for the methods above | w.normalize(f)
         | e == e | e != e | e is e | e is not e   (both op or both form)
         | not c | c and c | c or c | True | False | ( ... )
  stmt ::= docstring | name = e | if c: stmt+ [else: stmt+] | assert c | return e
         | yield w | yield from w.flatten(o)                                       (generator only)
         | the memo idiom of `satisfies`:
               r = self._satisfiesCache.get(form) / if r is None: r = <e>; self._satisfiesCache[form] = r / return r
           (translated to <e>; the cache is checked to be private to that method and created empty in __init__)
  Wrapper objects must be immutable: an attribute store outside `__init__` (other than the memo idiom) is refused, and
  the three `__init__` bodies must store exactly their parameters.

Pinned text (shape-checked literally, the fixed Gallina next to it is emitted only if the text matches):
  TransformationVisitor.visitUnaryOp / visitBinaryOp / visitParens (+ every other visit* returns Opaque(node, ...))
                                              -> py_wrap_of
  NormalFormExpression.fromTree               -> py_nodes_of / py_from_tree
  Opaque.unwrap, LogicalNot.unwrap            -> Model.NormalForm.unwrap on atomic wrappers (parentheses are print-only)
  NormalFormExpression.visit / toTree, TreeReconstructionVisitor.*   -> Model.NormalForm.to_tree (hand model)
"""
from __future__ import annotations

import ast
import re

from harness.common import PKG


class Untranslatable(Exception):
    pass


SRC = "registry/queries/expressions/normalForm.py"

BASE = "TransformationWrapper"
# class -> (pattern, {attribute: (type, term)})
CLASSES = {
    "Opaque": ("Opaque s_a", {}),
    "LogicalNot": ("WNot s_a", {"_operand": ("wrap", "(Opaque s_a)")}),
    "LogicalBinaryOperation": ("WBin s_lhs s_op s_rhs",
                               {"_lhs": ("wrap", "s_lhs"), "_operator": ("op", "s_op"), "_rhs": ("wrap", "s_rhs")}),
}
COQTY = {"wrap": "wrap", "op": "bool", "form": "bool", "bool": "bool", "owrap": "option wrap", "lwrap": "list wrap"}

# method -> positional parameters (after self), keyword-only parameters, result type, kind
#   kind: "fix" structural Fixpoint on the receiver, "def" plain Definition; `rec` is added when the result is owrap
METHODS = {
    "not_": ([], [], "wrap", "fix"),
    "_satisfiesDispatchAtomic": ([("operator", "op"), ("other", "wrap")], [("form", "form")], "bool", "def"),
    "_satisfiesDispatchBinary": ([("outer", "op"), ("lhs", "wrap"), ("inner", "op"), ("rhs", "wrap")], [("form", "form")], "bool", "def"),
    "_satisfiesDispatch": ([("operator", "op"), ("other", "wrap")], [("form", "form")], "bool", "def"),
    "satisfies": ([("form", "form")], [], "bool", "fix"),
    "_normalizeDispatchAtomic": ([("operator", "op"), ("other", "wrap")], [("form", "form")], "owrap", "def"),
    "_normalizeDispatchBinary": ([("outer", "op"), ("lhs", "wrap"), ("inner", "op"), ("rhs", "wrap")], [("form", "form")], "owrap", "def"),
    "_normalizeDispatch": ([("operator", "op"), ("other", "wrap")], [("form", "form")], "owrap", "def"),
    "normalize": ([("form", "form")], [], "owrap", "def"),
    "flatten": ([("operator", "op")], [], "lwrap", "fix"),
}
ORDER = list(METHODS)
COQNAME = {m: "py_" + m.lstrip("_") for m in METHODS}
COQNAME["normalize"] = "py_normalize_step"
COQNAME["not_"] = "py_not_"


def _strip_doc(body):
    if body and isinstance(body[0], ast.Expr) and isinstance(body[0].value, ast.Constant) and isinstance(body[0].value.value, str):
        return body[1:]
    return body


def _find_class(tree: ast.Module, name: str) -> ast.ClassDef:
    for node in tree.body:
        if isinstance(node, ast.ClassDef) and node.name == name:
            return node
    raise Untranslatable(f"class {name} not found")


def _methods(cls: ast.ClassDef) -> dict:
    out = {}
    for f in cls.body:
        if isinstance(f, ast.FunctionDef):
            if f.name in out:
                raise Untranslatable(f"{cls.name}.{f.name} defined twice")
            out[f.name] = f
        elif isinstance(f, ast.AsyncFunctionDef):
            raise Untranslatable(f"{cls.name}: async method")
    return out


def _decorators(f):
    return sorted(ast.unparse(d) for d in f.decorator_list)


def _body_text(f: ast.FunctionDef) -> str:
    return "\n".join(ast.unparse(s) for s in _strip_doc(f.body))


# ---------------------------------------------------------------------------------------------------------------------
class Fn:
    """one (class, method) body -> one Gallina term (a match branch)"""

    def __init__(self, where: str, env: dict, ret: str, defined: set, selfattrs: dict | None, selfterm, cls: str | None):
        self.where = where
        self.env = dict(env)                # name -> (type, term)
        self.ret = ret
        self.defined = defined              # method names that may be called
        self.selfattrs = selfattrs or {}
        self.selfterm = selfterm            # (type, term) of bare `self`
        self.cls = cls
        self.fresh = 0
        self.uses_rec = False

    def err(self, msg, n=None):
        at = f" at line {n.lineno}" if n is not None and hasattr(n, "lineno") else ""
        return Untranslatable(f"{self.where}{at}: {msg}")

    # ---- expressions: (type, term); option-typed sub-results are bound into `binds` -------------------------------
    def as_(self, n, ty, binds):
        t, s = self.expr(n, binds)
        if t == "owrap" and ty == "wrap":
            if binds is None:
                raise self.err("a normalising call is not allowed in this position", n)
            self.fresh += 1
            v = f"t{self.fresh}"
            binds.append((v, s))
            return v
        if t != ty:
            raise self.err(f"expected {ty}, found {t} in `{ast.unparse(n)[:80]}`", n)
        return s

    def expr(self, n, binds):
        if isinstance(n, ast.Constant) and n.value is True:
            return "bool", "true"
        if isinstance(n, ast.Constant) and n.value is False:
            return "bool", "false"
        if isinstance(n, ast.Name):
            if n.id == "self":
                if self.selfterm is None:
                    raise self.err("bare self", n)
                return self.selfterm
            if n.id not in self.env:
                raise self.err(f"unknown name {n.id}", n)
            return self.env[n.id]
        if isinstance(n, ast.Attribute):
            if isinstance(n.value, ast.Name) and n.value.id == "self" and n.attr in self.selfattrs:
                return self.selfattrs[n.attr]
            if n.attr in ("inner", "outer"):
                t, s = self.expr(n.value, binds)
                if t != "form":
                    raise self.err(f".{n.attr} of a {t}", n)
                return "op", f"(py_form_{n.attr} {s})"
            raise self.err(f"unsupported attribute `{ast.unparse(n)[:60]}`", n)
        if isinstance(n, ast.UnaryOp) and isinstance(n.op, ast.Not):
            return "bool", f"(negb {self.as_(n.operand, 'bool', binds)})"
        if isinstance(n, ast.BoolOp):
            if binds is not None and any(self._normalises(v) for v in n.values):
                raise self.err("normalising call under and/or (short-circuit)", n)
            op = " && " if isinstance(n.op, ast.And) else " || "
            return "bool", "(" + op.join(self.as_(v, "bool", binds) for v in n.values) + ")"
        if isinstance(n, ast.Compare):
            if len(n.ops) != 1 or not isinstance(n.ops[0], (ast.Eq, ast.NotEq, ast.Is, ast.IsNot)):
                raise self.err(f"unsupported comparison `{ast.unparse(n)[:60]}`", n)
            lt, ls = self.expr(n.left, binds)
            rt, rs = self.expr(n.comparators[0], binds)
            if lt != rt or lt not in ("op", "form"):
                raise self.err(f"comparison of {lt} with {rt} (only enum members may be compared)", n)
            e = f"(Bool.eqb {ls} {rs})"
            return "bool", e if isinstance(n.ops[0], (ast.Eq, ast.Is)) else f"(negb {e})"
        if isinstance(n, ast.Call):
            return self.call(n, binds)
        raise self.err(f"unsupported expression `{ast.unparse(n)[:80]}`", n)

    @staticmethod
    def _normalises(n) -> bool:
        return any(isinstance(x, ast.Call) and isinstance(x.func, ast.Attribute)
                   and (x.func.attr == "normalize" or x.func.attr.startswith("_normalizeDispatch")) for x in ast.walk(n))

    def call(self, n: ast.Call, binds):
        f = n.func
        # enum constructors: LogicalBinaryOperator(x.value) / LogicalBinaryOperator(not x.value)
        if isinstance(f, ast.Name) and f.id == "LogicalBinaryOperator":
            if len(n.args) != 1 or n.keywords:
                raise self.err("LogicalBinaryOperator(...) takes one value", n)
            a, neg = n.args[0], False
            if isinstance(a, ast.UnaryOp) and isinstance(a.op, ast.Not):
                a, neg = a.operand, True
            if not (isinstance(a, ast.Attribute) and a.attr == "value"):
                raise self.err(f"LogicalBinaryOperator of `{ast.unparse(n.args[0])[:60]}`", n)
            t, s = self.expr(a.value, binds)
            if t not in ("op", "form"):
                raise self.err(f".value of a {t}", n)
            return "op", f"(negb {s})" if neg else s
        if isinstance(f, ast.Name) and f.id == "LogicalBinaryOperation":
            if len(n.args) != 3 or n.keywords:
                raise self.err("LogicalBinaryOperation(lhs, operator, rhs) expected", n)
            l = self.as_(n.args[0], "wrap", binds)
            o = self.as_(n.args[1], "op", binds)
            r = self.as_(n.args[2], "wrap", binds)
            return "wrap", f"(WBin {l} {o} {r})"
        if isinstance(f, ast.Name) and f.id == "LogicalNot":
            if not (self.cls == "Opaque" and len(n.args) == 1 and not n.keywords and isinstance(n.args[0], ast.Name) and n.args[0].id == "self"):
                raise self.err("LogicalNot(...) is only understood as LogicalNot(self) inside Opaque", n)
            return "wrap", "(WNot s_a)"
        if isinstance(f, ast.Attribute):
            m = f.attr
            if m == "apply":
                if len(n.args) != 2 or n.keywords:
                    raise self.err("apply(lhs, rhs) expected", n)
                o = self.as_(f.value, "op", binds)
                l = self.as_(n.args[0], "wrap", binds)
                r = self.as_(n.args[1], "wrap", binds)
                return "wrap", f"(py_apply {o} {l} {r})"
            if m == "allows":
                fm = self.as_(f.value, "form", binds)
                kw = {k.arg: k.value for k in n.keywords}
                if n.args or set(kw) != {"inner", "outer"} or len(n.keywords) != 2:
                    raise self.err("allows(inner=..., outer=...) expected", n)
                return "bool", f"(py_allows {fm} {self.as_(kw['inner'], 'op', binds)} {self.as_(kw['outer'], 'op', binds)})"
            if m == "normalize":
                if len(n.args) != 1 or n.keywords:
                    raise self.err("normalize(form) expected", n)
                fm = self.as_(n.args[0], "form", binds)
                if fm != "form":
                    raise self.err("normalize must be called with the caller's own `form`", n)
                w = self.as_(f.value, "wrap", binds)
                self.uses_rec = True
                return "owrap", f"(rec {w})"
            if m in METHODS:
                pos, kwo, ret, _ = METHODS[m]
                if m not in self.defined:
                    raise self.err(f"call of {m} from here is outside the supported call graph", n)
                kw = {k.arg: k.value for k in n.keywords}
                if len(n.args) != len(pos) or set(kw) != {k for k, _ in kwo} or len(n.keywords) != len(kwo):
                    raise self.err(f"unexpected arguments in `{ast.unparse(n)[:80]}`", n)
                recv = self.as_(f.value, "wrap", binds)
                args = [self.as_(a, ty, binds) for a, (_, ty) in zip(n.args, pos)]
                kws = [self.as_(kw[k], ty, binds) for k, ty in kwo]
                return ret, "(" + " ".join(self._callee(m, recv, dict(zip([p for p, _ in pos], args)), dict(zip([k for k, _ in kwo], kws)))) + ")"
        raise self.err(f"unsupported call `{ast.unparse(n)[:80]}`", n)

    def _callee(self, m, recv, pos: dict, kw: dict):
        """argument order of the Gallina function: [rec] [form] receiver-or-(operator receiver) rest"""
        allp = dict(pos)
        allp.update(kw)
        parts = [COQNAME[m]]
        if METHODS[m][2] == "owrap":
            self.uses_rec = True
            parts.append("rec")
        if "form" in allp:
            if METHODS[m][2] == "owrap" and allp["form"] != "form":
                raise self.err("a normalising method must be called with the caller's own `form`")
            parts.append(allp.pop("form"))
        if m == "flatten":
            return parts + [allp["operator"], recv]
        return parts + [recv] + [allp[p] for p, _ in METHODS[m][0] + METHODS[m][1] if p in allp]

    # ---- statements -------------------------------------------------------------------------------------------------
    def wrap_ret(self, t, s, binds):
        if self.ret == "owrap":
            if t == "wrap":
                body = f"Some {s}"
            elif t == "owrap":
                body = s
            else:
                raise self.err(f"returns {t}, expected a wrapper")
            for v, o in reversed(binds):
                body = f"match {o} with Some {v} => {body} | None => None end"
            return body
        if binds:
            raise self.err("normalising call in a method that does not return a wrapper")
        if t != self.ret:
            raise self.err(f"returns {t}, expected {self.ret}")
        return s

    def block(self, stmts) -> str:
        stmts = _strip_doc(list(stmts))
        if not stmts:
            raise self.err("control reaches the end of the method without return")
        s, rest = stmts[0], stmts[1:]
        if isinstance(s, ast.Return):
            if s.value is None:
                raise self.err("bare return", s)
            binds = [] if self.ret == "owrap" else None
            t, e = self.expr(s.value, binds)
            return self.wrap_ret(t, e, binds or [])
        if isinstance(s, ast.Assert):
            if self.ret != "owrap" or s.msg is not None:
                raise self.err("assert is only supported in normalising methods", s)
            c = self.as_(s.test, "bool", None)
            return f"if {c} then {self.block(rest)} else None (* AssertionError *)"
        if isinstance(s, ast.Assign) and len(s.targets) == 1 and isinstance(s.targets[0], ast.Name):
            name = s.targets[0].id
            if name in ("self", "rec", "form") or name.startswith("py_") or name.startswith("s_"):
                raise self.err(f"assignment to reserved name {name}", s)
            binds = [] if self.ret == "owrap" else None
            t, e = self.expr(s.value, binds)
            if t == "owrap":
                self.fresh += 1
                v = f"{name}_{self.fresh}"
                self.env[name] = ("wrap", v)
                body = f"match {e} with Some {v} => {self.block(rest)} | None => None end"
            elif t in ("lwrap",):
                raise self.err("list-valued local", s)
            else:
                self.fresh += 1
                v = f"{name}_{self.fresh}"
                self.env[name] = (t, v)
                body = f"let {v} := {e} in {self.block(rest)}"
            for bv, bo in reversed(binds or []):
                body = f"match {bo} with Some {bv} => {body} | None => None end"
            return body
        if isinstance(s, ast.If):
            c = self.as_(s.test, "bool", None)
            saved = dict(self.env)
            a = self.block(list(s.body) + rest)
            self.env = dict(saved)
            b = self.block(list(s.orelse) + rest)
            self.env = saved
            return f"if {c} then {a} else {b}"
        raise self.err(f"unsupported statement `{ast.unparse(s)[:80]}`", s)

    def gen_block(self, stmts) -> str:
        """generator body -> list term (the yielded sequence)"""
        parts = []
        for s in _strip_doc(list(stmts)):
            if isinstance(s, ast.Expr) and isinstance(s.value, ast.Yield) and s.value.value is not None:
                parts.append(f"[{self.as_(s.value.value, 'wrap', None)}]")
            elif isinstance(s, ast.Expr) and isinstance(s.value, ast.YieldFrom):
                parts.append(self.as_(s.value.value, "lwrap", None))
            elif isinstance(s, ast.If):
                parts.append(f"(if {self.as_(s.test, 'bool', None)} then {self.gen_block(s.body)} else {self.gen_block(s.orelse)})")
            else:
                raise self.err(f"unsupported statement in a generator `{ast.unparse(s)[:80]}`", s)
        return "(" + " ++ ".join(parts) + ")" if parts else "[]"


MEMO = ("r = self._satisfiesCache.get(form)", "if r is None:", "return r")


def _memo_body(f: ast.FunctionDef, where: str):
    """the memo idiom of LogicalBinaryOperation.satisfies -> the expression that is cached, or None"""
    b = _strip_doc(f.body)
    if not (len(b) == 3 and ast.unparse(b[0]) == MEMO[0] and isinstance(b[1], ast.If) and ast.unparse(b[1].test) == "r is None"
            and not b[1].orelse and ast.unparse(b[2]) == MEMO[2]):
        return None
    inner = b[1].body
    if not (len(inner) == 2 and isinstance(inner[0], ast.Assign) and ast.unparse(inner[0].targets[0]) == "r"
            and ast.unparse(inner[1]) == "self._satisfiesCache[form] = r"):
        raise Untranslatable(f"{where}: memo idiom with an unexpected body")
    return inner[0].value


def _check_sig(f: ast.FunctionDef, m: str, where: str):
    pos, kwo, _, _ = METHODS[m]
    a = f.args
    got = [x.arg for x in a.args]
    gotkw = [x.arg for x in a.kwonlyargs]
    if (got != ["self"] + [p for p, _ in pos] or gotkw != [k for k, _ in kwo] or a.vararg or a.kwarg or a.defaults
            or any(d is not None for d in a.kw_defaults) or a.posonlyargs):
        raise Untranslatable(f"{where}: unexpected signature ({ast.unparse(a)})")
    decs = [d for d in _decorators(f) if d != "abstractmethod"]
    if decs:
        raise Untranslatable(f"{where}: unexpected decorators {decs}")


def _check_immutable(tree: ast.Module):
    """wrapper objects are values: attribute / subscript stores only in __init__ and in the memo idiom"""
    expected_init = {
        "Opaque": (["self", "node", "precedence"], "self._node = node\nself._precedence = precedence"),
        "LogicalNot": (["self", "operand"], "self._operand = operand"),
        "LogicalBinaryOperation": (["self", "lhs", "operator", "rhs"],
                                   "self._lhs = lhs\nself._operator = operator\nself._rhs = rhs\nself._satisfiesCache: dict[NormalForm, bool] = {}"),
    }
    for cname in [BASE] + list(CLASSES):
        cls = _find_class(tree, cname)
        bases = [ast.unparse(b) for b in cls.bases]
        if bases != (["ABC"] if cname == BASE else [BASE]) or cls.keywords:
            raise Untranslatable(f"{cname}: unexpected base classes {bases}")
        for name, f in _methods(cls).items():
            if name == "__init__":
                params, text = expected_init.get(cname, (None, None))
                if params is None or [x.arg for x in f.args.args] != params or _body_text(f) != text:
                    raise Untranslatable(f"{cname}.__init__ is not the plain field initialiser the model assumes")
                continue
            for x in ast.walk(f):
                if isinstance(x, (ast.Attribute, ast.Subscript)) and isinstance(x.ctx, (ast.Store, ast.Del)):
                    if cname == "LogicalBinaryOperation" and name == "satisfies" and ast.unparse(x) == "self._satisfiesCache[form]":
                        continue
                    raise Untranslatable(f"{cname}.{name}: stores to `{ast.unparse(x)[:60]}` (wrappers must be immutable)")
                if isinstance(x, (ast.Global, ast.Nonlocal, ast.Lambda, ast.Try, ast.While, ast.For, ast.With)):
                    raise Untranslatable(f"{cname}.{name}: unsupported construct {type(x).__name__}")
                if isinstance(x, ast.Attribute) and x.attr == "_satisfiesCache" and not (cname == "LogicalBinaryOperation" and name == "satisfies"):
                    raise Untranslatable(f"{cname}.{name}: touches the satisfies cache")
        if cname in CLASSES and "__init__" not in _methods(cls):
            raise Untranslatable(f"{cname}: no __init__")
    # nobody outside the classes pokes into wrapper fields
    for node in tree.body:
        if isinstance(node, ast.ClassDef) and node.name in [BASE] + list(CLASSES):
            continue
        for x in ast.walk(node):
            if isinstance(x, ast.Attribute) and x.attr in ("_lhs", "_rhs", "_operator", "_operand", "_satisfiesCache") \
                    and isinstance(x.ctx, (ast.Store, ast.Del)):
                raise Untranslatable(f"store to wrapper field {x.attr} outside the wrapper classes")


def _enum_values(tree, cname, expected: dict):
    cls = _find_class(tree, cname)
    if [ast.unparse(b) for b in cls.bases] != ["enum.Enum"]:
        raise Untranslatable(f"{cname} is not a plain enum.Enum")
    got = {}
    for s in cls.body:
        if isinstance(s, ast.Assign) and len(s.targets) == 1 and isinstance(s.targets[0], ast.Name):
            if not isinstance(s.value, ast.Constant) or not isinstance(s.value.value, bool):
                raise Untranslatable(f"{cname}.{s.targets[0].id}: value is not a bool literal")
            got[s.targets[0].id] = s.value.value
    if got != expected:
        raise Untranslatable(f"{cname} members {got}, the model assumes {expected}")
    return cls


def _enum_method(cls: ast.ClassDef, name: str, selfty: str, pos, kwo, ret: str, decorator: str | None) -> str:
    f = _methods(cls).get(name)
    where = f"{cls.name}.{name}"
    if f is None:
        raise Untranslatable(f"{where} not found")
    a = f.args
    if ([x.arg for x in a.args] != ["self"] + [p for p, _ in pos] or [x.arg for x in a.kwonlyargs] != [k for k, _ in kwo]
            or a.vararg or a.kwarg or a.defaults or any(d is not None for d in a.kw_defaults) or a.posonlyargs):
        raise Untranslatable(f"{where}: unexpected signature ({ast.unparse(a)})")
    if _decorators(f) != ([decorator] if decorator else []):
        raise Untranslatable(f"{where}: unexpected decorators {_decorators(f)}")
    env = {p: (ty, p) for p, ty in pos + kwo}
    fn = Fn(where, env, ret, set(), None, (selfty, "self_"), None)
    return fn.block(f.body)


def _binders(ps):
    return " ".join(f"({p} : {COQTY[ty]})" for p, ty in ps)


def _wrapper_methods(tree) -> list[str]:
    base = _methods(_find_class(tree, BASE))
    own = {c: _methods(_find_class(tree, c)) for c in CLASSES}
    out = []
    defined: set = set()
    for m in ORDER:
        pos, kwo, ret, kind = METHODS[m]
        branches = []
        uses_rec = False
        for c, (pat, attrs) in CLASSES.items():
            if m in own[c]:
                f, where = own[c][m], f"{c}.{m}"
            elif m in base:
                f, where = base[m], f"{BASE}.{m} (inherited by {c})"
                if "abstractmethod" in _decorators(f):
                    raise Untranslatable(f"{c} does not implement abstract {m}")
            else:
                raise Untranslatable(f"{c}.{m} not found")
            _check_sig(f, m, where)
            env = {p: (ty, p) for p, ty in pos + kwo}
            can_call = set(defined) | ({m} if kind == "fix" else set())
            fn = Fn(where, env, ret, can_call, attrs, ("wrap", "self_"), c)
            if ret == "lwrap":
                if not any(isinstance(x, (ast.Yield, ast.YieldFrom)) for x in ast.walk(f)):
                    raise Untranslatable(f"{where}: expected a generator")
                body = fn.gen_block(f.body)
            else:
                if any(isinstance(x, (ast.Yield, ast.YieldFrom)) for x in ast.walk(f)):
                    raise Untranslatable(f"{where}: unexpected generator")
                memo = _memo_body(f, where) if (c, m) == ("LogicalBinaryOperation", "satisfies") else None
                if memo is not None:
                    t, e = fn.expr(memo, None)
                    body = fn.wrap_ret(t, e, [])
                else:
                    body = fn.block(f.body)
            uses_rec = uses_rec or fn.uses_rec
            branches.append(f"  | {pat} => (* {where} *)\n      {body}")
        # a normalising method that happens not to normalise in any class still takes `rec` (uniform signature)
        hdr = []
        if ret == "owrap":
            hdr.append("(rec : wrap -> option wrap)")
        allp = pos + kwo
        if any(p == "form" for p, _ in allp):
            hdr.append("(form : bool)")
        rest = [(p, ty) for p, ty in allp if p != "form"]
        if m == "flatten":
            hdr += ["(operator : bool)", "(self_ : wrap)"]
        else:
            hdr += ["(self_ : wrap)"] + ([_binders(rest)] if rest else [])
        kw = "Fixpoint" if kind == "fix" else "Definition"
        struct = " {struct self_}" if kind == "fix" else ""
        out.append(f"{kw} {COQNAME[m]} {' '.join(hdr)}{struct} : {COQTY[ret]} :=\n  match self_ with\n" + "\n".join(branches) + "\n  end.")
        defined.add(m)
    return out


# ---- pinned text ------------------------------------------------------------------------------------------------------
def _pin(tree, cname, mname, expected: str, allow=None):
    f = _methods(_find_class(tree, cname)).get(mname)
    if f is None:
        raise Untranslatable(f"{cname}.{mname} not found")
    got = _body_text(f)
    ok = re.fullmatch(allow, got) is not None if allow else got == expected
    if not ok:
        raise Untranslatable(f"{cname}.{mname} no longer reads as the text the model was written from:\n{got}")


def _visitor(tree):
    cls = _find_class(tree, "TransformationVisitor")
    if [ast.unparse(b) for b in cls.bases] != ["TreeVisitor[TransformationWrapper]"]:
        raise Untranslatable("TransformationVisitor: unexpected bases")
    opq = r"return Opaque\(node, [A-Za-z_.\[\]]+\)"
    _pin(tree, "TransformationVisitor", "visitUnaryOp", "",
         allow=r"if operator == 'NOT':\n    return operand\.not_\(\)\nelse:\n    " + opq)
    _pin(tree, "TransformationVisitor", "visitBinaryOp", "",
         allow=r"logical = LogicalBinaryOperator\.__members__\.get\(operator\)\nif logical is not None:\n"
               r"    return LogicalBinaryOperation\(lhs, logical, rhs\)\n" + opq)
    _pin(tree, "TransformationVisitor", "visitParens", "return expression")
    for name, f in _methods(cls).items():
        if name in ("visitUnaryOp", "visitBinaryOp", "visitParens"):
            continue
        if not name.startswith("visit"):
            raise Untranslatable(f"TransformationVisitor.{name}: unexpected method")
        t = _body_text(f)
        if not (re.fullmatch(opq, t) or t.startswith("raise NotImplementedError(")):
            raise Untranslatable(f"TransformationVisitor.{name} is expected to wrap its node as Opaque")
    return ("(* TransformationVisitor: NOT -> operand.not_(), AND/OR -> LogicalBinaryOperation, Parens -> its expression,\n"
            "   everything else -> Opaque(node) *)\n"
            "Fixpoint py_wrap_of (t : ltree) : wrap :=\n"
            "  match t with\n"
            "  | LAtom a => Opaque a\n"
            "  | LNot t => py_not_ (py_wrap_of t)\n"
            "  | LBin l o r => WBin (py_wrap_of l) o (py_wrap_of r)\n"
            "  | LParens t => py_wrap_of t\n"
            "  end.")


def _from_tree(tree):
    _pin(tree, "NormalFormExpression", "fromTree",
         "wrapper = root.visit(TransformationVisitor()).normalize(form)\n"
         "nodes = []\n"
         "for outerOperands in wrapper.flatten(form.outer):\n"
         "    nodes.append([w.unwrap() for w in outerOperands.flatten(form.inner)])\n"
         "return NormalFormExpression(nodes, form=form)")
    _pin(tree, "NormalFormExpression", "__init__", "self._form = form\nself._nodes = nodes")
    _pin(tree, "Opaque", "unwrap", "return self._node")
    _pin(tree, "LogicalNot", "unwrap",
         "node = self._operand.unwrap()\n"
         "if PrecedenceTier.needsParens(self.precedence, self._operand.precedence):\n"
         "    node = Parens(node)\n"
         "return UnaryOp('NOT', node)")
    return ("(* NormalFormExpression.fromTree(root, form)._nodes *)\n"
            "Definition py_nodes_of (form : bool) (wrapper : wrap) : list (list ltree) :=\n"
            "  map (fun outerOperands => map unwrap (py_flatten (py_form_inner form) outerOperands))\n"
            "      (py_flatten (py_form_outer form) wrapper).\n"
            "Definition py_from_tree (fuel : nat) (form : bool) (root : ltree) : option (list (list ltree)) :=\n"
            "  match py_normalize fuel form (py_wrap_of root) with\n"
            "  | Some wrapper => Some (py_nodes_of form wrapper)\n"
            "  | None => None\n"
            "  end.")


def _to_tree_pins(tree):
    _pin(tree, "NormalFormExpression", "visit",
         "visitedOuterBranches: list[_U] = []\n"
         "for nodeInnerBranches in self._nodes:\n"
         "    visitedInnerBranches = [visitor.visitBranch(node) for node in nodeInnerBranches]\n"
         "    visitedOuterBranches.append(visitor.visitInner(visitedInnerBranches, self.form))\n"
         "return visitor.visitOuter(visitedOuterBranches, self.form)")
    _pin(tree, "NormalFormExpression", "toTree", "visitor = TreeReconstructionVisitor()\nreturn self.visit(visitor)")
    _pin(tree, "NormalFormExpression", "form", "return self._form")
    _pin(tree, "TreeReconstructionVisitor", "visitBranch", "return node")
    _pin(tree, "TreeReconstructionVisitor", "_visitSequence",
         "first, *rest = branches\n"
         "if not rest:\n"
         "    return first\n"
         "merged = self._visitSequence(rest, operator)\n"
         "node = BinaryOp(first, operator.name, merged)\n"
         "return self.visitBranch(node)")
    _pin(tree, "TreeReconstructionVisitor", "visitInner",
         "node = self._visitSequence(branches, form.inner)\n"
         "if len(branches) > 1:\n"
         "    node = Parens(node)\n"
         "return node")
    _pin(tree, "TreeReconstructionVisitor", "visitOuter",
         "node = self._visitSequence(branches, form.outer)\n"
         "if isinstance(node, Parens):\n"
         "    node = node.expr\n"
         "return node")


def translate() -> dict:
    tree = ast.parse((PKG / SRC).read_text())
    out = [
        f"(* GENERATED by harness/translators/normalform.py from {SRC} of /repo's working tree -- do not edit *)",
        "From Coq Require Import NArith List Bool.",
        "From V Require Import Base.Tri Model.Pred Model.NormalForm.",
        "Import ListNotations.",
        "Open Scope list_scope.",
        "Open Scope bool_scope.",
    ]
    # ---- the two enums: members are their bool values
    lbo = _enum_values(tree, "LogicalBinaryOperator", {"AND": True, "OR": False})
    nf = _enum_values(tree, "NormalForm", {"CONJUNCTIVE": True, "DISJUNCTIVE": False})
    _check_immutable(tree)
    body = _enum_method(lbo, "apply", "op", [("lhs", "wrap"), ("rhs", "wrap")], [], "wrap", None)
    out.append(f"(* LogicalBinaryOperator.apply *)\nDefinition py_apply (self_ : bool) (lhs rhs : wrap) : wrap :=\n  {body}.")
    for prop in ("inner", "outer"):
        body = _enum_method(nf, prop, "form", [], [], "op", "property")
        out.append(f"(* NormalForm.{prop} *)\nDefinition py_form_{prop} (self_ : bool) : bool :=\n  {body}.")
    body = _enum_method(nf, "allows", "form", [], [("inner", "op"), ("outer", "op")], "bool", None)
    out.append(f"(* NormalForm.allows(inner=, outer=) *)\nDefinition py_allows (self_ : bool) (inner outer : bool) : bool :=\n  {body}.")
    # ---- the wrapper classes
    out += _wrapper_methods(tree)
    out.append("(* normalize, with fuel: `rec` of every normalising method is normalize with the remaining fuel *)\n"
               "Fixpoint py_normalize (fuel : nat) (form : bool) (w : wrap) : option wrap :=\n"
               "  match fuel with\n"
               "  | O => None\n"
               "  | S n => py_normalize_step (py_normalize n form) form w\n"
               "  end.")
    out.append(_visitor(tree))
    out.append(_from_tree(tree))
    _to_tree_pins(tree)
    return {"Gen/NormalFormGen.v": "\n".join(out) + "\n"}


if __name__ == "__main__":
    for k, v in translate().items():
        print(v)
