"""Translator (tie T) for C17: the threshold tests of `DatastoreCacheManager._expire_cache`
(python/lsst/daf/butler/datastore/cache_manager.py) regenerated into coq/Gen/CacheExpireGen.v.

From the `ast` of the method, fail-closed on every shape outside the supported subset:

    if self._expiration_mode is None: return              (no mode: nothing is scanned, nothing expires)
    if self._expiration_threshold is None: ... return
    self.scan_cache()                                      (must come before every mode branch)
    if self._expiration_mode == "files":
        n_files = len(self._cache_entries)
        n_over = <EXPR over n_files, threshold>            -> gen_files_over
        if <TEST over n_over>:                             -> gen_files_guard
            sorted_keys = self._sort_cache(); keys_to_remove = sorted_keys[:n_over]; self._remove_from_cache(keys_to_remove)
        return
    if self._expiration_mode == "datasets":   (group by entry.ref in `_sort_cache()` order)
        n_datasets = len(datasets); n_over = <EXPR>; if <TEST>: ref_ids = list(datasets.keys())[:n_over]; ... remove
    if self._expiration_mode == "size":
        if <TEST over self.cache_size, threshold>:         -> gen_size_enter
            for key in self._sort_cache():
                self._remove_from_cache([key])
                if <TEST over self.cache_size, threshold>: break     -> gen_size_stop
    if self._expiration_mode == "age":
        now = datetime.datetime.now(...)
        for key in self._sort_cache():
            delta = now - self._cache_entries[key].ctime
            if <TEST over delta.total_seconds() | delta.seconds | delta.days, threshold>:   -> gen_age_old
                self._remove_from_cache([key])
            else: break

The generated file defines those tests as Gallina functions over Z plus `gen_expire`, the expiry function assembled from
them with the hand model's primitives (scan, _sort_cache, _remove_from_cache); Proofs/CacheProofsE.v proves
`gen_expire = expire true` (Model/Cache.v), so an edit of a threshold test (off-by-one, `>` for `>=` where it matters,
`delta.seconds`) breaks a proof of Props/C17.v.
"""
from __future__ import annotations

import ast

from harness.common import PKG


class Untranslatable(Exception):
    pass


def _is_self_attr(n, name):
    return isinstance(n, ast.Attribute) and n.attr == name and isinstance(n.value, ast.Name) and n.value.id == "self"


def _expr(n: ast.AST, env: dict) -> str:
    """integer / boolean expression over the names of `env` -> Gallina (Z scope)"""
    if isinstance(n, ast.Constant) and isinstance(n.value, int) and not isinstance(n.value, bool):
        return str(n.value) if n.value >= 0 else f"({n.value})"
    if isinstance(n, ast.Name) and n.id in env:
        return env[n.id]
    if _is_self_attr(n, "_expiration_threshold"):
        return "thr"
    if _is_self_attr(n, "cache_size") and "cache_size" in env:
        return env["cache_size"]
    if isinstance(n, ast.Call) and not n.args and not n.keywords and isinstance(n.func, ast.Attribute) \
            and n.func.attr == "total_seconds" and isinstance(n.func.value, ast.Name) and n.func.value.id in env.get("_deltas", ()):
        return "age"
    if isinstance(n, ast.Attribute) and isinstance(n.value, ast.Name) and n.value.id in env.get("_deltas", ()):
        if n.attr == "seconds":
            return "(age mod 86400)"
        if n.attr == "days":
            return "(age / 86400)"
    if isinstance(n, ast.BinOp) and isinstance(n.op, (ast.Add, ast.Sub, ast.Mult)):
        op = {ast.Add: "+", ast.Sub: "-", ast.Mult: "*"}[type(n.op)]
        return f"({_expr(n.left, env)} {op} {_expr(n.right, env)})"
    if isinstance(n, ast.UnaryOp) and isinstance(n.op, ast.USub):
        return f"(- {_expr(n.operand, env)})"
    if isinstance(n, ast.Compare) and len(n.ops) == 1:
        op = {ast.Gt: ">?", ast.GtE: ">=?", ast.Lt: "<?", ast.LtE: "<=?", ast.Eq: "=?"}.get(type(n.ops[0]))
        if op is None:
            raise Untranslatable(f"comparison {ast.dump(n.ops[0])}")
        return f"({_expr(n.left, env)} {op} {_expr(n.comparators[0], env)})"
    if isinstance(n, ast.BoolOp):
        op = "&&" if isinstance(n.op, ast.And) else "||"
        return "(" + f" {op} ".join(_expr(v, env) for v in n.values) + ")"
    if isinstance(n, ast.UnaryOp) and isinstance(n.op, ast.Not):
        return f"(negb {_expr(n.operand, env)})"
    raise Untranslatable(f"expression outside the supported subset: {ast.unparse(n)}")


def _mode_of(test):
    if (isinstance(test, ast.Compare) and len(test.ops) == 1 and isinstance(test.ops[0], ast.Eq)
            and _is_self_attr(test.left, "_expiration_mode") and isinstance(test.comparators[0], ast.Constant)):
        return test.comparators[0].value
    return None


def _is_call_self(n, name):
    return isinstance(n, ast.Call) and _is_self_attr(n.func, name)


def _assign(st, name=None):
    if isinstance(st, ast.Assign) and len(st.targets) == 1 and isinstance(st.targets[0], ast.Name) and (name is None or st.targets[0].id == name):
        return st.value
    return None


def _head_slice(n, upper):
    """<anything>[:upper] with `upper` a bare name"""
    return (isinstance(n, ast.Subscript) and isinstance(n.slice, ast.Slice) and n.slice.lower is None and n.slice.step is None
            and isinstance(n.slice.upper, ast.Name) and n.slice.upper.id == upper)


def _strip(body):
    return [s for s in body if not (isinstance(s, ast.Expr) and isinstance(s.value, ast.Constant))
            and not (isinstance(s, ast.Expr) and isinstance(s.value, ast.Call) and isinstance(s.value.func, ast.Attribute)
                     and isinstance(s.value.func.value, ast.Name) and s.value.func.value.id == "log")]


def _count_branch(body, mode, count_name):
    """files / datasets: returns (over_expr, guard_expr)"""
    body = _strip(body)
    if not body or not isinstance(body[-1], ast.Return) or body[-1].value is not None:
        raise Untranslatable(f"{mode}: the branch must end with a bare return")
    over = guard = None
    counted = False
    for st in body[:-1]:
        v = _assign(st, count_name)
        if v is not None:
            if not (isinstance(v, ast.Call) and isinstance(v.func, ast.Name) and v.func.id == "len" and len(v.args) == 1):
                raise Untranslatable(f"{mode}: {count_name} is not a len(...)")
            if mode == "files" and not _is_self_attr(v.args[0], "_cache_entries"):
                raise Untranslatable("files: n_files is not len(self._cache_entries)")
            if mode == "datasets" and not (isinstance(v.args[0], ast.Name) and v.args[0].id == "datasets"):
                raise Untranslatable("datasets: n_datasets is not len(datasets)")
            counted = True
            continue
        v = _assign(st, "n_over")
        if v is not None:
            if not counted:
                raise Untranslatable(f"{mode}: n_over computed before {count_name}")
            over = _expr(v, {count_name: "n"})
            continue
        if isinstance(st, ast.If) and over is not None:
            if st.orelse:
                raise Untranslatable(f"{mode}: unexpected else branch")
            guard = _expr(st.test, {"n_over": "n_over"})
            inner = _strip(st.body)
            sliced = [s for s in inner if _assign(s) is not None and _head_slice(_assign(s), "n_over")]
            removes = [s for s in inner if isinstance(s, ast.Expr) and _is_call_self(s.value, "_remove_from_cache")]
            if len(sliced) != 1 or len(removes) != 1 or any(isinstance(s, (ast.For, ast.While, ast.If)) for s in inner):
                raise Untranslatable(f"{mode}: the removal is not `<sorted>[:n_over]` followed by one _remove_from_cache")
            continue
        if mode == "datasets" and (isinstance(st, ast.For) or _assign(st, "datasets") is not None):
            # the grouping loop: for key in self._sort_cache(): entry = ...; datasets[entry.ref].append(key)
            if isinstance(st, ast.For) and not _is_call_self(st.iter, "_sort_cache"):
                raise Untranslatable("datasets: the grouping loop does not walk self._sort_cache()")
            continue
        raise Untranslatable(f"{mode}: unexpected statement {ast.unparse(st)[:80]}")
    if over is None or guard is None:
        raise Untranslatable(f"{mode}: n_over / its test not found")
    return over, guard


def _size_branch(body):
    body = _strip(body)
    if len(body) != 2 or not isinstance(body[0], ast.If) or body[0].orelse or not isinstance(body[1], ast.Return):
        raise Untranslatable("size: expected `if <test>: for ...` and a return")
    enter = _expr(body[0].test, {"cache_size": "sz"})
    inner = _strip(body[0].body)
    if len(inner) != 1 or not isinstance(inner[0], ast.For) or not _is_call_self(inner[0].iter, "_sort_cache") or inner[0].orelse:
        raise Untranslatable("size: expected one loop over self._sort_cache()")
    loop = _strip(inner[0].body)
    if (len(loop) != 2 or not (isinstance(loop[0], ast.Expr) and _is_call_self(loop[0].value, "_remove_from_cache"))
            or not isinstance(loop[1], ast.If) or loop[1].orelse or len(loop[1].body) != 1 or not isinstance(loop[1].body[0], ast.Break)):
        raise Untranslatable("size: the loop body is not `remove one key; if <test>: break`")
    stop = _expr(loop[1].test, {"cache_size": "sz"})
    return enter, stop


def _age_branch(body):
    body = _strip(body)
    if len(body) != 3 or _assign(body[0], "now") is None or not isinstance(body[1], ast.For) or not isinstance(body[2], ast.Return):
        raise Untranslatable("age: expected `now = ...; for ...; return`")
    nowv = _assign(body[0], "now")
    if not (isinstance(nowv, ast.Call) and isinstance(nowv.func, ast.Attribute) and nowv.func.attr == "now"):
        raise Untranslatable("age: `now` is not datetime.now(...)")
    loop_st = body[1]
    if not _is_call_self(loop_st.iter, "_sort_cache") or loop_st.orelse:
        raise Untranslatable("age: the loop does not walk self._sort_cache()")
    loop = _strip(loop_st.body)
    if len(loop) != 2 or _assign(loop[0], "delta") is None or not isinstance(loop[1], ast.If):
        raise Untranslatable("age: the loop body is not `delta = now - ctime; if <test>: remove else: break`")
    d = _assign(loop[0], "delta")
    if not (isinstance(d, ast.BinOp) and isinstance(d.op, ast.Sub) and isinstance(d.left, ast.Name) and d.left.id == "now"
            and isinstance(d.right, ast.Attribute) and d.right.attr == "ctime"):
        raise Untranslatable("age: delta is not `now - <entry>.ctime`")
    iff = loop[1]
    then = _strip(iff.body)
    els = _strip(iff.orelse)
    if (len(then) != 1 or not (isinstance(then[0], ast.Expr) and _is_call_self(then[0].value, "_remove_from_cache"))
            or len(els) != 1 or not isinstance(els[0], ast.Break)):
        raise Untranslatable("age: expected `if <old>: remove else: break`")
    return _expr(iff.test, {"_deltas": ("delta",)})


TEMPLATE = """(* GENERATED on every run by harness/translators/cache_expire.py from
   python/lsst/daf/butler/datastore/cache_manager.py (DatastoreCacheManager._expire_cache).  Do not edit, do not commit. *)
From Coq Require Import ZArith NArith List Bool.
From V Require Import Model.Cache.
Import ListNotations.
Open Scope Z_scope.

(* the threshold tests, as written in the source *)
Definition gen_files_over (n thr : Z) : Z := {files_over}.
Definition gen_files_guard (n_over thr : Z) : bool := {files_guard}.
Definition gen_datasets_over (n thr : Z) : Z := {datasets_over}.
Definition gen_datasets_guard (n_over thr : Z) : bool := {datasets_guard}.
Definition gen_size_enter (sz thr : Z) : bool := {size_enter}.
Definition gen_size_stop (sz thr : Z) : bool := {size_stop}.
Definition gen_age_old (age thr : Z) : bool := {age_old}.
Definition gen_scan_before_modes : bool := {scan_first}.
Definition gen_no_mode_returns_first : bool := {nomode_first}.

(* `<list>[:n_over]` under `if <guard>:` *)
Definition gen_take {{A}} (n_over : Z) (guard : bool) (l : list A) : list A := if guard then firstn (Z.to_nat n_over) l else [].

Fixpoint gen_size_loop (thr : Z) (ks : list N) (dm : list entry * mgr) : list entry * mgr :=
  match ks with
  | [] => dm
  | k :: r => let dm' := remove1 k dm in if gen_size_stop (msize (snd dm')) thr then dm' else gen_size_loop thr r dm'
  end.
Fixpoint gen_age_loop (thr now : Z) (l : list entry) (dm : list entry * mgr) : list entry * mgr :=
  match l with
  | [] => dm
  | e :: r => if gen_age_old (now - e_ctime e) thr then gen_age_loop thr now r (remove1 (e_key e) dm) else dm
  end.

(* _expire_cache assembled from the generated tests and the model's scan / _sort_cache / _remove_from_cache *)
Definition gen_expire (c : cfg) (now : Z) (dm : list entry * mgr) : list entry * mgr :=
  match c_mode c with
  | MNone | MDisabled => dm
  | md =>
    let disk := fst dm in
    let m := if gen_scan_before_modes then scan disk (snd dm) else snd dm in
    let sorted := sort_entries (entries m) in
    match md with
    | MFiles =>
        let n_over := gen_files_over (Z.of_nat (length (entries m))) (c_thr c) in
        remove_keys (keys (gen_take n_over (gen_files_guard n_over (c_thr c)) sorted)) (disk, m)
    | MDatasets =>
        let refs := nodup_n (map e_ref sorted) in
        let n_over := gen_datasets_over (Z.of_nat (length refs)) (c_thr c) in
        let gone := gen_take n_over (gen_datasets_guard n_over (c_thr c)) refs in
        remove_keys (keys (filter (fun e => existsb (N.eqb (e_ref e)) gone) sorted)) (disk, m)
    | MSize => if gen_size_enter (msize m) (c_thr c) then gen_size_loop (c_thr c) (keys sorted) (disk, m) else (disk, m)
    | MAge => gen_age_loop (c_thr c) now sorted (disk, m)
    | _ => (disk, m)
    end
  end.
"""


def translate():
    tree = ast.parse((PKG / "datastore" / "cache_manager.py").read_text())
    cls = next((n for n in tree.body if isinstance(n, ast.ClassDef) and n.name == "DatastoreCacheManager"), None)
    if cls is None:
        raise Untranslatable("class DatastoreCacheManager not found")
    fn = next((f for f in cls.body if isinstance(f, ast.FunctionDef) and f.name == "_expire_cache"), None)
    if fn is None:
        raise Untranslatable("DatastoreCacheManager._expire_cache not found")
    body = _strip(fn.body)
    out = {}
    scan_at = None
    first_mode_at = None
    nomode_at = None
    seen = []
    for i, st in enumerate(body):
        if isinstance(st, ast.Expr) and _is_call_self(st.value, "scan_cache"):
            scan_at = i if scan_at is None else scan_at
            continue
        if isinstance(st, ast.If):
            t = st.test
            if (isinstance(t, ast.Compare) and len(t.ops) == 1 and isinstance(t.ops[0], ast.Is) and isinstance(t.comparators[0], ast.Constant)
                    and t.comparators[0].value is None):
                inner = _strip(st.body)
                if not inner or not isinstance(inner[-1], ast.Return) or st.orelse:
                    raise Untranslatable("`is None` guard does not return")
                if _is_self_attr(t.left, "_expiration_mode"):
                    nomode_at = i
                elif not _is_self_attr(t.left, "_expiration_threshold"):
                    raise Untranslatable(f"unexpected guard {ast.unparse(t)}")
                continue
            mode = _mode_of(t)
            if mode is None or st.orelse:
                raise Untranslatable(f"unexpected top-level test {ast.unparse(t)[:80]}")
            first_mode_at = i if first_mode_at is None else first_mode_at
            seen.append(mode)
            if mode == "files":
                out["files_over"], out["files_guard"] = _count_branch(st.body, "files", "n_files")
            elif mode == "datasets":
                out["datasets_over"], out["datasets_guard"] = _count_branch(st.body, "datasets", "n_datasets")
            elif mode == "size":
                out["size_enter"], out["size_stop"] = _size_branch(st.body)
            elif mode == "age":
                out["age_old"] = _age_branch(st.body)
            else:
                raise Untranslatable(f"unknown expiry mode {mode!r}")
            continue
        if isinstance(st, ast.Raise) and i == len(body) - 1:
            continue
        raise Untranslatable(f"unexpected statement in _expire_cache: {ast.unparse(st)[:80]}")
    if sorted(seen) != ["age", "datasets", "files", "size"]:
        raise Untranslatable(f"expiry modes found: {seen}")
    out["scan_first"] = "true" if (scan_at is not None and first_mode_at is not None and scan_at < first_mode_at) else "false"
    out["nomode_first"] = "true" if (nomode_at is not None and (scan_at is None or nomode_at < scan_at)) else "false"
    return {"Gen/CacheExpireGen.v": TEMPLATE.format(**out)}


if __name__ == "__main__":
    print(translate()["Gen/CacheExpireGen.v"])
