"""Translator (tie T) for C01: does FileDatastore refuse the ingest of a dataset it already holds BEFORE any file is
transferred (commit 2da36a1)?

Reads the `ast` of FileDatastore._finishIngest: GEN_INGEST_REFUSES_HELD is `true` iff a statement that calls
`self._refuse_datasets_already_stored(...)` comes before the first statement that mentions `_extractIngestInfo`
(which transfers the file with overwrite=True), and that method exists and can raise.  Otherwise `false`: the
correspondence model then is the variant `step_unfixed`, for which `refused_noop_impl` (Props/C01.v) cannot be proved.
Fail-closed: no `_finishIngest`, or no `_extractIngestInfo` in it -> raise.
"""
from __future__ import annotations

import ast

from harness.common import PKG


class Untranslatable(Exception):
    pass


def _mentions(node: ast.AST, attr: str, call: bool) -> bool:
    for n in ast.walk(node):
        if call:
            if (isinstance(n, ast.Call) and isinstance(n.func, ast.Attribute) and n.func.attr == attr
                    and isinstance(n.func.value, ast.Name) and n.func.value.id == "self"):
                return True
        elif isinstance(n, ast.Attribute) and n.attr == attr:
            return True
    return False


def refuses_first() -> bool:
    tree = ast.parse((PKG / "datastores" / "fileDatastore.py").read_text())
    cls = next((n for n in tree.body if isinstance(n, ast.ClassDef) and n.name == "FileDatastore"), None)
    if cls is None:
        raise Untranslatable("class FileDatastore not found")
    meths = {f.name: f for f in cls.body if isinstance(f, ast.FunctionDef)}
    fin = meths.get("_finishIngest")
    if fin is None:
        raise Untranslatable("FileDatastore._finishIngest not found")
    first_extract = next((i for i, st in enumerate(fin.body) if _mentions(st, "_extractIngestInfo", call=False)), None)
    if first_extract is None:
        raise Untranslatable("_finishIngest no longer mentions _extractIngestInfo")
    first_refuse = next((i for i, st in enumerate(fin.body)
                         if isinstance(st, ast.Expr) and _mentions(st, "_refuse_datasets_already_stored", call=True)), None)
    guard = meths.get("_refuse_datasets_already_stored")
    raises = guard is not None and any(isinstance(n, ast.Raise) for n in ast.walk(guard))
    return first_refuse is not None and first_refuse < first_extract and raises


def translate():
    flag = refuses_first()
    text = (
        "(* GENERATED on every run by harness/translators/c01_ingest.py from\n"
        "   python/lsst/daf/butler/datastores/fileDatastore.py (FileDatastore._finishIngest).  Do not edit, do not commit. *)\n"
        f"Definition GEN_INGEST_REFUSES_HELD : bool := {'true' if flag else 'false'}.\n"
    )
    return {"Gen/IngestGuardGen.v": text}


if __name__ == "__main__":
    print(translate()["Gen/IngestGuardGen.v"])
