"""Translator (tie T) for C18: regenerate coq/Gen/SerialReduceGen.v from the *current* `__reduce__` bodies of the three
concrete DataCoordinate classes (python/lsst/daf/butler/dimensions/_coordinate.py) and check, fail-closed, the shape
of the other pickle hooks the nested pickle model (coq/Model/SerialX.v) copies by hand.

Supported subset
    DataCoordinate classes:   def __reduce__(self): return (<ClassName>, (self.<slot>, ...))
                              with <ClassName> one of the three tuple classes and <slot> in _dimensions/_values/_records
    _BasicTupleDataCoordinate.__init__:      self._dimensions = dimensions; self._values = values
    _ExpandedTupleDataCoordinate.__init__:   super().__init__(dimensions, values); assert super().hasFull(), ...;
                                             self._records = records
    _ExpandedTupleDataCoordinate._record:    return self._records[name]
    DimensionRecord.__reduce__, _reconstructDimensionRecord, DatasetType.__reduce__, _unpickle_via_factory,
    DatasetRef.__reduce__, DatasetRef._unpickle, DimensionGroup.__getnewargs__: must be exactly the statements listed in
    EXPECT below (compared as ASTs, docstrings and annotations ignored).
Anything else raises `Untranslatable` (the tie is then reported broken).
"""
from __future__ import annotations

import ast

from harness.common import PKG


class Untranslatable(Exception):
    pass


CLS = {"_RequiredTupleDataCoordinate": "ClsRequired", "_FullTupleDataCoordinate": "ClsFull",
       "_ExpandedTupleDataCoordinate": "ClsExpanded"}
SLOT = {"_dimensions": "ADims", "_values": "AVals", "_records": "ARecs"}

# (file, class or None, function) -> expected body (statements, after the docstring)
EXPECT = {
    ("dimensions/_coordinate.py", "_BasicTupleDataCoordinate", "__init__"):
        "self._dimensions = dimensions\nself._values = values",
    ("dimensions/_coordinate.py", "_ExpandedTupleDataCoordinate", "__init__"):
        "super().__init__(dimensions, values)\n"
        "assert super().hasFull(), 'This implementation requires full dimension records.'\n"
        "self._records = records",
    ("dimensions/_coordinate.py", "_ExpandedTupleDataCoordinate", "_record"): "return self._records[name]",
    ("dimensions/_coordinate.py", "_ExpandedTupleDataCoordinate", "hasRecords"): "return True",
    ("dimensions/_coordinate.py", "_BasicTupleDataCoordinate", "hasRecords"): "return False",
    ("dimensions/_coordinate.py", "_RequiredTupleDataCoordinate", "hasFull"): "return False",
    ("dimensions/_coordinate.py", "_FullTupleDataCoordinate", "hasFull"): "return True",
    ("dimensions/_records.py", "DimensionRecord", "__reduce__"):
        "mapping = {name: getattr(self, name) for name in self.__slots__}\n"
        "return (_reconstructDimensionRecord, (self.definition, mapping))",
    ("dimensions/_records.py", None, "_reconstructDimensionRecord"): "return definition.RecordClass(**mapping)",
    ("dimensions/_group.py", "DimensionGroup", "__getnewargs__"): "return (self.universe, self.names._seq, False)",
    ("_dataset_type.py", "DatasetType", "__reduce__"):
        "return _unpickle_via_factory, (self.__class__, (self.name, self._dimensions, self._storageClassName, "
        "self._parentStorageClassName), {'isCalibration': self._isCalibration})",
    ("_dataset_type.py", None, "_unpickle_via_factory"): "return factory(*args, **kwargs)",
    ("_dataset_ref.py", "DatasetRef", "__reduce__"):
        "return (self._unpickle, (self.datasetType, self.dataId, self.id, self.run, self._datastore_records))",
    ("_dataset_ref.py", "DatasetRef", "_unpickle"):
        "return cls(datasetType, dataId, id=id, run=run, datastore_records=datastore_records)",
}


def _find(tree: ast.Module, cls: str | None, name: str) -> ast.FunctionDef:
    scope = tree.body
    if cls is not None:
        for node in tree.body:
            if isinstance(node, ast.ClassDef) and node.name == cls:
                scope = node.body
                break
        else:
            raise Untranslatable(f"class {cls} not found")
    found = [f for f in scope if isinstance(f, ast.FunctionDef) and f.name == name]
    if len(found) != 1:
        raise Untranslatable(f"{cls}.{name}: {len(found)} definitions")
    return found[0]


def _body(f: ast.FunctionDef):
    b = f.body
    if b and isinstance(b[0], ast.Expr) and isinstance(b[0].value, ast.Constant) and isinstance(b[0].value.value, str):
        b = b[1:]
    return b


def _dump(stmts) -> str:
    return "\n".join(ast.dump(s) for s in stmts)


def _coord_reduce(tree: ast.Module, cls: str):
    body = _body(_find(tree, cls, "__reduce__"))
    if len(body) != 1 or not isinstance(body[0], ast.Return) or not isinstance(body[0].value, ast.Tuple):
        raise Untranslatable(f"{cls}.__reduce__: not a single `return (Class, (args...))`: {ast.unparse(body)[:200]}")
    elts = body[0].value.elts
    if len(elts) != 2 or not isinstance(elts[0], ast.Name) or elts[0].id not in CLS or not isinstance(elts[1], ast.Tuple):
        raise Untranslatable(f"{cls}.__reduce__: unsupported return value {ast.unparse(body[0].value)[:200]}")
    args = []
    for a in elts[1].elts:
        if not (isinstance(a, ast.Attribute) and isinstance(a.value, ast.Name) and a.value.id == "self" and a.attr in SLOT):
            raise Untranslatable(f"{cls}.__reduce__: unsupported argument {ast.unparse(a)[:120]}")
        args.append(SLOT[a.attr])
    return CLS[elts[0].id], args


def translate() -> dict[str, str]:
    trees = {}
    for (rel, cls, fn), want in EXPECT.items():
        if rel not in trees:
            trees[rel] = ast.parse((PKG / rel).read_text())
        got = _dump(_body(_find(trees[rel], cls, fn)))
        exp = _dump(ast.parse(want).body)
        if got != exp:
            raise Untranslatable(f"{rel}:{cls}.{fn} is not the modelled body: {ast.unparse(_body(_find(trees[rel], cls, fn)))[:300]}")
    tree = trees["dimensions/_coordinate.py"]
    rows = []
    for cls, tag in CLS.items():
        target, args = _coord_reduce(tree, cls)
        rows.append(f"  | {tag} => ({target}, [{'; '.join(args)}])")
    text = (
        "(* GENERATED by harness/translators/c18_reduce.py from python/lsst/daf/butler/dimensions/_coordinate.py -- do not edit.\n"
        "   The __reduce__ bodies of the three concrete DataCoordinate classes: (class to call, attributes passed). *)\n"
        "From Coq Require Import List.\nFrom V Require Import Model.Serial Model.SerialX.\nImport ListNotations.\n\n"
        "Definition gen_reduce (cls : coord_cls) : coord_cls * list rarg :=\n  match cls with\n" + "\n".join(rows) + "\n  end.\n"
    )
    return {"Gen/SerialReduceGen.v": text}
