"""Translator (tie T) for C11: regenerate coq/Gen/TimespanGen.v from the *current* method bodies of
`Timespan` (python/lsst/daf/butler/_timespan.py) and `_CompoundTimespanDatabaseRepresentation`
(python/lsst/daf/butler/timespan_database_representation.py), plus the min/max nanosecond constants
obtained by running TimeConverter from the working tree.

Fail-closed: any construct outside the subset below raises `Untranslatable`.

Python subset (Timespan.isEmpty/__lt__/__gt__/overlaps/contains):
    body  ::= [docstring] (if isinstance(other, astropy.time.Time): instant-branch else: span-branch | stmts)
    stmts ::= [nsec = TimeConverter().astropy_to_nsec(other)] return expr
    expr  ::= expr and expr | expr or expr | not expr | atom cmp atom | self.<method>(other)
    atom  ::= self.nsec[0|1] | other.nsec[0|1] | nsec
SQL subset (Compound.isEmpty/__lt__/__gt__/overlaps/contains/isNull):
    same shape with isinstance(other, sqlalchemy.sql.ColumnElement), `sqlalchemy.sql.and_(e, ...)`,
    `sqlalchemy.sql.or_`, `sqlalchemy.sql.not_`, atoms self._nsec[i] | other._nsec[i] | other,
    `x.is_(None)`.
"""
from __future__ import annotations

import ast
from pathlib import Path

from harness.common import PKG


class Untranslatable(Exception):
    pass


CMP = {ast.Lt: "<?", ast.LtE: "<=?", ast.Gt: ">?", ast.GtE: ">=?", ast.Eq: "=?"}
SQLCMP = {ast.Lt: "sv_lt", ast.LtE: "sv_le", ast.Gt: "sv_gt", ast.GtE: "sv_ge", ast.Eq: "sv_eq", ast.NotEq: "sv_ne"}


def _find_method(tree: ast.Module, cls: str, name: str) -> ast.FunctionDef:
    for node in tree.body:
        if isinstance(node, ast.ClassDef) and node.name == cls:
            for f in node.body:
                if isinstance(f, ast.FunctionDef) and f.name == name:
                    return f
    raise Untranslatable(f"{cls}.{name} not found")


def _strip_doc(body):
    if body and isinstance(body[0], ast.Expr) and isinstance(body[0].value, ast.Constant) and isinstance(body[0].value.value, str):
        return body[1:]
    return body


def _dotted(n) -> str:
    if isinstance(n, ast.Name):
        return n.id
    if isinstance(n, ast.Attribute):
        return _dotted(n.value) + "." + n.attr
    raise Untranslatable(f"unsupported name expression {ast.dump(n)}")


class PyTr:
    """Python Timespan method -> Gallina bool expression over a b : ts and x : Z."""

    attr = "nsec"

    def __init__(self, other_is_instant: bool, instant_bound: bool):
        self.inst = other_is_instant
        self.bound = instant_bound

    def atom(self, n) -> str:
        if isinstance(n, ast.Subscript) and isinstance(n.value, ast.Attribute) and n.value.attr == self.attr \
                and isinstance(n.value.value, ast.Name) and isinstance(n.slice, ast.Constant) and n.slice.value in (0, 1):
            who = n.value.value.id
            sel = "fst" if n.slice.value == 0 else "snd"
            if who == "self":
                return f"({sel} a)"
            if who == "other" and not self.inst:
                return f"({sel} b)"
        if isinstance(n, ast.Name) and n.id == "nsec" and self.inst and self.bound:
            return "x"
        raise Untranslatable(f"unsupported atom {ast.dump(n)}")

    def expr(self, n) -> str:
        if isinstance(n, ast.BoolOp):
            op = "&&" if isinstance(n.op, ast.And) else "||"
            return "(" + f" {op} ".join(self.expr(v) for v in n.values) + ")"
        if isinstance(n, ast.UnaryOp) and isinstance(n.op, ast.Not):
            return f"(negb {self.expr(n.operand)})"
        if isinstance(n, ast.Compare) and len(n.ops) == 1:
            l, r = self.atom(n.left), self.atom(n.comparators[0])
            if isinstance(n.ops[0], ast.NotEq):
                return f"(negb ({l} =? {r}))"
            if type(n.ops[0]) not in CMP:
                raise Untranslatable(f"comparison {ast.dump(n.ops[0])}")
            return f"({l} {CMP[type(n.ops[0])]} {r})"
        if isinstance(n, ast.Call) and isinstance(n.func, ast.Attribute) and isinstance(n.func.value, ast.Name) \
                and n.func.value.id == "self" and len(n.args) == 1 and isinstance(n.args[0], ast.Name) \
                and n.args[0].id == "other" and not n.keywords:
            m = {"contains": "contains", "overlaps": "overlaps", "__lt__": "lt", "__gt__": "gt"}.get(n.func.attr)
            if m is None:
                raise Untranslatable(f"call to self.{n.func.attr}")
            return f"(py_{m}_t a x)" if self.inst else f"(py_{m} a b)"
        raise Untranslatable(f"unsupported expression {ast.dump(n)[:200]}")


def _py_branch(stmts, inst: bool) -> str:
    stmts = _strip_doc(stmts)
    bound = False
    if inst and len(stmts) == 2:
        s = stmts[0]
        ok = (isinstance(s, ast.Assign) and len(s.targets) == 1 and isinstance(s.targets[0], ast.Name)
              and s.targets[0].id == "nsec" and isinstance(s.value, ast.Call)
              and _dotted(s.value.func.value.func) == "TimeConverter" and s.value.func.attr == "astropy_to_nsec"
              and len(s.value.args) == 1 and isinstance(s.value.args[0], ast.Name) and s.value.args[0].id == "other")
        if not ok:
            raise Untranslatable("instant branch must start with nsec = TimeConverter().astropy_to_nsec(other)")
        bound = True
        stmts = stmts[1:]
    if len(stmts) != 1 or not isinstance(stmts[0], ast.Return) or stmts[0].value is None:
        raise Untranslatable("branch must be a single return")
    return PyTr(inst, bound).expr(stmts[0].value)


def _split_isinstance(fn: ast.FunctionDef, typename: str):
    """Return (instant_stmts | None, span_stmts)."""
    body = _strip_doc(fn.body)
    if len(body) >= 1 and isinstance(body[0], ast.If):
        t = body[0].test
        if not (isinstance(t, ast.Call) and isinstance(t.func, ast.Name) and t.func.id == "isinstance" and len(t.args) == 2
                and isinstance(t.args[0], ast.Name) and t.args[0].id == "other" and _dotted(t.args[1]) == typename):
            raise Untranslatable(f"{fn.name}: unexpected if-test {ast.dump(t)[:120]}")
        inst = body[0].body
        rest = body[0].orelse if body[0].orelse else body[1:]
        if body[0].orelse and body[1:]:
            raise Untranslatable(f"{fn.name}: statements after if/else")
        return inst, rest
    return None, body


class SqlTr:
    def __init__(self, other_is_col: bool):
        self.col = other_is_col

    def atom(self, n) -> str:
        if isinstance(n, ast.Subscript) and isinstance(n.value, ast.Attribute) and n.value.attr == "_nsec" \
                and isinstance(n.value.value, ast.Name) and isinstance(n.slice, ast.Constant) and n.slice.value in (0, 1):
            who = n.value.value.id
            sel = "fst" if n.slice.value == 0 else "snd"
            if who == "self":
                return f"({sel} a)"
            if who == "other" and not self.col:
                return f"({sel} b)"
        if isinstance(n, ast.Name) and n.id == "other" and self.col:
            return "x"
        raise Untranslatable(f"unsupported SQL atom {ast.dump(n)[:120]}")

    def expr(self, n) -> str:
        if isinstance(n, ast.Call) and isinstance(n.func, ast.Attribute):
            name = _dotted(n.func) if not isinstance(n.func.value, (ast.Subscript, ast.Call)) else None
            if name in ("sqlalchemy.sql.and_", "sqlalchemy.and_", "sqlalchemy.sql.or_", "sqlalchemy.or_") and not n.keywords and n.args:
                f = "tri_and" if name.endswith("and_") else "tri_or"
                parts = [self.expr(v) for v in n.args]
                out = parts[0]
                for p in parts[1:]:
                    out = f"({f} {out} {p})"
                return out
            if name in ("sqlalchemy.sql.not_", "sqlalchemy.not_") and len(n.args) == 1:
                return f"(tri_not {self.expr(n.args[0])})"
            if isinstance(n.func.value, ast.Name) and n.func.value.id == "self" and len(n.args) == 1 \
                    and isinstance(n.args[0], ast.Name) and n.args[0].id == "other":
                m = {"contains": "contains", "overlaps": "overlaps", "__lt__": "lt", "__gt__": "gt"}.get(n.func.attr)
                if m is None:
                    raise Untranslatable(f"call to self.{n.func.attr}")
                return f"(sql_{m}_t a x)" if self.col else f"(sql_{m} a b)"
        if isinstance(n, ast.Compare) and len(n.ops) == 1 and type(n.ops[0]) in SQLCMP:
            return f"({SQLCMP[type(n.ops[0])]} {self.atom(n.left)} {self.atom(n.comparators[0])})"
        raise Untranslatable(f"unsupported SQL expression {ast.dump(n)[:200]}")


def _sql_branch(stmts, col: bool) -> str:
    stmts = [s for s in _strip_doc(stmts)]
    if len(stmts) != 1 or not isinstance(stmts[0], ast.Return) or stmts[0].value is None:
        raise Untranslatable("SQL branch must be a single return")
    return SqlTr(col).expr(stmts[0].value)


def constants():
    """min/max nanoseconds as the working tree computes them (import of the real module)."""
    from lsst.daf.butler.time_utils import TimeConverter
    c = TimeConverter()
    return int(c.min_nsec), int(c.max_nsec)


def translate() -> dict:
    py = ast.parse((PKG / "_timespan.py").read_text())
    sq = ast.parse((PKG / "timespan_database_representation.py").read_text())
    out = [
        "(* GENERATED by harness/translators/timespan.py from /repo's working tree -- do not edit *)",
        "From Coq Require Import ZArith Bool List.",
        "From V Require Import Base.Tri.",
        "Open Scope Z_scope.",
        "Definition ts := (Z * Z)%type.",
        "Definition sts := (sv * sv)%type.",
    ]
    mn, mx = constants()
    out.append(f"Definition GEN_MIN : Z := {mn}.")
    out.append(f"Definition GEN_MAX : Z := {mx}.")
    # --- Python methods; order matters: contains before overlaps (overlaps' instant branch calls contains)
    f = _find_method(py, "Timespan", "isEmpty")
    inst, span = _split_isinstance(f, "astropy.time.Time")
    if inst is not None:
        raise Untranslatable("isEmpty has an isinstance branch")
    out.append(f"Definition py_isEmpty (a : ts) : bool := {_py_branch(span, False)}.")
    for meth, nm in (("contains", "contains"), ("__lt__", "lt"), ("__gt__", "gt"), ("overlaps", "overlaps")):
        f = _find_method(py, "Timespan", meth)
        inst, span = _split_isinstance(f, "astropy.time.Time")
        if inst is None:
            raise Untranslatable(f"{meth}: expected an isinstance(other, astropy.time.Time) branch")
        out.append(f"Definition py_{nm}_t (a : ts) (x : Z) : bool := {_py_branch(inst, True)}.")
        out.append(f"Definition py_{nm} (a b : ts) : bool := {_py_branch(span, False)}.")
    # --- __init__ canonicalisation test and __eq__/__hash__ key
    init = _find_method(py, "Timespan", "__init__")
    canon = [s for s in init.body if isinstance(s, ast.If) and isinstance(s.test, ast.Compare)
             and isinstance(s.test.left, ast.Subscript) and _dotted(s.test.left.value) == "_nsec"]
    if len(canon) != 1:
        raise Untranslatable("__init__: canonicalisation `if _nsec[0] ? _nsec[1]` not found exactly once")
    t = canon[0].test
    if not (len(t.ops) == 1 and type(t.ops[0]) in CMP and t.left.slice.value == 0
            and isinstance(t.comparators[0], ast.Subscript) and _dotted(t.comparators[0].value) == "_nsec"
            and t.comparators[0].slice.value == 1):
        raise Untranslatable("__init__: canonicalisation test shape")
    asg = canon[0].body
    if not (len(asg) == 1 and isinstance(asg[0], ast.Assign) and isinstance(asg[0].value, ast.Tuple)
            and [_dotted(e) for e in asg[0].value.elts] == ["converter.max_nsec", "converter.min_nsec"]):
        raise Untranslatable("__init__: canonical empty must be (converter.max_nsec, converter.min_nsec)")
    out.append(f"Definition py_mk (b e : Z) : ts := if (b {CMP[type(t.ops[0])]} e) then (GEN_MAX, GEN_MIN) else (b, e).")
    eq = _find_method(py, "Timespan", "__eq__")
    last = _strip_doc(eq.body)[-1]
    if not (isinstance(last, ast.Return) and isinstance(last.value, ast.Compare) and len(last.value.ops) == 1
            and isinstance(last.value.ops[0], ast.Eq)
            and _dotted(last.value.left) == "self.nsec" and _dotted(last.value.comparators[0]) == "other.nsec"):
        raise Untranslatable("__eq__ must compare self.nsec == other.nsec")
    h = _find_method(py, "Timespan", "__hash__")
    hb = _strip_doc(h.body)
    if not (len(hb) == 1 and isinstance(hb[0], ast.Return) and isinstance(hb[0].value, ast.Call)
            and _dotted(hb[0].value.func) == "hash" and _dotted(hb[0].value.args[0]) == "self.nsec"):
        raise Untranslatable("__hash__ must be hash(self.nsec)")
    out.append("Definition py_eq (a b : ts) : bool := (fst a =? fst b) && (snd a =? snd b).")
    # --- SQL
    C = "_CompoundTimespanDatabaseRepresentation"
    f = _find_method(sq, C, "isEmpty")
    out.append(f"Definition sql_isEmpty (a : sts) : tri := {_sql_branch(f.body, False)}.")
    f = _find_method(sq, C, "isNull")
    b = _strip_doc(f.body)
    if not (len(b) == 1 and isinstance(b[0], ast.Return) and isinstance(b[0].value, ast.Call)
            and isinstance(b[0].value.func, ast.Attribute) and b[0].value.func.attr == "is_"
            and isinstance(b[0].value.args[0], ast.Constant) and b[0].value.args[0].value is None):
        raise Untranslatable("isNull shape")
    out.append(f"Definition sql_isNull (a : sts) : bool := sv_is_null {SqlTr(False).atom(b[0].value.func.value)}.")
    for meth, nm in (("contains", "contains"), ("__lt__", "lt"), ("__gt__", "gt"), ("overlaps", "overlaps")):
        f = _find_method(sq, C, meth)
        inst, span = _split_isinstance(f, "sqlalchemy.sql.ColumnElement")
        if inst is None:
            raise Untranslatable(f"SQL {meth}: expected isinstance(other, sqlalchemy.sql.ColumnElement)")
        out.append(f"Definition sql_{nm}_t (a : sts) (x : sv) : tri := {_sql_branch(inst, True)}.")
        out.append(f"Definition sql_{nm} (a b : sts) : tri := {_sql_branch(span, False)}.")
    return {"Gen/TimespanGen.v": "\n".join(out) + "\n"}


if __name__ == "__main__":
    for k, v in translate().items():
        print(v)
