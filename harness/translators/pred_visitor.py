"""Translator (tie T) for C15: regenerate coq/Gen/PredVisitGen.v from the *current* bodies of

    SimplePredicateVisitor.apply_logical_not / apply_logical_or / apply_logical_and

in python/lsst/daf/butler/queries/visitors.py -- the helpers that REBUILD a Predicate out of the per-leaf results of a
visitor (None = "leaf unchanged", a Predicate = "replace the leaf by this").  They combine predicates with
Predicate.logical_not / logical_or / logical_and, so C15's statement applies to what they return.

Model types (Model/Pred.v):  a leaf is a `lit` (the operand of a NOT is an `atom`), an OR-group `list lit`,
a visit result `option cnf`; for apply_logical_and a present result carries the identity flag that
`Predicate._impl_and` will observe for it (`option (bool * cnf)`, see Gen/PredGen.v py_logical_and).

Fail-closed: anything outside the subset below raises `Untranslatable`.

  body  ::= [docstring]  if GUARD: return None   [from . import tree]   return E
  GUARD ::= result is None | all((result is None for result in results))
  E     ::= [tree.]Predicate._from_leaf(original) | [tree.]Predicate._from_or_group(original)
          | [tree.]Predicate.from_bool(True|False) | result            (only where it is known not to be None)
          | E.logical_not()
          | E.logical_or(*[ELT for original, result in zip(originals, results)])
          | E.logical_and(*[ELT for original, result in zip(originals, results)])
  ELT   ::= E if result is None else result  |  result if result is not None else E
"""
from __future__ import annotations

import ast

from harness.common import PKG


class Untranslatable(Exception):
    pass


SRC = "queries/visitors.py"
CLS = "SimplePredicateVisitor"


def _strip_doc(body):
    if body and isinstance(body[0], ast.Expr) and isinstance(body[0].value, ast.Constant) and isinstance(body[0].value.value, str):
        return body[1:]
    return body


def _method(tree, name) -> ast.FunctionDef:
    for node in tree.body:
        if isinstance(node, ast.ClassDef) and node.name == CLS:
            for f in node.body:
                if isinstance(f, ast.FunctionDef) and f.name == name:
                    return f
    raise Untranslatable(f"{CLS}.{name} not found")


class Fn:
    def __init__(self, name: str, original_kind: str, flagged: bool):
        self.name = name
        self.kind = original_kind      # 'atom' | 'lit' | 'group': what `original` is
        self.flagged = flagged         # results are option (bool * cnf)
        self.result_ok = False         # `result` is known to be a Predicate here
        self.in_comp = False

    def err(self, msg):
        return Untranslatable(f"{self.name}: {msg}")

    def _pred_call(self, f):
        """[tree.]Predicate.<method> -> method name"""
        if isinstance(f, ast.Attribute):
            v = ast.unparse(f.value)
            if v in ("tree.Predicate", "Predicate"):
                return f.attr
        return None

    def original(self, n, want):
        if not (isinstance(n, ast.Name) and n.id == "original"):
            raise self.err(f"expected `original`, found {ast.unparse(n)[:60]}")
        if want == "leaf":
            if self.kind == "atom":
                return "(Pos original)"
            if self.kind == "lit":
                return "original"
        if want == "group" and self.kind == "group":
            return "original"
        raise self.err(f"`original` is a {self.kind}, used as a {want}")

    def expr(self, n) -> str:
        if isinstance(n, ast.Name) and n.id == "result":
            if not self.result_ok:
                raise self.err("`result` used where it may be None")
            return "result"
        if isinstance(n, ast.Call):
            m = self._pred_call(n.func)
            if m == "_from_leaf" and len(n.args) == 1 and not n.keywords:
                return f"(py_from_leaf {self.original(n.args[0], 'leaf')})"
            if m == "_from_or_group" and len(n.args) == 1 and not n.keywords:
                return f"(py_from_or_group {self.original(n.args[0], 'group')})"
            if m == "from_bool" and len(n.args) == 1 and not n.keywords and isinstance(n.args[0], ast.Constant) \
                    and isinstance(n.args[0].value, bool):
                return f"(py_from_bool {'true' if n.args[0].value else 'false'})"
            if isinstance(n.func, ast.Attribute) and n.func.attr == "logical_not" and not n.args and not n.keywords:
                return f"(py_logical_not {self.expr(n.func.value)})"
            if isinstance(n.func, ast.Attribute) and n.func.attr in ("logical_or", "logical_and") and not n.keywords:
                if self.in_comp:
                    raise self.err("nested n-ary call")
                recv = self.expr(n.func.value)
                if not (len(n.args) == 1 and isinstance(n.args[0], ast.Starred) and isinstance(n.args[0].value, (ast.ListComp, ast.GeneratorExp))):
                    raise self.err(f"{n.func.attr} must be called as {n.func.attr}(*[... for original, result in zip(originals, results)])")
                c = n.args[0].value
                if len(c.generators) != 1 or c.generators[0].ifs or c.generators[0].is_async \
                        or ast.unparse(c.generators[0].target) != "(original, result)" \
                        or ast.unparse(c.generators[0].iter) != "zip(originals, results)":
                    raise self.err("comprehension must be `for original, result in zip(originals, results)`")
                is_and = n.func.attr == "logical_and"
                if is_and != self.flagged:
                    raise self.err(f"{n.func.attr} used in the helper modelled {'with' if self.flagged else 'without'} identity flags")
                self.in_comp = True
                elt = self.elt(c.elt, is_and)
                self.in_comp = False
                return f"(py_{n.func.attr} {recv} (map (fun '(original, result) => {elt}) (combine originals results)))"
        raise self.err(f"unsupported expression `{ast.unparse(n)[:100]}`")

    def elt(self, n, flagged: bool) -> str:
        if not (self.in_comp and isinstance(n, ast.IfExp)):
            raise self.err("comprehension element must be `E if result is None else result`")
        t = ast.unparse(n.test)
        if t == "result is None":
            none_arm, some_arm = n.body, n.orelse
        elif t == "result is not None":
            none_arm, some_arm = n.orelse, n.body
        else:
            raise self.err(f"unsupported test `{t}`")
        if not (isinstance(some_arm, ast.Name) and some_arm.id == "result"):
            raise self.err("a present result must be used as it is")
        e = self.expr(none_arm)
        if flagged:
            return f"match result with None => (false, {e}) | Some fr => fr end"
        return f"match result with None => {e} | Some result => result end"

    def body(self, f: ast.FunctionDef, guard: str) -> str:
        b = _strip_doc(f.body)
        b = [s for s in b if not (isinstance(s, ast.ImportFrom) and ast.unparse(s) == "from . import tree")]
        if not (len(b) == 2 and isinstance(b[0], ast.If) and not b[0].orelse and len(b[0].body) == 1
                and ast.unparse(b[0].body[0]) == "return None" and isinstance(b[1], ast.Return) and b[1].value is not None):
            raise self.err("body must be `if <guard>: return None` / `return <expr>`")
        g = ast.unparse(b[0].test)
        if g != guard:
            raise self.err(f"guard is `{g}`, expected `{guard}`")
        return b[1].value


def _sig(f, names):
    a = f.args
    if [x.arg for x in a.args] != ["self"] + names or a.vararg or a.kwarg or a.kwonlyargs or a.defaults or f.decorator_list:
        raise Untranslatable(f"{f.name}: unexpected signature ({ast.unparse(a)})")


def translate() -> dict:
    tree = ast.parse((PKG / SRC).read_text())
    out = [
        f"(* GENERATED by harness/translators/pred_visitor.py from {SRC} of /repo's working tree -- do not edit *)",
        "From Coq Require Import NArith List Bool.",
        "From V Require Import Base.Tri Model.Pred Gen.PredGen.",
        "Import ListNotations.",
        "Open Scope list_scope.",
        "Definition is_none {A} (x : option A) : bool := match x with None => true | Some _ => false end.",
        "(* Predicate._from_or_group (its body is shape-checked by harness/translators/predicate.py) *)",
        "Definition py_from_or_group (g : list lit) : cnf := [g].",
    ]
    # apply_logical_not(original, result, flags)
    f = _method(tree, "apply_logical_not")
    _sig(f, ["original", "result", "flags"])
    fn = Fn("apply_logical_not", "atom", False)
    v = fn.body(f, "result is None")
    fn.result_ok = True
    out.append("Definition py_apply_logical_not (original : atom) (result : option cnf) : option cnf :=\n"
               f"  match result with\n  | None => None\n  | Some result => Some {fn.expr(v)}\n  end.")
    # apply_logical_or(originals, results, flags)
    f = _method(tree, "apply_logical_or")
    _sig(f, ["originals", "results", "flags"])
    fn = Fn("apply_logical_or", "lit", False)
    v = fn.body(f, "all((result is None for result in results))")
    out.append("Definition py_apply_logical_or (originals : list lit) (results : list (option cnf)) : option cnf :=\n"
               f"  if forallb is_none results then None else\n  Some {fn.expr(v)}.")
    # apply_logical_and(originals, results)
    f = _method(tree, "apply_logical_and")
    _sig(f, ["originals", "results"])
    fn = Fn("apply_logical_and", "group", True)
    v = fn.body(f, "all((result is None for result in results))")
    out.append("(* a present result carries the identity flag `operands is result.operands` that _impl_and will observe *)\n"
               "Definition py_apply_logical_and (originals : cnf) (results : list (option (bool * cnf))) : option cnf :=\n"
               f"  if forallb is_none results then None else\n  Some {fn.expr(v)}.")
    return {"Gen/PredVisitGen.v": "\n".join(out) + "\n"}


if __name__ == "__main__":
    for k, v in translate().items():
        print(v)
