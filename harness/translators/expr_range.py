"""Translator (tie T) for C05: regenerate coq/Gen/RangeGen.v from the *current* body of

    SqlColumnVisitor.visit_in_range      (python/lsst/daf/butler/direct_query_driver/_sql_column_visitor.py)

Props/C05.v states `in_range_correct_gen` / `range_gen_matches_model` / `range_gen_open_correct` over the generated
`gen_visit_in_range`, so a semantic edit of the range test (a truthiness test where `is None` is meant, `stop` instead of
`stop - 1`, a changed stride expression, ...) breaks a proof on the next run, independently of the correspondence.

Fail-closed: anything outside the subset below raises `Untranslatable`.

  parameters   member -> sql, start -> Z, stop -> option Z (EXCLUSIVE upper bound, None = open-ended), step -> Z, flags unused
  types        int (Z) | optint (option Z) | sql | bool
  expr  ::= name | integer constant | None | self.expect_scalar(e) | sqlalchemy.literal(e) | sqlalchemy.sql.literal(e)
          | e - e | e + e | e % e                      (ints: Z arithmetic; sql: SArith)
          | e == e | e != e | e >= e | e <= e | e < e | e > e
                                                       (ints: boolean tests; sql operands: SCmp)
          | x is None | x is not None | x              (x an optint name; bare truthiness = "not None and not 0")
          | not c | c and c | c or c
          | e if c else e                              (None in one arm makes the result optint)
          | sqlalchemy.sql.between(e, e, e) | sqlalchemy.between(e, e, e)
          | sqlalchemy.sql.and_(*[e, ...]) | sqlalchemy.sql.and_(e, ...) | sqlalchemy.and_(...)
  stmt  ::= docstring | comment | name = e | if c: stmt+ [elif/else ...] | return e
  A test on an optint NAME narrows it: inside the branch where it is known not None the name is an int.
  Control flow is translated by continuation: the statements after an `if` are inlined into every branch that does not
  return.
"""
from __future__ import annotations

import ast

from harness.common import PKG


class Untranslatable(Exception):
    pass


SRC = "direct_query_driver/_sql_column_visitor.py"
PARAMS = {"member": "sql", "start": "int", "stop": "optint", "step": "int"}
CMP = {ast.Eq: "CEq", ast.NotEq: "CNe", ast.Lt: "CLt", ast.LtE: "CLe", ast.Gt: "CGt", ast.GtE: "CGe"}
ZCMP = {ast.Eq: "({a} =? {b})", ast.NotEq: "(negb ({a} =? {b}))", ast.Lt: "({a} <? {b})", ast.LtE: "({a} <=? {b})",
        ast.Gt: "({b} <? {a})", ast.GtE: "({b} <=? {a})"}
AOP = {ast.Sub: ("OSub", "-"), ast.Add: ("OAdd", "+"), ast.Mod: ("OMod", None), ast.Mult: ("OMul", "*")}


def _dotted(n) -> str | None:
    if isinstance(n, ast.Name):
        return n.id
    if isinstance(n, ast.Attribute):
        b = _dotted(n.value)
        return None if b is None else b + "." + n.attr
    return None


class Tr:
    def __init__(self):
        self.fresh = 0

    def name(self, base):
        self.fresh += 1
        return f"{base}_{self.fresh}"

    # ---- expressions: returns (term, type) --------------------------------------------------------------------
    def expr(self, n, env):
        if isinstance(n, ast.Name):
            if n.id not in env:
                raise Untranslatable(f"unbound name {n.id} (line {n.lineno})")
            return env[n.id]
        if isinstance(n, ast.Constant):
            if n.value is None:
                return ("None", "none")
            if isinstance(n.value, bool) or not isinstance(n.value, int):
                raise Untranslatable(f"constant {n.value!r} (line {n.lineno})")
            return (f"({n.value})" if n.value < 0 else str(n.value), "int")
        if isinstance(n, ast.UnaryOp) and isinstance(n.op, ast.USub) and isinstance(n.operand, ast.Constant) \
                and isinstance(n.operand.value, int):
            return (f"(-{n.operand.value})", "int")
        if isinstance(n, ast.Call):
            f = _dotted(n.func)
            if n.keywords:
                raise Untranslatable(f"keyword arguments in call to {f} (line {n.lineno})")
            if f == "self.expect_scalar" and len(n.args) == 1:
                t, ty = self.expr(n.args[0], env)
                if ty != "sql":
                    raise Untranslatable("expect_scalar of a non-column")
                return (t, "sql")
            if f in ("sqlalchemy.literal", "sqlalchemy.sql.literal") and len(n.args) == 1:
                t, ty = self.expr(n.args[0], env)
                if ty != "int":
                    raise Untranslatable(f"literal of a {ty} (line {n.lineno})")
                return (f"(zlit {t})", "sql")
            if f in ("sqlalchemy.sql.between", "sqlalchemy.between") and len(n.args) == 3:
                xs = [self.expr(a, env) for a in n.args]
                if any(ty != "sql" for _, ty in xs):
                    raise Untranslatable(f"between on non-sql operands (line {n.lineno})")
                return (f"(SBetween {xs[0][0]} {xs[1][0]} {xs[2][0]})", "sql")
            if f in ("sqlalchemy.sql.and_", "sqlalchemy.and_"):
                args = n.args
                if len(args) == 1 and isinstance(args[0], ast.Starred) and isinstance(args[0].value, (ast.List, ast.Tuple)):
                    args = args[0].value.elts
                xs = [self.expr(a, env) for a in args]
                if not xs or any(ty != "sql" for _, ty in xs):
                    raise Untranslatable(f"and_ on non-sql operands (line {n.lineno})")
                return ("(SAnd [" + "; ".join(t for t, _ in xs) + "])", "sql")
            raise Untranslatable(f"call to {f} (line {n.lineno})")
        if isinstance(n, ast.BinOp):
            if type(n.op) not in AOP:
                raise Untranslatable(f"operator {type(n.op).__name__} (line {n.lineno})")
            (a, ta), (b, tb) = self.expr(n.left, env), self.expr(n.right, env)
            sop, zop = AOP[type(n.op)]
            if ta == "sql" and tb == "sql":
                return (f"(SArith {sop} {a} {b})", "sql")
            if ta == "int" and tb == "int":
                if zop is None:
                    return (f"({a} mod {b})", "int")          # Python's % on ints is the floored modulus = Z.modulo
                return (f"({a} {zop} {b})", "int")
            raise Untranslatable(f"arithmetic on {ta}, {tb} (line {n.lineno})")
        if isinstance(n, ast.IfExp):
            return self.ifexp(n, env)
        if isinstance(n, (ast.Compare, ast.BoolOp)) or (isinstance(n, ast.UnaryOp) and isinstance(n.op, ast.Not)):
            # a comparison of sql operands is a value; everything else a boolean test
            if isinstance(n, ast.Compare) and len(n.ops) == 1 and type(n.ops[0]) in CMP:
                (a, ta), (b, tb) = self.expr(n.left, env), self.expr(n.comparators[0], env)
                if ta == "sql" and tb == "sql":
                    return (f"(SCmp {CMP[type(n.ops[0])]} {a} {b})", "sql")
            return (self.test_plain(n, env), "bool")
        raise Untranslatable(f"expression {type(n).__name__} (line {n.lineno})")

    # a test that does not narrow anything, as a Gallina bool
    def test_plain(self, n, env):
        if isinstance(n, ast.UnaryOp) and isinstance(n.op, ast.Not):
            return f"(negb {self.test_plain(n.operand, env)})"
        if isinstance(n, ast.BoolOp):
            op = "&&" if isinstance(n.op, ast.And) else "||"
            return "(" + f" {op} ".join(self.test_plain(v, env) for v in n.values) + ")"
        if isinstance(n, ast.Compare) and len(n.ops) == 1:
            op = n.ops[0]
            if isinstance(op, (ast.Is, ast.IsNot)):
                k = self.none_test(n, env)
                if k is None:
                    raise Untranslatable(f"identity test (line {n.lineno})")
                nm, is_none = k
                t, _ = env[nm]
                return f"(match {t} with None => {'true' if is_none else 'false'} | Some _ => {'false' if is_none else 'true'} end)"
            if type(op) in ZCMP:
                (a, ta), (b, tb) = self.expr(n.left, env), self.expr(n.comparators[0], env)
                if ta == "int" and tb == "int":
                    return ZCMP[type(op)].format(a=a, b=b)
                raise Untranslatable(f"comparison of {ta}, {tb} used as a test (line {n.lineno})")
        if isinstance(n, ast.Name):
            t, ty = self.expr(n, env)
            if ty == "optint":
                return f"(match {t} with None => false | Some z => negb (z =? 0) end)"
            if ty == "int":
                return f"(negb ({t} =? 0))"
            if ty == "bool":
                return t
        raise Untranslatable(f"test {ast.dump(n)[:80]} (line {n.lineno})")

    def none_test(self, n, env):
        """(name, True) for `name is None`, (name, False) for `name is not None`, on an optint name"""
        if isinstance(n, ast.Compare) and len(n.ops) == 1 and isinstance(n.ops[0], (ast.Is, ast.IsNot)) \
                and isinstance(n.left, ast.Name) and isinstance(n.comparators[0], ast.Constant) and n.comparators[0].value is None:
            if n.left.id in env and env[n.left.id][1] == "optint":
                return n.left.id, isinstance(n.ops[0], ast.Is)
            if n.left.id in env and env[n.left.id][1] == "int":
                raise Untranslatable(f"None test on {n.left.id}, which is known to be an int here (line {n.lineno})")
        return None

    def branch(self, test, env, then, other):
        """Gallina for `if test then then(env') else other(env'')` with narrowing of optint names.
        then / other are callables env -> term"""
        k = self.none_test(test, env)
        if k is not None:
            nm, is_none = k
            t, _ = env[nm]
            v = self.name(nm)
            env_some = dict(env, **{nm: (v, "int")})
            if is_none:
                return f"(match {t} with None => {then(env)} | Some {v} => {other(env_some)} end)"
            return f"(match {t} with Some {v} => {then(env_some)} | None => {other(env)} end)"
        if isinstance(test, ast.Name) and test.id in env and env[test.id][1] == "optint":
            # truthiness of an optional int: not None and not 0
            t, _ = env[test.id]
            v = self.name(test.id)
            env_some = dict(env, **{test.id: (v, "int")})
            return (f"(match {t} with Some {v} => if {v} =? 0 then {other(env_some)} else {then(env_some)} "
                    f"| None => {other(env)} end)")
        if isinstance(test, ast.UnaryOp) and isinstance(test.op, ast.Not):
            return self.branch(test.operand, env, other, then)
        return f"(if {self.test_plain(test, env)} then {then(env)} else {other(env)})"

    def ifexp(self, n, env):
        res = {}

        def arm(which, node):
            def k(e):
                t, ty = self.expr(node, e)
                res[which] = ty
                return "\x00" + which + "\x01" + t + "\x02"
            return k
        s = self.branch(n.test, env, arm("a", n.body), arm("b", n.orelse))
        ta, tb = res.get("a"), res.get("b")
        if ta == tb and ta in ("int", "sql", "optint"):
            ty, wrap = ta, {"a": "{}", "b": "{}"}
        elif {ta, tb} <= {"int", "none", "optint"} and "none" in (ta, tb) or {ta, tb} == {"int", "optint"}:
            ty = "optint"
            wrap = {w: ("(Some {})" if t == "int" else "{}") for w, t in (("a", ta), ("b", tb))}
        else:
            raise Untranslatable(f"conditional expression with arms of type {ta}, {tb} (line {n.lineno})")
        import re
        s = re.sub("\x00([ab])\x01(.*?)\x02", lambda m: wrap[m.group(1)].format(m.group(2)), s, flags=re.S)
        if ty == "optint":
            s = f"({s} : option Z)"
        return (s, ty)

    # ---- statements (continuation style) ----------------------------------------------------------------------
    def block(self, stmts, env, rest):
        """term for `stmts` followed by the continuation `rest: env -> term` (used when the block falls through)"""
        if not stmts:
            return rest(env)
        s, tail = stmts[0], stmts[1:]
        if isinstance(s, ast.Expr) and isinstance(s.value, ast.Constant) and isinstance(s.value.value, str):
            return self.block(tail, env, rest)
        if isinstance(s, ast.Return):
            if s.value is None:
                raise Untranslatable("bare return")
            t, ty = self.expr(s.value, env)
            if ty != "sql":
                raise Untranslatable(f"returns a {ty} (line {s.lineno})")
            return t
        if isinstance(s, (ast.Assign, ast.AnnAssign)):
            targets = s.targets if isinstance(s, ast.Assign) else [s.target]
            if len(targets) != 1 or not isinstance(targets[0], ast.Name) or s.value is None:
                raise Untranslatable(f"assignment form (line {s.lineno})")
            t, ty = self.expr(s.value, env)
            if ty == "none":
                t, ty = "(None : option Z)", "optint"
            v = self.name(targets[0].id)
            return f"(let {v} := {t} in {self.block(tail, dict(env, **{targets[0].id: (v, ty)}), rest)})"
        if isinstance(s, ast.If):
            cont = lambda e: self.block(tail, e, rest)      # noqa: E731
            return self.branch(s.test, env, lambda e: self.block(s.body, e, cont), lambda e: self.block(s.orelse, e, cont))
        raise Untranslatable(f"statement {type(s).__name__} (line {s.lineno})")


def _find(tree):
    for node in tree.body:
        if isinstance(node, ast.ClassDef) and node.name == "SqlColumnVisitor":
            for f in node.body:
                if isinstance(f, ast.FunctionDef) and f.name == "visit_in_range":
                    return f
    raise Untranslatable("SqlColumnVisitor.visit_in_range not found")


def translate():
    src = (PKG / SRC).read_text()
    f = _find(ast.parse(src))
    names = [a.arg for a in f.args.args]
    if names != ["self", "member", "start", "stop", "step", "flags"] or f.args.vararg or f.args.kwarg or f.args.kwonlyargs:
        raise Untranslatable(f"signature changed: {names}")
    ann = {a.arg: ast.unparse(a.annotation) if a.annotation else None for a in f.args.args}
    if ann["start"] != "int" or ann["step"] != "int" or ann["stop"] not in ("int | None", "Optional[int]", "None | int"):
        raise Untranslatable(f"parameter annotations changed: {ann}")
    tr = Tr()
    env = {p: (p, t) for p, t in PARAMS.items()}

    def fell_off(_e):
        raise Untranslatable("a path through visit_in_range does not return")
    body = tr.block(f.body, env, fell_off)
    text = (
        "(* GENERATED by harness/translators/expr_range.py from SqlColumnVisitor.visit_in_range\n"
        "   (python/lsst/daf/butler/direct_query_driver/_sql_column_visitor.py).  Do not edit; never committed.\n"
        "   stop is the EXCLUSIVE upper bound, None = open-ended. *)\n"
        "From Coq Require Import ZArith List Bool.\n"
        "From V Require Import Base.Tri Model.Expr Model.SqlExpr.\n"
        "Import ListNotations.\nOpen Scope Z_scope.\n\n"
        "Definition gen_visit_in_range (member : sql) (start : Z) (stop : option Z) (step : Z) : sql :=\n  "
        + body + ".\n"
    )
    return {"Gen/RangeGen.v": text}


if __name__ == "__main__":
    print(translate()["Gen/RangeGen.v"])
