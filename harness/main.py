"""./check Cxx [--tier quick|thorough] [--replay file]"""
import argparse
import importlib
import os
import sys
import traceback

sys.path.insert(0, os.path.dirname(os.path.dirname(os.path.abspath(__file__))))
from harness.common import Ctx  # noqa: E402


def main():
    ap = argparse.ArgumentParser()
    ap.add_argument("pid")
    ap.add_argument("--tier", default=os.environ.get("VERIF_TIER", "quick"), choices=["quick", "thorough"])
    ap.add_argument("--replay", default=None)
    a = ap.parse_args()
    seed = int(os.environ.get("VERIF_SEED", "0") or 0)
    ctx = Ctx(a.pid, a.tier, seed, a.replay)
    try:
        mod = importlib.import_module(f"harness.props.{a.pid.lower()}")
        mod.run(ctx)
    except Exception:  # the harness itself failed: report as broken machinery, not silently pass
        tb = traceback.format_exc()
        ctx.tie_broken("harness", "exception", tb[-3000:])
    sys.exit(ctx.finish())


if __name__ == "__main__":
    main()
