"""./check Cxx [--tier quick|thorough] [--replay file]"""
import argparse
import importlib
import os
import sys
import traceback

sys.path.insert(0, os.path.dirname(os.path.dirname(os.path.abspath(__file__))))
from harness.common import Ctx  # noqa: E402


def main():
    ap = argparse.ArgumentParser()
    ap.add_argument("pid")
    ap.add_argument("--tier", default=os.environ.get("VERIF_TIER", "quick"), choices=["quick", "thorough"])
    ap.add_argument("--replay", default=None)
    a = ap.parse_args()
    seed = int(os.environ.get("VERIF_SEED", "0") or 0)
    tier = a.tier
    rep = None
    if a.replay:
        # Replay: re-run the recorded case.  A property module may provide replay(ctx, rep) that re-executes exactly
        # that case on model and implementation; otherwise the whole check is re-run with the recorded seed and tier
        # (every random choice derives from the seed, so the same case is generated again).
        import json
        rep = json.load(open(a.replay))
        seed = int(rep.get("seed", seed))
        tier = rep.get("tier", tier)
    ctx = Ctx(a.pid, tier, seed, a.replay)
    ctx.replay_obj = rep
    try:
        mod = importlib.import_module(f"harness.props.{a.pid.lower()}")
        if rep is not None and hasattr(mod, "replay"):
            mod.replay(ctx, rep)
        else:
            mod.run(ctx)
    except Exception:  # the harness itself failed: report as broken machinery, not silently pass
        tb = traceback.format_exc()
        ctx.tie_broken("harness", "exception", tb[-3000:])
    rc = ctx.finish()
    if rep is not None:
        want = rep.get("signature")
        got = sorted({s for s, _ in ctx.oracle_failures})
        if want is not None:
            print(f"replay: recorded signature {want!r} " + ("REPRODUCED" if want in got else f"not reproduced (now failing: {got[:5]})"), flush=True)
        else:
            print(f"replay: recorded broken obligations/ties {[x.get('name') for x in rep.get('no_longer_checks', [])]}; now broken: {[b[1] for b in ctx.broken]}", flush=True)
    sys.exit(rc)


if __name__ == "__main__":
    main()
