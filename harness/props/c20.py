"""C20 -- Concurrent clients of one repository behave as if they ran one after another.

Obligations: Props/C20.v over Model/Conc.v (interleaving model: op = sequence of atomic steps; a registry transaction
             block is one step because SQLite's BEGIN IMMEDIATE is a global write lock).
Tie K:       2-3 REAL clients (one thread + one Butler each, one SQLite file, one datastore root) under a cooperative
             scheduler (harness/impl/c20_impl.py) that parks clients before every outermost transaction block, before the
             first of a run of reads outside a block and before every datastore file operation outside a block; the
             same schedule is replayed on the Coq model (vm_compute) and per-client outcomes + the final state seen by a
             fresh Butler are compared.  The serial reference runs of the implementation are compared with the model's
             serial semantics too.
Oracle:      (from the property's statement, not from the model) outcomes + final state of every interleaved run must be
             among the results of the serial orders (all merges of the programs, each API call atomic) executed on fresh
             copies of the same repository by the same number of fresh clients; every dataset visible at the end must be
             readable with the content its writer stored; no chain cycle; no call may hang.
"""
from __future__ import annotations

import glob
import itertools
import json
import os
import re

from harness.common import VERIF, Ctx, cbool, clist, cn, cnat, coq_make, parallel_workers, run_worker

HDR = ("From Coq Require Import NArith List Bool.\nFrom V Require Import Model.Conc Model.ConcCheck.\n"
       "Import ListNotations.\nOpen Scope N_scope.\n")

# ------------------------------------------------------------------------------------------------------------------
# world and generators
# ------------------------------------------------------------------------------------------------------------------

SETUP = [["regrun", "r0"], ["put", "r0", 0, 1], ["put", "r0", 1, 2], ["regrun", "r1"], ["put", "r1", 0, 3],
         ["regrun", "r2"], ["regcoll", "T", "TAGGED"], ["assoc", "T", [["r0", 0]]],
         ["regcoll", "A", "CHAINED"], ["regcoll", "B", "CHAINED"], ["regcoll", "C", "CHAINED"], ["setchain", "C", ["r2"]]]
SETUP_SMALL = [["regrun", "r0"], ["put", "r0", 0, 1], ["regcoll", "T", "TAGGED"], ["regcoll", "A", "CHAINED"],
               ["regcoll", "B", "CHAINED"]]


def gen_family(r, fam):
    """One program set (2-3 client programs of <= 3 API calls) of a family built to collide on names / data IDs."""
    v = lambda: r.randrange(10, 99)  # noqa: E731
    if fam == "register":
        n = r.choice(["N", "r0", "T"])
        kinds = [["regrun", n], ["regcoll", n, "TAGGED"], ["regcoll", n, "CHAINED"], ["regrun", n], ["rmcoll", n]]
        ps = []
        for _ in range(r.choice([2, 2, 3])):
            p = [r.choice(kinds)]
            if r.random() < 0.5:
                p.append(r.choice([["put", n, r.randrange(2), v()], ["regdt", "dx", r.randrange(2)], ["regrun", n]]))
            ps.append(p)
        return SETUP, ps
    if fam == "regdt":
        return SETUP_SMALL, [[["regdt", r.choice(["dx", "dt"]), r.randrange(2)]] + ([["regdt", "dy", 0]] if r.random() < 0.3 else [])
                             for _ in range(r.choice([2, 3]))]
    if fam == "dimgroup":
        # dataset types over dimension groups NEW to the repository: the first registration allocates the group's key
        # (get-or-create arbitrated by lock + re-read only); at most one such call per client (its key cache is then warm)
        grp = r.randrange(2)
        ps = []
        for _ in range(r.choice([2, 2, 3])):
            p = [["regdtg", r.choice(["da", "db"]), grp if r.random() < 0.8 else 1 - grp, r.choice([0, 0, 1])]]
            if r.random() < 0.4:
                p.insert(r.randrange(2), r.choice([["regrun", "N"], ["regdt", "dx", 0], ["put", "r0", 1, v()]]))
            ps.append(p)
        return SETUP_SMALL, ps
    if fam == "put":
        run = r.choice(["r0", "r2", "r2"])
        ps = []
        for _ in range(r.choice([2, 2, 3])):
            p = [["put", run, r.choice([0, 0, 1, 2]), v()]]
            if r.random() < 0.6:
                p.append(r.choice([["assoc", "T", ["own"]], ["put", run, r.choice([0, 2]), v()], ["prune", ["own"]]]))
            ps.append(p)
        return SETUP, ps
    if fam == "assoc":
        pool = [["assoc", "T", [["r1", 0]]], ["assoc", "T", [["r0", 0]]], ["assoc", "T", [["r0", 1]]],
                ["assoc", "T", [["r1", 0], ["r0", 1]]], ["prune", [["r1", 0]]], ["prune", [["r0", 0]]], ["rmcoll", "T"]]
        return SETUP, [[r.choice(pool) for _ in range(r.choice([1, 2]))] for _ in range(2)]
    if fam == "chain":
        names = ["A", "B", "C", "r0", "r1"]
        def ce():
            k = r.choice(["setchain", "setchain", "prepend", "extend", "unchain"])
            c = r.choice(["A", "B", "A", "B", "C"])
            ch = r.sample([x for x in names], r.choice([1, 1, 2]))
            return [k, c, ch]
        ps = [[ce() for _ in range(r.choice([1, 2, 3]))] for _ in range(r.choice([2, 2, 3]))]
        if len(ps) == 3:
            ps = [p[:2] for p in ps]
            ps[2] = ps[2][:1]
            ps[1] = ps[1][:1]
        return SETUP, ps
    if fam == "removal":
        pool = [["prune", [["r1", 0]]], ["prune", [["r0", 0], ["r0", 1]]], ["removerun", "r1"], ["removerun", "r0"],
                ["emptytrash"], ["put", "r1", 0, v()], ["put", "r1", 1, v()], ["put", "r0", 0, v()], ["assoc", "T", [["r1", 0]]],
                ["removerun", "r2"], ["put", "r2", 0, v()], ["unchain", "C", ["r2"]]]
        return SETUP, [[r.choice(pool) for _ in range(r.choice([1, 2, 2]))] for _ in range(2)]
    # mix
    pool = [["regrun", "N"], ["regrun", "r2"], ["regcoll", "N", "TAGGED"], ["put", "r2", 0, v()], ["put", "N", 0, v()],
            ["assoc", "T", [["r1", 0]]], ["assoc", "T", ["own"]], ["prune", [["r1", 0]]], ["prune", ["own"]], ["removerun", "r1"],
            ["setchain", "A", ["B"]], ["setchain", "B", ["A"]], ["prepend", "A", ["r0"]], ["extend", "A", ["r1"]],
            ["unchain", "C", ["r2"]], ["removerun", "r2"], ["rmcoll", "N"], ["regdt", "dx", 0], ["emptytrash"]]
    ps = [[r.choice(pool) for _ in range(r.choice([1, 2, 3]))] for _ in range(r.choice([2, 2, 2, 3]))]
    if len(ps) == 3:
        ps = [ps[0][:2], ps[1][:1], ps[2][:1]]
    ps = [[o for o in p if not (o[0] in ("assoc", "prune") and o[1:] and "own" in o[-1] and not any(q[0] == "put" for q in p[:p.index(o)]))] or [["emptytrash"]]
          for p in ps]
    return SETUP, ps


def merges(lens):
    """All merges (as lists of client indices) of sequences of the given lengths."""
    out = []
    def go(rem, acc):
        if not any(rem):
            out.append(list(acc))
            return
        for i, k in enumerate(rem):
            if k:
                rem[i] -= 1
                acc.append(i)
                go(rem, acc)
                acc.pop()
                rem[i] += 1
    go(list(lens), [])
    return out


def rel_picks(order, lens):
    """client indices -> 'k-th live client' indices for a run in which client i takes lens[i] picks in total."""
    rem = list(lens)
    out = []
    for i in order:
        live = [j for j, k in enumerate(rem) if k > 0]
        out.append(live.index(i))
        rem[i] -= 1
    return out


# ------------------------------------------------------------------------------------------------------------------
# Gallina literals
# ------------------------------------------------------------------------------------------------------------------

class Names:
    def __init__(self):
        self.ids = {"dt": 0}
        self.n = 1

    def __call__(self, s):
        if s not in self.ids:
            self.ids[s] = self.n
            self.n += 1
        return self.ids[s]


CT = {"RUN": "CRun", "TAGGED": "CTagged", "CHAINED": "CChained"}
ERR = {"Conflict": "EConflict", "MissingCollection": "EMissingColl", "CollectionTypeErr": "ECollType", "Cycle": "ECycle",
       "SqlIntegrity": "ESqlIntegrity", "TypeError": "ETypeError"}


def c_refs(nm, rs):
    return clist("ROwn" if x == "own" else f"RKey {cn(nm(x[0]))} {cn(x[1])}" for x in rs)


def c_op(nm, op):
    k = op[0]
    if k == "regrun":
        return f"RegRun {cn(nm(op[1]))}"
    if k == "regcoll":
        return f"RegColl {cn(nm(op[1]))} {CT[op[2]]}"
    if k == "rmcoll":
        return f"RmColl {cn(nm(op[1]))}"
    if k == "put":
        return f"Put {cn(nm(op[1]))} {cn(op[2])} {cn(op[3])}"
    if k == "assoc":
        return f"Assoc {cn(nm(op[1]))} {c_refs(nm, op[2])}"
    if k == "prune":
        return f"Prune {c_refs(nm, op[1])}"
    if k == "removerun":
        return f"RemoveRun {cn(nm(op[1]))}"
    if k == "emptytrash":
        return "EmptyTrash"
    if k in ("setchain", "prepend", "extend", "unchain"):
        c = {"setchain": "SetChain", "prepend": "Prepend", "extend": "Extend", "unchain": "Unchain"}[k]
        return f"{c} {cn(nm(op[1]))} {clist(cn(nm(x)) for x in op[2])}"
    if k == "regdt":
        return f"RegDT {cn(nm(op[1]))} {cn(op[2])}"
    if k == "regdtg":
        return f"RegDTG {cn(nm(op[1]))} {cn(op[3] + 2 * (op[2] + 1))}"
    raise ValueError(op)


def c_out(o):
    if o[0] == "ok":
        return "OkU" if o[1] is None else f"(OkB {cbool(o[1])})"
    if o[0] == "err" and o[1] in ERR:
        return f"(Err {ERR[o[1]]})"
    return None   # an outcome the model has no name for


FILE_RE = re.compile(r"^([^/]+)/dt/dt_Cam_det(\d+)_([^/]+)\.yaml$")


def c_final(nm, f):
    """Final observation as the `fobs` tuple; None when it contains something the model cannot express."""
    if f.get("load_failed"):
        return None
    colls = clist(f"({cn(nm(n))}, {CT[t]})" for n, t in f["colls"] if t in CT)
    if any(t not in CT for _, t in f["colls"]):
        return None
    chains = clist(f"({cn(nm(c))}, {clist(cn(nm(x)) for x in ch)})" for c, ch in sorted(f["chains"].items()))
    data = []
    for run, ent in sorted(f["data"].items()):
        if isinstance(ent, str):
            return None
        data.append(f"({cn(nm(run))}, {clist('(%s, %s)' % (cn(d), 'None' if isinstance(v, str) else 'Some ' + cn(v)) for d, v in ent)})")
    tags = [f"({cn(nm(t))}, {clist('(%s, %s)' % (cn(nm(r_)), cn(d)) for r_, d in ent)})" for t, ent in sorted(f["tags"].items())]
    dts = clist(f"({cn(nm(n))}, {cn(0 if sc == 'StructuredDataDict' else 1)})" for n, sc in f["dtypes"])
    files = []
    for p in f["files"]:
        m = FILE_RE.match(p)
        if not m or m.group(1) != m.group(3):
            return None
        files.append(f"({cn(nm(m.group(1)))}, {cn(int(m.group(2)))})")
    return (f"({colls}, {chains}, {clist(data)}, {clist(tags)}, {dts}, {clist(files)}, "
            f"({cn(f['trash'])}, {cn(f['nrec'])}, {cn(f['nloc'])}))")


def c_case(setup, progs, sched, res):
    nm = Names()
    s = clist(c_op(nm, o) for o in setup)
    ps = clist(clist(c_op(nm, o) for o in p) for p in progs)
    outs = []
    for oc in res["outcomes"]:
        row = [c_out(o) for o in oc]
        if any(x is None for x in row):
            return None
        outs.append(clist(row))
    fin = c_final(nm, res["final"])
    if fin is None:
        return None
    return f"({s}, {ps}, {clist(cnat(k) for k in sched)}, {clist(outs)}, {fin})"


def c_kcase(setup, progs, sched, steps):
    nm = Names()
    s = clist(c_op(nm, o) for o in setup)
    ps = clist(clist(c_op(nm, o) for o in p) for p in progs)
    kind = lambda k: 0 if k == "txn" else (1 if k == "read" else 2)  # noqa: E731
    return f"({s}, {ps}, {clist(cnat(k) for k in sched)}, {clist('(%s, %s)' % (cnat(c), cn(kind(k))) for c, _, k in steps)})"


# ------------------------------------------------------------------------------------------------------------------
# oracle
# ------------------------------------------------------------------------------------------------------------------

def canon(res):
    return json.dumps({"o": res["outcomes"], "f": res["final"]}, sort_keys=True)


def kinds_of(progs):
    return "+".join(sorted({o[0] for p in progs for o in p}))


def interrupted(steps):
    """True when some API call's steps are not contiguous in the executed sequence (a real interleaving)."""
    pos = {}
    for i, (c, oi, _) in enumerate(steps):
        pos.setdefault((c, oi), []).append(i)
    return any(max(v) - min(v) + 1 != len(v) for v in pos.values())


def _names(op):
    out = {op[1]} if len(op) > 1 and isinstance(op[1], str) else set()
    if len(op) > 2 and isinstance(op[2], list):
        out |= {x for x in op[2] if isinstance(x, str)}
    return out


def _definition(op):
    """What a registration call asks for (None for other calls): same name + different definition = a type race."""
    if op[0] == "regrun":
        return ("coll", op[1], "RUN")
    if op[0] == "regcoll":
        return ("coll", op[1], op[2])
    return None


def err_labels(progs, res):
    """`call=Error` for every call that failed, tagged with the MECHANISM when the executed step sequence shows one (the
    tags are exactly the mechanisms of the model's completeness theorems, Props/C20.v section 5):
    `@register-race`   a registerRun / registerCollection refused with a conflict, and ANOTHER client's registration of the same
                       name with a DIFFERENT collection type committed its insert between this call's pre-read and its sync;
    `@removed-halfway` a registerRun failed and another client's removeCollection / removeRuns of that name ran between its
                       collection-row block and its run-row block;
    `@regrun-halfway`  a put was refused with a conflict while another client's registerRun of its run was between those blocks;
    `@put-after-query` a removeRuns failed with an integrity error and another client's put into that run committed between
                       its query block and its removal block."""
    steps = res.get("steps") or []
    out = set()
    pos = {}
    for t, st in enumerate(steps):
        pos.setdefault((st[0], st[1]), []).append(t)
    for ci, (p, oc) in enumerate(zip(progs, res["outcomes"])):
        for oi, (op, o) in enumerate(zip(p, oc)):
            if o[0] != "err":
                continue
            lab = f"{op[0]}={o[1]}"
            mine = pos.get((ci, oi), [])
            tag = None
            for cj, q in enumerate(progs):
                for oj, op2 in enumerate(q):
                    if cj == ci or len(op2) < 2 or len(op) < 2 or op2[1] != op[1] or not mine:
                        continue
                    theirs = pos.get((cj, oj), [])
                    d1, d2 = _definition(op), _definition(op2)
                    if o[1] == "Conflict" and d1 and d2 and d1[:2] == d2[:2] and d1[2] != d2[2] and len(mine) >= 2 \
                            and len(theirs) >= 2 and mine[0] < theirs[1] < mine[-1]:
                        tag = "register-race"       # their sync (2nd step) lies between my pre-read and my failing sync
                    if op[0] == "regrun" and o[1] == "SqlIntegrity" and op2[0] in ("rmcoll", "removerun") and len(mine) >= 3 \
                            and any(mine[1] < x < mine[-1] for x in theirs):
                        tag = "removed-halfway"
                    if op[0] == "put" and o[1] == "Conflict" and op2[0] == "regrun" \
                            and any(sum(1 for x in theirs if x < t) >= 2 and any(x > t for x in theirs) for t in mine):
                        tag = "regrun-halfway"
                    if op[0] == "removerun" and o[1] == "SqlIntegrity" and op2[0] == "put" and len(mine) >= 3 \
                            and any(mine[1] < x < mine[2] for x in theirs):
                        tag = "put-after-query"
            out.add(lab + ("@" + tag if tag else ""))
    return sorted(out)


class ProgSet:
    def __init__(self, setup, progs, fam):
        self.setup, self.progs, self.fam = setup, progs, fam
        self.serial = {}      # canon -> order
        self.serial_res = []  # (order, res)
        self.sched_res = []   # (schedule, res)


def jobs_to_batches(jobs, per):
    return [{"jobs": jobs[i:i + per]} for i in range(0, len(jobs), per)]


def run_jobs(ctx, jobs, per=12, timeout=300):
    """Run jobs in worker subprocesses (watchdog); a hang aborts its batch, the rest of that batch is re-submitted."""
    results = [None] * len(jobs)
    pending = list(range(len(jobs)))
    rounds = 0
    while pending and rounds < 6:
        rounds += 1
        groups = [pending[i:i + per] for i in range(0, len(pending), per)]
        outs = parallel_workers("c20_impl", "batch", [{"jobs": [jobs[j] for j in g]} for g in groups], timeout=timeout)
        nxt = []
        for g, (st, r) in zip(groups, outs):
            if st == "hang":
                results[g[0]] = {"hang": True, "outcomes": [], "final": None, "steps": [], "watchdog": True}
                nxt.extend(g[1:])
                continue
            if st != "ok":
                for j in g:
                    results[j] = {"crash": str(r)[-1500:]}
                continue
            rs = r["results"]
            for j, x in zip(g, rs):
                results[j] = x
            nxt.extend(g[len(rs):])
        pending = nxt
    for j in pending:
        results[j] = {"crash": "not run (too many hanging batches)"}
    return results


def judge(ctx, ps: ProgSet, sched, res, extra_serial):
    """Property oracle for one interleaved run.  Returns a signature or None."""
    kinds = kinds_of(ps.progs)
    rep = {"setup": ps.setup, "programs": ps.progs, "schedule": sched, "observed": res}
    if res.get("hang"):
        return f"hang:{kinds}", rep, "a client call never returned under this schedule"
    f = res["final"]
    if f.get("load_failed"):
        return f"fresh-butler-cannot-load:{kinds}", rep, \
            "after this interleaving a fresh Butler cannot load the repository (" + f["load_failed"][:120] + "); every serial order can"
    if f.get("cycle"):
        return "chain-cycle", rep, "the final chain definitions contain a cycle"
    unread = [(run, e) for run, ent in f["data"].items() if not isinstance(ent, str) for e in ent if isinstance(e[1], str)]
    if unread or any(isinstance(ent, str) for ent in f["data"].values()):
        return f"unreadable-dataset:{kinds}", dict(rep, unreadable=unread), \
            "a dataset visible at the end cannot be read back although no serial order loses it"
    if canon(res) in ps.serial:
        return None
    # an API call that FAILED and left nothing behind may be discounted (an aborted call is not part of the history):
    # the remaining calls must then match a serial order of the programs without it
    key = json.dumps([[o[0] == "err" for o in oc] for oc in res["outcomes"]])
    alt = extra_serial.get((id(ps), key))
    if alt is not None:
        red = {"o": [[o for o in oc if o[0] != "err"] for oc in res["outcomes"]], "f": f}
        if json.dumps(red, sort_keys=True) in alt:
            # still not what the property says (no serial order refuses that call), but nothing was left behind: its own,
            # milder class of signature, so that the benign refusals that exist on the unchanged tree can be listed one by
            # one as known findings while any NEW kind of refusal (e.g. an integrity error out of a registration) is reported
            errs = err_labels(ps.progs, res)
            ctx.hist("refused_under_race", "+".join(errs))
            return f"refused-under-race:{','.join(errs)}", dict(rep, serial_results=len(ps.serial)), \
                "a call was refused with an error that no serial order of the same API calls produces (the refused call left nothing behind)"
    errs = err_labels(ps.progs, res)
    return f"not-serializable:{kinds}:{','.join(errs)}", dict(rep, serial_results=len(ps.serial)), \
        "outcomes + final state equal those of NO serial order of the same API calls"


# ------------------------------------------------------------------------------------------------------------------

def load_corpus():
    out = []
    for p in sorted(glob.glob(str(VERIF / "corpus" / "C20" / "*.json"))):
        d = json.load(open(p))
        d["file"] = os.path.basename(p)
        out.append(d)
    return out


def run(ctx: Ctx):
    ctx.assumptions += [
        "SQLite: BEGIN IMMEDIATE is a global write lock, commit is atomic, rollback discards the block (modelled: a block is one atomic step)",
        "the cooperative scheduler (patches applied from outside the package to Database._transaction, Database.query and FileResourcePath.write/remove/transfer_from) lets exactly one client run between two seams; real lock timing, busy timeouts and WAL are not exercised except by the unscheduled 'free' runs",
        "each client has its own Butler (own caches); in-process shared caches and PostgreSQL row locks are not modelled",
        "dataset-type and dimension-record caches of a client are loaded from the state after the set-up program",
    ]
    ctx.cov["rule"] = (
        "a case = (set-up, 2-3 client programs of <= 3 API calls on overlapping names / data IDs, schedule); it is non-trivial when "
        "the executed step sequence interrupts at least one API call by a step of another client, or when some call ends in an "
        "error / False outcome (arbitration between clients); distinctness by hash of (programs, executed step sequence)")
    props_ok = ctx.build_props(extra_targets=["Model/ConcCheck.vo"])
    if not props_ok:
        coq_make(["Model/ConcCheck.vo"])

    explore(ctx, deep=not ctx.quick)
    if ctx.broken and not ctx.oracle_failures and ctx.quick:
        ctx.log("something no longer checks and the oracle held: searching deeper for a failing input")
        n0 = ctx.cov["evaluations"]
        explore(ctx, deep=True, search=True)
        ctx.cov["search"] = (f"thorough-size search ran {ctx.cov['evaluations'] - n0} further interleaved / serial runs on the "
                             "implementation; the property oracle held on all of them" if not ctx.oracle_failures else "found a failing input")


def explore(ctx: Ctx, deep: bool, search: bool = False):
    r = ctx.rng
    sets: list[ProgSet] = []
    corpus = [] if search else load_corpus()
    for c in corpus:
        ps = ProgSet(c["setup"], c["programs"], "corpus:" + c["file"])
        ps.fixed_scheds = c.get("schedules", [])
        ps.free_runs = int(c.get("free", 0))
        sets.append(ps)
    fams = ["register", "regdt", "put", "assoc", "chain", "removal", "mix", "dimgroup"]
    nsets = (10 if search else (49 if deep else 21))
    for i in range(nsets):
        fam = fams[i % len(fams)]
        setup, progs = gen_family(r, fam)
        if not deep and len(progs) == 3:
            progs = [progs[0][:2], progs[1][:1], progs[2][:1]]      # quick tier: at most 12 serial orders per set
        ps = ProgSet(setup, progs, fam)
        ps.fixed_scheds = []
        sets.append(ps)
    ctx.hist("program_sets", "total", len(sets))
    # ---- round 1: serial orders + the default schedule
    jobs, meta = [], []
    for si, ps in enumerate(sets):
        lens = [len(p) for p in ps.progs]
        for order in merges(lens):
            jobs.append({"kind": "serial", "setup": ps.setup, "programs": ps.progs, "order": order})
            meta.append((si, "serial", order))
        for sc in [[]] + ps.fixed_scheds:
            jobs.append({"kind": "sched", "setup": ps.setup, "programs": ps.progs, "schedule": sc})
            meta.append((si, "sched", sc))
    ctx.log(f"{len(sets)} program sets; round 1: {len(jobs)} runs on the implementation")
    res = run_jobs(ctx, jobs)
    first = {}
    for (si, kind, arg), x in zip(meta, res):
        ps = sets[si]
        if x is None or "crash" in x:
            ctx.tie_broken("harness", "worker", f"{ps.fam} {kind} {arg}: {(x or {}).get('crash')}")
            continue
        if kind == "serial":
            if x.get("final") is None:
                ctx.tie_broken("harness", "serial-run", f"serial reference run did not finish: {ps.progs} {arg}")
                continue
            ps.serial.setdefault(canon(x), arg)
            ps.serial_res.append((arg, x))
        else:
            ps.sched_res.append((arg, x))
            if arg == []:
                first[si] = x
    # ---- round 2: more schedules, derived from the executed step sequence of the default schedule
    jobs, meta = [], []
    cap = 10 if search else (40 if deep else 7)
    for si, ps in enumerate(sets):
        x = first.get(si)
        if not x or x.get("hang"):
            continue
        for _ in range(getattr(ps, "free_runs", 0)):
            jobs.append({"kind": "free", "setup": ps.setup, "programs": ps.progs})
            meta.append((si, "free"))
        if not deep and ps.fam.startswith("corpus:"):
            continue        # quick tier: a corpus set runs its recorded schedules (round 1) only
        counts = [sum(1 for s in x["steps"] if s[0] == i) for i in range(len(ps.progs))]
        total = sum(counts)
        cands = []
        if total <= 12:
            ms = merges(counts)
            if len(ms) <= cap:
                cands = [rel_picks(m, counts) for m in ms]
            else:
                cands = [rel_picks(m, counts) for m in r.sample(ms, cap)]
        while len(cands) < cap:
            cands.append([r.randrange(0, 6) for _ in range(total + 3)])
        seen = set()
        for sc in cands:
            t = tuple(sc)
            if t in seen or not sc:
                continue
            seen.add(t)
            jobs.append({"kind": "sched", "setup": ps.setup, "programs": ps.progs, "schedule": sc})
            meta.append((si, sc))
        if deep or r.random() < 0.15:
            jobs.append({"kind": "free", "setup": ps.setup, "programs": ps.progs})
            meta.append((si, "free"))
    ctx.log(f"round 2: {len(jobs)} interleaved runs")
    res = run_jobs(ctx, jobs)
    for (si, sc), x in zip(meta, res):
        ps = sets[si]
        if x is None or "crash" in x:
            ctx.tie_broken("harness", "worker", f"{ps.fam} sched {sc}: {(x or {}).get('crash')}")
            continue
        ps.sched_res.append((sc, x))
    # ---- round 3: serial references without the calls that failed (only for runs that match no serial order)
    extra_serial, jobs, meta = {}, [], []
    for ps in sets:
        for sc, x in ps.sched_res:
            if x.get("hang") or x.get("final") is None or canon(x) in ps.serial:
                continue
            key = json.dumps([[o[0] == "err" for o in oc] for oc in x["outcomes"]])
            if (id(ps), key) in extra_serial or not any(o[0] == "err" for oc in x["outcomes"] for o in oc):
                continue
            if any(len(oc) != len(p) for oc, p in zip(x["outcomes"], ps.progs)):
                continue
            extra_serial[(id(ps), key)] = set()
            red = [[op for op, o in zip(p, oc) if o[0] != "err"] for p, oc in zip(ps.progs, x["outcomes"])]
            for order in merges([len(p) for p in red]):
                jobs.append({"kind": "serial", "setup": ps.setup, "programs": red, "order": order})
                meta.append((id(ps), key))
    if jobs:
        ctx.log(f"round 3: {len(jobs)} serial runs without the refused calls")
        for (pid_, key), x in zip(meta, run_jobs(ctx, jobs)):
            if x and x.get("final") is not None:
                extra_serial[(pid_, key)].add(json.dumps({"o": x["outcomes"], "f": x["final"]}, sort_keys=True))
    # ---- oracle + correspondence
    ccases, cmeta, scases, smeta, kcases, kmeta = [], [], [], [], [], []
    for ps in sets:
        lens = [len(p) for p in ps.progs]
        for order, x in ps.serial_res:
            ctx.count()
            ctx.hist("runs", "serial")
            lit = c_case(ps.setup, ps.progs, rel_picks(order, lens), x)
            if lit is not None:
                scases.append(lit)
                smeta.append({"setup": ps.setup, "programs": ps.progs, "order": order, "observed": x})
            # a serial run must itself be sane: everything visible is readable
            if any(isinstance(e[1], str) for ent in x["final"]["data"].values() if not isinstance(ent, str) for e in ent):
                ctx.oracle_fail(f"serial-unreadable:{kinds_of(ps.progs)}", {"setup": ps.setup, "programs": ps.progs, "order": order, "observed": x},
                                "a SERIAL order leaves a visible dataset unreadable")
        for sc, x in ps.sched_res:
            ctx.count()
            free = sc == "free"
            ctx.hist("runs", "free" if free else "scheduled")
            ctx.hist("family", ps.fam.split(":")[0])
            sig = judge(ctx, ps, sc, x, extra_serial)
            if sig is not None:
                s, rep, what = sig
                ctx.hist("oracle_failures", s)
                ctx.oracle_fail(s, rep, what)
            if x.get("hang") or x.get("final") is None:
                continue
            for oc in x["outcomes"]:
                for o in oc:
                    ctx.hist("outcomes", o[0] if o[0] != "err" else o[1])
            if free:
                continue
            if interrupted(x["steps"]) or any(o[0] == "err" or o[1] is False for oc in x["outcomes"] for o in oc):
                ctx.nontrivial({"p": ps.progs, "s": x["steps"]})
            ctx.hist("steps_per_run", min(len(x["steps"]) // 5 * 5, 40))
            lit = c_case(ps.setup, ps.progs, sc, x)
            if lit is None:
                ctx.hist("not_modelled", "outcome or state outside the model")
                continue
            ccases.append(lit)
            cmeta.append({"setup": ps.setup, "programs": ps.progs, "schedule": sc, "observed": x})
            kcases.append(c_kcase(ps.setup, ps.progs, sc, x["steps"]))
            kmeta.append(cmeta[-1])
    if ccases:
        ctx.sample({"case": cmeta[0], "coq_case": ccases[0][:600]})
    ctx.log(f"correspondence: {len(ccases)} interleaved + {len(scases)} serial runs against the model")
    tag = "s" if search else ""
    for name, cases, chk, meta_ in (("sched" + tag, ccases, "chk_case", cmeta), ("serial" + tag, scases, "chk_serial", smeta)):
        if not cases:
            continue
        bad = ctx.coq_cases(name, HDR, cases, chk, shard=150)
        for i in (bad or [])[:4]:
            ctx.disagreement(name, meta_[i], "model and implementation differ on outcomes or final state for this schedule")
    if kcases:
        bad = ctx.coq_cases("kinds" + tag, HDR, kcases, "chk_kinds", shard=300)
        if bad is not None:
            ctx.cov["ties"]["K:kinds" + tag] = "ok (structural)"
            for i in bad[:5]:
                ctx.cov["structural_drift"].append({"what": "step structure (transaction / read / file seams) differs from the model",
                                                    "programs": kmeta[i]["programs"], "schedule": kmeta[i]["schedule"],
                                                    "steps": kmeta[i]["observed"]["steps"]})
            ctx.hist("structural_drift", "step-structure", len(bad))
