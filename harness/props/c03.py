"""C03 -- Ordered collection search returns the first match of the flattened search path.

Obligations: coq/Props/C03.v over the hand model coq/Model/Chain.v (chain rows with integer positions,
depth-first flattening, the chain edits with their refusals incl. setCollectionChain(flatten=True), dataset types with
their own governor dimensions, collection summaries per governor dimension, CALIBRATION collections, summary pruning
under a governor constraint, four find-first formulations).
Tie T: harness/translators/chain_pos.py regenerates the prepend / extend position arithmetic (Gen/ChainPosGen.v).
Tie K: random histories (collections, contents, chain edits incl. hostile ones) on the REAL Butler, after every
       step getCollectionChain / collections.query(flatten_chains=True) / raw collection_chain rows / five
       find-first entry points; the Coq model replays the same history (vm_compute) and must answer the same.
Oracle: the property text -- documented child order of every edit, refusals leave everything unchanged,
       chains never cyclic (a hang counts), flattening = depth-first first-occurrence, every find-first entry
       point = dataset of the first collection of the flattened path that has one -- computed by an
       independent Python flatten / first-match on the implementation's own observations.
"""
from __future__ import annotations

import json
import os
import random
import re
from pathlib import Path

from harness.common import VERIF, Ctx, cbool, clist, cn, cz, parallel_workers

RUNS = [0, 1, 2]
TAGGED = [3]
CHAINS = [4, 5, 6, 7, 8]
UNKNOWN = 9
CALIB = [10]
DIDS = [0, 1, 2, 16, 17]
# dataset types: governor dimensions (0 = instrument, 1 = skymap) and isCalibration; data ID domains (see c03_impl)
TYPES = {0: ([0], False), 1: ([0], False), 2: ([1], False), 3: ([0], True), 4: ([0, 1], False)}
DOM = {0: DIDS, 1: DIDS, 2: [64, 128], 3: DIDS, 4: [64, 80, 128, 144]}
UNKNOWN_TY = 9


def gval(g, d):
    return (d // 16) % 4 if g == 0 else d // 64


def probe_cons(p, d):
    """the governor constraint of a query-based find probe for data ID d: from the data ID (gc) and the WHERE clause"""
    out = {}
    if p.get("gc"):
        for g in TYPES.get(p["ty"], ([0], False))[0]:
            out[g] = gval(g, d)
    if p.get("fg") is not None:
        out[1] = p["fg"] + 1
    if p.get("ig") is not None:
        out[0] = p["ig"]
    return out
API_NAMES = {0: "Butler.find_dataset", 1: "Registry.findDataset", 2: "Butler.query_datasets(find_first)",
             3: "Registry.queryDatasets(findFirst)", 4: "Butler.get"}
ERR = {"MissingCollection": "EMissing", "Cycle": "ECycle", "CollectionTypeErr": "ECollType", "Conflict": "EConflict",
       "SqlError": "EFk", "NotImplementedError": "ENotImpl", "DatasetTypeErr": "ETypeErr", "MissingDatasetType": "EMissingType"}
KIND = {"redefine": "KRedefine", "prepend": "KPrepend", "extend": "KExtend", "remove": "KRemove"}
CTYPE = {"run": "CRun", "tagged": "CTagged", "chained": "CChained", "calib": "CCalib"}


# ---------------------------------------------------------------------------------------------
# the documented semantics (used by the generator to aim its probes and by the oracle)
# ---------------------------------------------------------------------------------------------

def dedupe(xs):
    out = []
    for x in xs:
        if x not in out:
            out.append(x)
    return out


def spec_edit(old, kind, cs):
    new = dedupe(cs)
    rest = [x for x in old if x not in cs]
    return {"redefine": new, "prepend": new + rest, "extend": rest + new, "remove": rest}[kind]


def reaches(chains, start, target):
    """is `target` equal to or reachable from `start` through chain definitions (iterative)"""
    seen, todo = set(), [start]
    while todo:
        x = todo.pop()
        if x == target:
            return True
        if x in seen:
            continue
        seen.add(x)
        todo.extend(chains.get(x, ()))
    return False


def dist(chains, start, target):
    """number of chain links on the shortest way from start to target (0 = same)"""
    frontier, seen, n = {start}, {start}, 0
    while frontier:
        if target in frontier:
            return n
        frontier = {c for x in frontier for c in chains.get(x, ())} - seen
        seen |= frontier
        n += 1
    return 99


def graph_cyclic(chains):
    return any(reaches(chains, c, p) for p, cs in chains.items() for c in cs)


def spec_flatten(colls, chains, names, include_chains=False):
    """depth first, first occurrence; None when a name does not exist.  Only called on acyclic graphs."""
    if any(n not in colls for n in names):
        return None
    out = []

    def walk(n, depth=0):
        assert depth < 50
        if n in chains:
            if include_chains and n not in out:
                out.append(n)
            for c in chains[n]:
                walk(c, depth + 1)
        elif n not in out:
            out.append(n)

    for n in names:
        walk(n)
    return out


def spec_first(contents, path, ty, d):
    for c in path:
        k = contents.get((c, ty, d))
        if k is not None:
            return [k]
    return []


def depth_of(chains, n, lim=20):
    if n not in chains or lim == 0:
        return 0
    return 1 + max([depth_of(chains, c, lim - 1) for c in chains[n]] or [0])


# ---------------------------------------------------------------------------------------------
# generator
# ---------------------------------------------------------------------------------------------

class Gen:
    """Generates one history with probes; tracks the state the documented semantics predict so that most ops
    are valid and the hostile ones are aimed (self reference, cycle through several levels, unknown child,
    parent of the wrong type, repeated children)."""

    def __init__(self, rng: random.Random, nsteps: int):
        self.r = rng
        self.colls = {}
        self.chains = {}
        self.contents = {}
        self.homes = {}     # k -> (ty, d)
        self.nextk = 0
        self.ops = []
        self.probes = []
        r = rng
        setup = [("reg", c, "run") for c in RUNS] + [("reg", 3, "tagged")] + [("reg", c, "calib") for c in CALIB] + \
                [("reg", c, "chained") for c in CHAINS[:r.randint(3, 5)]]
        r.shuffle(setup)
        late = [setup.pop() for _ in range(r.randint(0, 2))]
        for op in setup:
            self.emit(list(op), light=True)
        for _ in range(r.randint(6, 11)):
            self.emit(self.gen_set(), light=True)
        for _ in range(r.randint(0, 2)):
            self.emit(self.gen_cert(), light=True)
        for i in range(nsteps):
            x = r.random()
            if late and x < 0.12:
                self.emit(list(late.pop()))
            elif x < 0.22:
                self.emit(self.gen_set())
                if r.random() < 0.5:
                    # a {skymap}-only dataset next to it: puts a value of another governor into a RUN's summary
                    self.emit(self.gen_set(ty=2), light=True)
            elif x < 0.27:
                self.emit(self.gen_rm())
            elif x < 0.29:
                self.emit(["reg", r.choice(list(self.colls) or [0]), r.choice(["run", "chained", "calib"])])
            elif x < 0.34:
                self.emit(self.gen_cert())
            elif x < 0.355:
                ty = r.choice(list(TYPES))
                gs = TYPES[ty][0] if r.random() < 0.5 else r.choice([[0], [1], [0, 1]])
                self.emit(["type", ty, gs, TYPES[ty][1]], light=True)
            elif x < 0.42:
                self.emit(self.gen_editflat())
            else:
                self.emit(self.gen_edit())

    # -- op generators
    def gen_set(self, ty=None):
        r = self.r
        if ty is None:
            ty = r.choice([0, 0, 1, 1, 2, 3, 3, 4, 4])
            if self.homes and r.random() < 0.3 and 3 in self.colls:
                k = r.choice(list(self.homes))
                # associate into the TAGGED collection; rarely into a CALIBRATION collection (refused)
                return ["set", 3 if r.random() < 0.95 else CALIB[0], self.homes[k][0], self.homes[k][1], k]
            if r.random() < 0.01:
                ty = UNKNOWN_TY
        d = r.choice(DOM.get(ty, DIDS))
        runs = [c for c in RUNS if c in self.colls] or [0]
        coll = r.choice(runs)
        k = self.nextk
        self.nextk += 1
        return ["set", coll, ty, d, k]

    def gen_cert(self):
        """certify an existing dataset into a CALIBRATION collection (validity range unbounded)"""
        r = self.r
        cal = [k for k, (ty, _) in self.homes.items() if ty == 3]
        x = r.random()
        if not cal:
            return self.gen_set(ty=3)
        k = r.choice(cal)
        ty, d = self.homes[k]
        if x < 0.80:
            return ["cert", CALIB[0], ty, d, k]
        if x < 0.88:
            return ["cert", r.choice([c for c in self.colls if c not in CALIB] or [UNKNOWN]), ty, d, k]   # wrong collection type
        if x < 0.92:
            return ["cert", UNKNOWN, ty, d, k]
        plain = [k2 for k2, (t2, _) in self.homes.items() if t2 != 3]
        if plain and CALIB[0] in self.colls:
            k = r.choice(plain)
            return ["cert", CALIB[0], self.homes[k][0], self.homes[k][1], k]     # not a calibration dataset type
        return ["cert", CALIB[0], ty, d, k]

    def gen_editflat(self):
        r = self.r
        x = r.random()
        if x < 0.9 and self.chains:
            p = r.choice(list(self.chains))
        elif x < 0.95:
            p = r.choice([c for c in self.colls if c not in self.chains] or [0])
        else:
            p = UNKNOWN
        names = list(self.colls)
        w = [3 if c in self.chains else 1 for c in names]
        cs = r.choices(names, weights=w, k=r.choice([0, 1, 2, 2, 3])) if names else []
        if r.random() < 0.15:
            cs.append(p)                       # the parent itself: accepted, it becomes its own leaves
        if r.random() < 0.06:
            cs.insert(r.randrange(len(cs) + 1), UNKNOWN)
        return ["editflat", p, cs]

    def gen_rm(self):
        r = self.r
        x = r.random()
        chained = [c for c in self.chains]
        if x < 0.5 and chained:
            return ["rmcoll", r.choice(chained)]
        if x < 0.6:
            return ["rmcoll", UNKNOWN]
        kids = [c for cs in self.chains.values() for c in cs]
        if kids:
            return ["rmcoll", r.choice(kids)]
        return ["rmcoll", r.choice(chained or [UNKNOWN])]

    def pick_children(self, p):
        r = self.r
        n = r.choice([0, 1, 1, 2, 2, 3, 3, 4])
        pool_plain = [c for c in self.colls if c not in self.chains]
        pool_chain = [c for c in self.chains if c != p]
        out = []
        for _ in range(n):
            x = r.random()
            if x < 0.45 and pool_plain:
                out.append(r.choice(pool_plain))
            elif x < 0.80 and pool_chain:
                # prefer chains that do not lead back to p (valid nesting), sometimes ancestors (cycle)
                safe = [c for c in pool_chain if not reaches(self.chains, c, p)]
                anc = [c for c in pool_chain if reaches(self.chains, c, p)]
                if anc and r.random() < 0.35:
                    # cycle attempt; prefer ancestors that are several levels above p
                    far = [c for c in anc if p not in self.chains.get(c, ())]
                    out.append(r.choice(far if far and r.random() < 0.7 else anc))
                elif safe:
                    out.append(r.choice(safe))
                else:
                    out.append(r.choice(pool_chain))
            elif x < 0.86 and out:
                out.append(r.choice(out))          # repeated child
            elif x < 0.90:
                out.append(p)                      # self reference
            elif x < 0.94:
                out.append(UNKNOWN)
            elif self.chains.get(p):
                out.append(r.choice(self.chains[p]))   # a child that is already there (it moves)
            elif pool_plain:
                out.append(r.choice(pool_plain))
        return out

    def gen_edit(self):
        r = self.r
        if r.random() < 0.09:
            # aimed cycle attempt through several levels: the new child is an ancestor 2..4 links above the parent
            cands = [(p, a) for p in self.chains for a in self.chains if a != p and 2 <= dist(self.chains, a, p) <= 4]
            if cands:
                p, a = r.choice(cands)
                plain = [c for c in self.colls if c not in self.chains]
                cs = [a] + ([r.choice(plain)] if plain and r.random() < 0.5 else [])
                r.shuffle(cs)
                return ["edit", r.choice(["redefine", "prepend", "extend"]), p, cs, "butler"]
        x = r.random()
        if x < 0.88 and self.chains:
            p = r.choice(list(self.chains))
        elif x < 0.93:
            p = r.choice([c for c in self.colls if c not in self.chains] or [0])
        elif x < 0.97:
            p = UNKNOWN
        else:
            p = r.choice(CHAINS)    # maybe not registered yet
        kind = r.choice(["redefine", "prepend", "prepend", "extend", "extend", "remove"])
        cs = self.pick_children(p)
        if kind == "remove" and self.chains.get(p) and r.random() < 0.7:
            cs = r.sample(self.chains[p], r.randint(1, len(self.chains[p]))) + cs[:1]
        via = "registry" if kind == "redefine" and r.random() < 0.4 else "butler"
        return ["edit", kind, p, cs, via]

    # -- predicted effect (documented semantics) so that later ops/probes are aimed well
    def predict(self, op):
        k = op[0]
        if k == "reg":
            if op[1] not in self.colls:
                self.colls[op[1]] = op[2]
                if op[2] == "chained":
                    self.chains[op[1]] = []
        elif k == "rmcoll":
            n = op[1]
            if n in self.colls and not any(n in cs for cs in self.chains.values()):
                if n in self.chains or not any(c == n for (c, _, _) in self.contents):
                    self.colls.pop(n)
                    self.chains.pop(n, None)
        elif k == "set":
            _, c, ty, d, kk = op
            if ty in TYPES and self.colls.get(c) in ("run", "tagged") and (c, ty, d) not in self.contents:
                self.contents[(c, ty, d)] = kk
                self.homes.setdefault(kk, (ty, d))
        elif k == "cert":
            _, c, ty, d, kk = op
            if self.colls.get(c) == "calib" and TYPES.get(ty, ([], False))[1] and (c, ty, d) not in self.contents:
                self.contents[(c, ty, d)] = kk
        elif k == "editflat":
            _, p, cs = op
            if p in self.chains and all(c in self.colls for c in cs):
                self.chains[p] = spec_flatten(self.colls, self.chains, cs)
        elif k == "edit":
            _, kind, p, cs, _ = op
            if p in self.chains and all(c in self.colls for c in cs) and (
                    kind == "remove" or not any(reaches(self.chains, c, p) for c in cs)):
                self.chains[p] = spec_edit(self.chains[p], kind, cs)

    def rand_path(self):
        r = self.r
        names = list(self.colls)
        if not names:
            return [0]
        w = [3 if c in self.chains else 1 for c in names]
        n = r.choice([1, 1, 2, 2, 3, 4])
        path = r.choices(names, weights=w, k=n)
        if r.random() < 0.15:
            path.insert(r.randrange(len(path) + 1), r.choice(path))   # repeat
        if r.random() < 0.04:
            path.insert(r.randrange(len(path) + 1), UNKNOWN)
        return path

    def emit(self, op, light=False):
        r = self.r
        if op[0] == "rmcoll" and op[1] in self.colls and op[1] not in self.chains and \
                any(c == op[1] for (c, _, _) in self.contents) and not any(op[1] in cs for cs in self.chains.values()):
            op = ["rmcoll", UNKNOWN]     # removing a populated RUN/TAGGED collection is C02's business
        self.predict(op)
        self.ops.append(op)
        pr = []
        ids = list(self.colls) + [UNKNOWN]
        if not light or r.random() < 0.3:
            for _ in range(2):
                pr.append({"t": "chain", "p": r.choice(ids)})
            pr.append({"t": "flat", "ns": self.rand_path()})
            pr.append({"t": "flat", "ns": self.rand_path(), "incl": True})
            keys = list(self.contents) or [(0, 0, 0)]
            for _ in range(1 if light else 2):
                path = self.rand_path()
                ty = r.choice(keys)[1]
                govs = TYPES[ty][0]
                if r.random() < 0.6:
                    ds = dedupe([r.choice([k for k in keys if k[1] == ty] or [(0, ty, DOM[ty][0])])[2], r.choice(DOM[ty])])
                    pr.append({"t": "find", "ns": path, "ty": ty, "ds": ds, "apis": [0, 1, 2, 3, 4], "gc": True})
                    # the data ID already fixes the governors of the type: only a governor the type lacks may be added
                    if 1 not in govs and r.random() < 0.4:
                        pr[-1]["fg"] = r.randint(0, 1)     # ... AND skymap = 'S<fg>'
                    if 0 not in govs and r.random() < 0.4:
                        pr[-1]["ig"] = r.randint(0, 1)     # ... AND instrument = 'Cam<ig>'
                else:
                    pr.append({"t": "find", "ns": path, "ty": ty, "ds": DOM[ty], "apis": [2, 3], "gc": False})
                    if r.random() < 0.4:
                        pr[-1]["fg"] = r.randint(0, 1)
                    if r.random() < 0.3:
                        pr[-1]["ig"] = r.randint(0, 1)
                # the same search with one chain replaced by its children: must give the same answers
                chs = [i for i, c in enumerate(path) if c in self.chains]
                if chs and r.random() < 0.5:
                    i = r.choice(chs)
                    p2 = path[:i] + list(self.chains[path[i]]) + path[i + 1:]
                    if p2:
                        pr.append(dict(pr[-1], ns=p2, expanded_from=path))
        self.probes.append(pr)

    def case(self):
        return {"ops": self.ops, "probes": self.probes}


# ---------------------------------------------------------------------------------------------
# Coq literals
# ---------------------------------------------------------------------------------------------

def cnl(xs):
    return clist(cn(x) for x in xs)


def c_err(cls):
    return ERR.get(cls, "EOther")


def c_fres(o):
    return f"(FL {cnl(o['l'])})" if "l" in o else f"(FE {c_err(o['e'])})"


def c_op(op):
    k = op[0]
    if k == "reg":
        return f"OReg {cn(op[1])} {CTYPE[op[2]]}"
    if k == "rmcoll":
        return f"ORmColl {cn(op[1])}"
    if k == "set":
        return f"OSet {cn(op[1])} {cn(op[2])} {cn(op[3])} {cn(op[4])}"
    if k == "cert":
        return f"OCert {cn(op[1])} {cn(op[2])} {cn(op[3])} {cn(op[4])}"
    if k == "type":
        return f"OType {cn(op[1])} {cnl(op[2])} {cbool(op[3])}"
    if k == "editflat":
        return f"OEditFlat {cn(op[1])} {cnl(op[2])}"
    return f"OEdit {KIND[op[1]]} {cn(op[2])} {cnl(op[3])}"


def c_cons(c):
    return clist(f"({cn(g)}, {cn(v)})" for g, v in sorted(c.items()))


def c_probes(specs, obs):
    out = []
    for p, o in zip(specs, obs):
        if p["t"] == "chain":
            out.append(f"PChain {cn(p['p'])} {c_fres(o)}")
        elif p["t"] == "flat":
            out.append(f"{'PFlatIncl' if p.get('incl') else 'PFlat'} {cnl(p['ns'])} {c_fres(o)}")
        else:
            for api, per_d in o.items():
                for d, od in per_d.items():
                    out.append(f"PFind {cn(int(api))} {c_cons(probe_cons(p, int(d)))} {cnl(p['ns'])} {cn(p['ty'])} {cn(int(d))} {c_fres(od)}")
    return out


def c_case(case, res):
    # the dataset types the driver registers before the history starts
    steps = [f"(OType {cn(ty)} {cnl(gs)} {cbool(cal)}, Done, [], [])" for ty, (gs, cal) in TYPES.items()]
    for st in res["steps"]:
        i = st["step"]
        op = case["ops"][i]
        if op[0] == "sky":      # older replays: a {skymap}-only dataset
            op = ["set", op[1], 2, 64 * (op[2] + 1), 900 + i]
        out = "Done" if st["out"] == "ok" else f"(Refused {c_err(st['out'])})"
        rows = clist(f"mkRow {cn(a)} {cz(b)} {cn(c)}" for a, b, c in st["rows"])
        steps.append(f"({c_op(op)}, {out}, {clist(c_probes(case['probes'][i], st['probes']))}, {rows})")
    return clist(steps)


# ---------------------------------------------------------------------------------------------
# oracle (property text on implementation observations)
# ---------------------------------------------------------------------------------------------

class Oracle:
    def __init__(self, ctx: Ctx, case, res, tag):
        self.ctx, self.case, self.res, self.tag = ctx, case, res, tag

    def fail(self, sig, i, what, **extra):
        if getattr(self.ctx, "collect_only", False):
            self.ctx.sigs.append((sig, i))
            return
        rep = {"case": {"ops": self.case["ops"][: i + 1], "probes": self.case["probes"][: i + 1]}, "failing_step": i,
               "op": self.case["ops"][i], "origin": self.tag, "impl_steps": self.res["steps"][max(0, i - 1): i + 1]}
        rep.update(extra)
        known = any(k.get("status", "known") == "known" and re.fullmatch(k["signature"], sig) for k in self.ctx.known)
        if not known and self.tag != "replay" and sig not in SHRUNK and len(SHRUNK) < 3:
            SHRUNK[sig] = shrink(self.case, i, sig)
            if SHRUNK[sig] is not None:
                rep["original_case"] = rep["case"]
                rep["case"] = SHRUNK[sig]
                rep["failing_step"] = len(SHRUNK[sig]["ops"]) - 1
                rep["note"] = ("`case` is the minimised history (greedy removal of operations and probes, each candidate re-run on "
                               "the implementation); it fails with the same signature at its last step")
        self.ctx.oracle_fail(sig, rep, what)

    def run(self):
        ctx, case, res = self.ctx, self.case, self.res
        colls, chains, contents = {}, {}, {}
        for st in res["steps"]:
            i = st["step"]
            op = case["ops"][i]
            ncolls = {int(k): v for k, v in st["colls"].items()}
            nchains = {int(k): v for k, v in st["chains"].items()}
            out = st["out"]
            ctx.count()
            ctx.hist("op", op[1] if op[0] == "edit" else ("flatten" if op[0] == "editflat" else op[0]))
            ctx.hist("outcome", out)
            # ---- never cyclic
            if st["cyclic"] or graph_cyclic(nchains):
                self.fail(f"cycle-created:{op[1] if op[0] == 'edit' else ('flatten' if op[0] == 'editflat' else op[0])}", i, "a chain definition became cyclic", chains=nchains)
                return
            # ---- every child exists
            for p, cs in nchains.items():
                if any(c not in ncolls for c in cs):
                    self.fail("dangling-child", i, "a chain refers to a collection that does not exist", chains=nchains)
            # ---- effect of the op on chain definitions
            if op[0] in ("edit", "editflat"):
                if op[0] == "edit":
                    _, kind, p, cs, _via = op
                else:
                    (_, p, cs), kind = op, "flatten"
                reasons = set()
                if any(c not in colls for c in cs) or p not in colls:
                    reasons.add("MissingCollection")
                if p in colls and colls[p] != "CHAINED":
                    reasons.add("CollectionTypeErr")
                # flatten=True replaces the children by their non-chain leaves first: no chain among them, no cycle
                if kind not in ("remove", "flatten") and any(reaches(chains, c, p) and c in chains for c in cs if c in colls) \
                        and colls.get(p) == "CHAINED":
                    reasons.add("Cycle")
                if not reasons:
                    want = dict(chains)
                    want[p] = spec_flatten(colls, chains, cs) if kind == "flatten" else spec_edit(chains[p], kind, cs)
                    if out != "ok":
                        self.fail(f"edit-spurious-refusal:{kind}:{out}", i, f"a valid {kind} was refused with {out}", before=chains)
                    elif nchains != want:
                        self.fail(f"edit-order:{kind}", i, f"{kind} did not produce the documented child order",
                                  before=chains, want=want, got=nchains)
                    moved = bool(set(cs) & set(chains[p]))
                    ctx.hist("edit", f"{kind}:{'moves-existing' if moved else 'fresh'}:{min(len(chains[p]), 3)}old")
                    if chains[p] or len(dedupe(cs)) != len(cs):
                        ctx.nontrivial({"k": kind, "old": chains[p], "cs": cs})
                else:
                    ctx.hist("refusal", "+".join(sorted(reasons)))
                    if "Cycle" in reasons:
                        lv = min(dist(chains, c, p) for c in cs if c in colls and reaches(chains, c, p) and c in chains)
                        ctx.hist("cycle_attempt_levels", lv)
                    ctx.nontrivial({"k": kind, "p": p, "cs": cs, "chains": chains})
                    if out == "ok":
                        self.fail(f"edit-accepted-invalid:{kind}:{'+'.join(sorted(reasons))}", i,
                                  f"{kind} that must be refused ({sorted(reasons)}) was accepted", before=chains, got=nchains)
                    elif out not in reasons:
                        self.fail(f"edit-refusal-class:{kind}:{out}", i, f"{kind} refused with {out}, documented: {sorted(reasons)}")
                    if nchains != chains or ncolls != colls:
                        self.fail(f"refused-edit-changed-state:{kind}", i, "a refused chain edit changed chain definitions",
                                  before=chains, got=nchains)
            else:
                want = dict(chains)
                if op[0] == "reg" and out == "ok" and op[1] not in colls and op[2] == "chained":
                    want[op[1]] = []
                if op[0] == "rmcoll" and out == "ok":
                    want.pop(op[1], None)
                if nchains != want:
                    self.fail(f"chains-changed-by:{op[0]}", i, "an operation that is not a chain edit changed chain definitions",
                              before=chains, got=nchains)
                if op[0] in ("set", "cert") and out == "ok":
                    contents.setdefault((op[1], op[2], op[3]), op[4])
                if op[0] == "sky" and out == "ok":
                    contents.setdefault((op[1], 2, 64 * (op[2] + 1)), -1)
                if op[0] == "cert":
                    # documented: only calibration dataset types, only into CALIBRATION collections, no overlapping
                    # validity range for one data ID
                    legal = colls.get(op[1]) == "CALIBRATION" and TYPES.get(op[2], ([], False))[1]
                    if out == "ok" and not legal:
                        self.fail("certify-accepted-invalid", i, "certify accepted a non-calibration dataset type or collection")
                    ctx.hist("certify", out)
                if op[0] == "rmcoll" and out == "ok":
                    contents = {k: v for k, v in contents.items() if k[0] != op[1]}
            colls, chains = ncolls, nchains
            # ---- raw rows must define the same order (positions themselves are not an observable)
            byp = {}
            for a, b, c in st["rows"]:
                byp.setdefault(a, []).append((b, c))
            rows_order = {p: [c for _, c in sorted(v)] for p, v in byp.items()}
            if {p: cs for p, cs in chains.items() if cs} != rows_order:
                self.fail("rows-vs-chain", i, "collection_chain rows sorted by position differ from getCollectionChain",
                          rows=st["rows"], chains=chains)
            # ---- probes
            for p, o in zip(case["probes"][i], st["probes"]):
                ctx.count()
                if p["t"] == "chain":
                    n = p["p"]
                    want = {"e": "MissingCollection"} if n not in colls else ({"l": chains[n]} if n in chains else {"e": "CollectionTypeErr"})
                    if o != want:
                        self.fail("getCollectionChain", i, "getCollectionChain differs from the chain definition", probe=p, got=o, want=want)
                elif p["t"] == "flat":
                    fl = spec_flatten(colls, chains, p["ns"], include_chains=bool(p.get("incl")))
                    want = {"e": "MissingCollection"} if fl is None else {"l": fl}
                    ctx.hist("flatten_len", len(fl) if fl is not None else "err")
                    if o != want:
                        self.fail(f"flatten:{'incl' if p.get('incl') else 'leaves'}", i,
                                  "collections.query(flatten_chains=True) is not the depth-first, first-occurrence flattening",
                                  probe=p, got=o, want=want, chains=chains)
                    if fl is not None and len(fl) >= 2 and any(n in chains for n in p["ns"]):
                        ctx.nontrivial({"flat": p["ns"], "chains": chains})
                else:
                    self.find_probe(i, p, o, colls, chains, contents)
        if res["status"] == "hang":
            i = len(res["steps"])
            op = case["ops"][i] if i < len(case["ops"]) else None
            d = res.get("detail") or {}
            where = (d.get("probe") or {}).get("t", "op") if isinstance(d, dict) else "op"
            self.fail(f"hang:{where}", min(i, len(case["ops"]) - 1), "a call never returned (watchdog)", detail=d)
        elif res["status"] == "crash":
            self.ctx.tie_broken("harness", "c03_impl crash", json.dumps(res.get("detail"))[:1500])

    def find_probe(self, i, p, o, colls, chains, contents):
        ctx = self.ctx
        path = spec_flatten(colls, chains, p["ns"])
        depth = max([depth_of(chains, n) for n in p["ns"]] or [0])
        ctx.hist("search_depth", depth)
        ty = p["ty"]
        govs, calty = TYPES.get(ty, ([0], False))
        where = {g: v for g, v in ((1, p.get("fg")), (0, p.get("ig"))) if v is not None}
        ctx.hist("find_constraint", "none" if not where else
                 "+".join(("own-" if g in govs else "foreign-") + ("skymap" if g else "instrument") for g in sorted(where)))
        calibs = {c for c, t in colls.items() if t == "CALIBRATION"}
        for api, per_d in o.items():
            api = int(api)
            nm = API_NAMES[api]
            for d, od in per_d.items():
                d = int(d)
                ctx.count()
                ctx.hist("find_api", nm)
                if path is None:
                    if od != {"e": "MissingCollection"}:
                        self.fail(f"find:{nm}:unknown-collection", i, "search over an unknown collection did not raise MissingCollectionError",
                                  probe=p, got=od)
                    continue
                # the path that is searched: findDataset / find_dataset without a timespan do not search CALIBRATION
                # collections (documented); Butler.get looks a calibration dataset type up with an unbounded timespan
                skip = api in (0, 1) or (api == 4 and not calty)
                spath = [c for c in path if not (skip and c in calibs)]
                if calibs & set(path):
                    ctx.hist("calibration_in_path", f"{nm}:{'skipped' if skip else 'searched'}")
                # a WHERE constraint on a governor of the dataset type selects data IDs; on any other governor it
                # selects nothing (every value named exists)
                selected = api not in (2, 3) or all(gval(g, d) == (v + 1 if g == 1 else v) for g, v in where.items() if g in govs)
                want = spec_first(contents, spath, ty, d) if selected else []
                holders = [c for c in spath if (c, ty, d) in contents]
                if len(holders) >= 2:
                    ctx.nontrivial({"ns": p["ns"], "ty": ty, "d": d, "chains": chains, "holders": holders})
                    ctx.hist("shadowing", "first-is-head" if holders[0] == spath[0] else "first-is-deeper")
                if where and holders and api in (2, 3):
                    ctx.nontrivial({"ns": p["ns"], "ty": ty, "d": d, "where": where, "chains": chains, "holders": holders})
                if od == {"e": "NotImplementedError"} and api == 3 and calibs & set(p["ns"]):
                    ctx.hist("legacy_calibration", "explicit CALIBRATION collection: NotImplementedError")
                    continue        # documented limitation of the legacy query system, not an answer
                if od != {"l": want}:
                    kindf = ("error:" + od["e"]) if "e" in od else ("missed" if not od["l"] else ("phantom" if not want else "wrong-dataset"))
                    self.fail(f"find:{nm}:{kindf}", i, f"{nm} did not return the dataset of the first collection of the flattened path that has one",
                              probe=p, data_id=d, got=od, want=want, path=spath, chains=chains,
                              contents=[[*k, v] for k, v in contents.items() if k[1] == ty and k[2] == d])


# ---------------------------------------------------------------------------------------------
# shrinking: greedy removal of operations, re-running the implementation and the oracle each time
# ---------------------------------------------------------------------------------------------

SHRUNK: dict = {}


class _Collect:
    """stand-in for Ctx that only collects oracle signatures"""
    collect_only = True

    def __init__(self):
        self.sigs = []
        self.known_printed = set()
        self.oracle_failures = []

    def count(self, n=1):
        pass

    def hist(self, *a, **k):
        pass

    def nontrivial(self, *a):
        pass

    def tie_broken(self, *a):
        pass


def _fails_with(case, sig):
    from harness.common import run_worker
    status, r = run_worker("c03_impl", "run_cases", {"cases": [case], "step_timeout": 30}, timeout=400)
    if status != "ok":
        return sig.startswith("hang") and status == "hang"
    col = _Collect()
    Oracle(col, case, r[0], "shrink").run()
    last = len(case["ops"]) - 1
    return any(s == sig and (i == last or s.startswith("hang") or s.startswith("cycle")) for s, i in col.sigs)


def shrink(case, i, sig, budget=36):
    ops = list(case["ops"][: i + 1])
    probes = [[] for _ in ops]
    probes[-1] = case["probes"][i]
    cand = {"ops": ops, "probes": probes}
    try:
        if not _fails_with(cand, sig):
            return None
        budget -= 1
        j = len(ops) - 2
        while j >= 0 and budget > 0:
            trial = {"ops": cand["ops"][:j] + cand["ops"][j + 1:], "probes": cand["probes"][:j] + cand["probes"][j + 1:]}
            budget -= 1
            if _fails_with(trial, sig):
                cand = trial
            j -= 1
        # keep only the probes that matter when the failure is a probe failure: try dropping probes one by one
        k = len(cand["probes"][-1]) - 1
        while k >= 0 and budget > 0 and len(cand["probes"][-1]) > 1:
            trial = {"ops": cand["ops"], "probes": cand["probes"][:-1] + [cand["probes"][-1][:k] + cand["probes"][-1][k + 1:]]}
            budget -= 1
            if _fails_with(trial, sig):
                cand = trial
            k -= 1
        return cand
    except Exception:  # noqa: BLE001 - shrinking is best effort
        return None


HDR = ("From Coq Require Import ZArith NArith List Bool.\nFrom V Require Import Model.Chain Model.ChainCheck.\n"
       "Import ListNotations.\n")


def load_corpus():
    d = VERIF / "corpus" / "C03"
    out = []
    for f in sorted(d.glob("*.json")):
        j = json.loads(f.read_text())
        out.append((f"corpus/{f.name}", j["case"] if "case" in j else j))
    return out


def run_batch(ctx: Ctx, cases, per_worker=6, check_model=True, name="hist"):
    """cases: list of (tag, case).  Runs the implementation, the oracle and (optionally) the model."""
    payloads = [{"cases": [c for _, c in cases[i:i + per_worker]], "step_timeout": 40}
                for i in range(0, len(cases), per_worker)]
    results = parallel_workers("c03_impl", "run_cases", payloads, timeout=40 * per_worker + 600)
    flat = []
    for pl, (status, r) in zip(payloads, results):
        if status == "ok":
            flat.extend(r)
        else:
            # the outer watchdog fired or the worker died: every case of the payload is unaccounted for
            for _ in pl["cases"]:
                flat.append({"steps": [], "status": "hang" if status == "hang" else "crash", "detail": str(r)[:800]})
    coq_cases, metas = [], []
    for (tag, case), res in zip(cases, flat):
        Oracle(ctx, case, res, tag).run()
        if res["steps"]:
            coq_cases.append(c_case(case, res))
            metas.append((tag, case, res))
    if not check_model or not coq_cases:
        return
    for nm, chk in ((name, "chk_case"), (name + "_rows", "chk_case_rows")):
        bad = ctx.coq_cases(nm, HDR, coq_cases, chk, shard=40)
        for i in (bad or [])[:4]:
            tag, case, res = metas[i]
            rc, out = ctx.coq_eval(nm + "_diag", HDR, f"first_bad init 0%N {coq_cases[i]}")
            detail = out.strip()[-700:] if chk == "chk_case" else "raw collection_chain positions differ from the model"
            if chk == "chk_case":
                ctx.disagreement(nm, {"origin": tag, "ops": case["ops"]}, "model differs from implementation: " + detail)
            else:
                ctx.cov["structural_drift"].append({"origin": tag, "ops": case["ops"], "what": detail})
    if len(ctx.cov["structural_drift"]) > 6:
        del ctx.cov["structural_drift"][6:]


def run(ctx: Ctx):
    ctx.assumptions += [
        "SQLite executes the collection_chain statements as a set of rows with PK (parent, position) and FK child -> collection (modelled; compared on every run through the raw rows)",
        "contents of RUN/TAGGED/CALIBRATION collections and collection summaries (dataset types; values per governor dimension of the dataset type) are taken as a finite table (C02 owns them); premises cont_ok / summ_ok / calib_ok of the find-first theorems, preserved by every model op (theorem wf_inv)",
        "every certification has the unbounded validity range (C04 owns timespans): one dataset per (CALIBRATION collection, type, data ID)",
        "translator harness/translators/chain_pos.py (Python ast -> Gallina, fail-closed) is trusted",
        "sequential histories only; the two-client cycle race belongs to C20",
        "position column is 16-bit on PostgreSQL; the model uses unbounded Z (SQLite does not enforce the width)",
    ]
    ctx.cov["rule"] = (
        "a history = registration of RUN/TAGGED/CALIBRATION/CHAINED collections, puts/associations/certifications of 5 "
        "dataset types ({instrument,detector} x2, {skymap}, calibration {instrument,detector}, {instrument,skymap}), then "
        "14-30 operations, mostly chain edits (redefine via Butler and via Registry, setCollectionChain(flatten=True), "
        "prepend, extend, remove; ~25% hostile: self reference, cycle through 1..3 levels, unknown child/parent, parent "
        "of wrong type, repeated children) with probes after every step; find probes through five entry points, 40% of "
        "the query-based ones constrained by skymap and/or instrument in the WHERE clause (own or foreign governor). "
        "Counted non-trivial (distinct): an accepted edit on a non-empty chain or with repeated children; a refused edit; "
        "a flattening probe through a chain yielding >= 2 collections; a find-first probe whose flattened path holds "
        ">= 2 collections containing a match (shadowing decides the answer); a WHERE-constrained query probe whose path "
        "holds a match"
    )
    # tie T: the position arithmetic of prepend / extend is regenerated from the source into Gen/ChainPosGen.v;
    # edit_orders_gen / positions_unique_gen / generated_edit_is_model_edit are stated over the generated definitions
    from harness.translators import chain_pos
    ctx.regen("chain_pos", chain_pos.translate)
    props_ok = ctx.build_props(extra_targets=["Model/ChainCheck.vo"])
    if not props_ok:
        from harness.common import coq_make
        coq_make(["Model/ChainCheck.vo"])

    if ctx.replay:
        j = json.loads(Path(ctx.replay).read_text())
        run_batch(ctx, [("replay", j["case"] if "case" in j else j)], per_worker=1, name="replay")
        return

    corpus = load_corpus()
    ncases = int(os.environ.get("VERIF_C03_CASES", "0") or 0) or (72 if ctx.quick else 1200)
    cases = list(corpus)
    for i in range(ncases):
        g = Gen(random.Random(ctx.rng.getrandbits(64)), ctx.rng.randint(14, 30))
        cases.append((f"gen{i}", g.case()))
    ctx.hist("cases", "corpus", len(corpus))
    ctx.hist("cases", "generated", ncases)
    ctx.sample({"history": cases[len(corpus)][1]["ops"][:40], "probes_of_last_step": cases[len(corpus)][1]["probes"][-1]})
    run_batch(ctx, cases)

    if ctx.broken and not ctx.oracle_failures:
        # something no longer checks but the property held on every case so far: search deeper on the implementation
        extra = []
        n = 300 if ctx.quick else 1500
        for i in range(n):
            g = Gen(random.Random(ctx.rng.getrandbits(64)), ctx.rng.randint(20, 40))
            extra.append((f"search{i}", g.case()))
        run_batch(ctx, extra, check_model=False)
        ctx.cov["search"] = (f"{n} further histories (20-40 chain edits each, all probes) run on the implementation with the "
                             f"property oracle only: {'a failing input was found' if ctx.oracle_failures else 'no failing input found'}")
