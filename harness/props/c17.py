"""C17 -- Caches never change an answer and stay within their configured bounds.

Obligations: coq/Props/C17.v (models coq/Model/Cache.v, coq/Model/CacheButler.v).
Tie T: coq/Gen/CacheExpireGen.v -- the threshold tests of DatastoreCacheManager._expire_cache regenerated from the source
       (harness/translators/cache_expire.py); Proofs/CacheProofsE.v proves the generated expiry = the hand model's.
Tie K, four drivers (harness/impl/c17_impl.py), all on the real code:
  mgr      histories on two real DatastoreCacheManager objects sharing one cache directory (every expiry mode and
           threshold incl. 0, sizes around one file, ages beyond one day under a virtual clock, files deleted / written
           by "another process"); after EVERY step the directory listing (name, size, ctime), file_count, cache_size
           and the registry's entries of both managers are compared with the model (vm_compute).
  butler   put / get / remove histories on a real Butler with a non-local datastore root, two clients sharing one
           cache directory, run twice: file cache on vs off; results compared (oracle), bounds and bookkeeping checked.
  butlerx  put / get / remove histories on a real Butler (non-local root) with FIXED dataset ids, single-file and
           disassembled (multi-file) datasets, two clients with their own expiry configuration on one cache directory,
           virtual clock; run twice (cache on / off); after every step result, cache directory and both managers'
           bookkeeping compared with the model coq/Model/CacheButler.v (vm_compute) and with each other (oracle).
  registry query / write interleavings on a real SQLite registry run twice: inside caching_context() vs without;
           answers compared with each other (oracle) and with the model (vm_compute).
Oracle: written from the property statement (cached answer == uncached answer; own writes visible; no content for a
        removed dataset; after a move the policy bound holds up to one entry; bookkeeping == files on disk).
"""
from __future__ import annotations

import json
import os
import re
from pathlib import Path

from harness.common import VERIF, Ctx, clist, cn, cz, parallel_workers, run_worker

MODES = {"none": "MNone", "disabled": "MDisabled", "files": "MFiles", "datasets": "MDatasets", "size": "MSize", "age": "MAge"}
THRESHOLDS = {"files": [0, 1, 2, 3], "datasets": [0, 1, 2], "size": [0, 40, 100, 250], "age": [0, 60, 3600, 100000],
              "none": [0], "disabled": [0]}
TICKS = [1, 30, 61, 3599, 3601, 86400, 86410, 90000, 200000]

HDR = ("From Coq Require Import ZArith NArith List.\nFrom V Require Import Model.Cache Model.CacheCheck.\n"
       "Import ListNotations.\n")


# ================================================================================================
# 1. manager histories
# ================================================================================================
def gen_mgr_history(rng, length, cfg=None):
    if cfg is None:
        mode = rng.choice(["files", "files", "datasets", "size", "size", "age", "age", "none", "disabled"])
        thr = rng.choice(THRESHOLDS[mode])
        if rng.random() < 0.7:
            cfg = [[mode, thr], [mode, thr]]
        else:
            m2 = rng.choice(list(THRESHOLDS))
            cfg = [[mode, thr], [m2, rng.choice(THRESHOLDS[m2])]]
    ops = []
    nrefs = rng.choice([3, 4, 5])

    def key():
        return rng.randrange(nrefs) * 4 + rng.choice([0, 0, 0, 1, 1, 2])

    for _ in range(length):
        x = rng.random()
        who = 0 if rng.random() < 0.7 else 1
        if x < 0.42:
            k = key()
            sizes = [0, 1, 10, 39, 40, 41, 60, 100, 101, 120]
            ops.append({"who": who, "op": "move", "key": k, "size": sizes[(k * 7) % 10] if rng.random() < 0.85 else rng.choice(sizes)})
            ops.append({"op": "tick", "dt": 1})
        elif x < 0.60:
            ops.append({"who": who, "op": "find", "key": key()})
            ops.append({"op": "tick", "dt": 1})
        elif x < 0.70:
            ops.append({"who": who, "op": "remove", "refs": sorted(rng.sample(range(nrefs), rng.choice([1, 1, 2])))})
        elif x < 0.76:
            ops.append({"who": who, "op": "scan"})
        elif x < 0.90:
            ops.append({"op": "tick", "dt": rng.choice(TICKS)})
        elif x < 0.95:
            ops.append({"op": "ext_delete", "key": key()})
        else:
            ops.append({"op": "ext_create", "key": key(), "size": rng.choice([0, 5, 50, 150])})
            ops.append({"op": "tick", "dt": 1})
    return {"cfg": cfg, "ops": ops}


def check_mgr_history(ctx: Ctx, hist, steps):
    """The property's statement on the implementation's observations.  Returns (first failing step | None, stats)."""
    stats = {"evicted": 0, "hit": 0, "miss": 0, "old_age": 0}
    first = None
    prev_disk = []
    prev_mgr = [{"entries": []}, {"entries": []}]
    overwritten = set()   # names that had files of different sizes during the history (a registry may keep the size it saw first)
    seen_sizes = {}
    now = 0

    def fail(i, sig, what, **extra):
        nonlocal first
        n = len(ctx.oracle_failures)
        _record(i, sig, what, **extra)
        if len(ctx.oracle_failures) > n and first is None:   # a KNOWN finding must not hide a different failure later on
            first = i

    def _record(i, sig, what, **extra):
        ctx.oracle_fail(sig, dict({"kind": "mgr", "cfg": hist["cfg"], "ops": hist["ops"][: i + 1], "failing_step": i,
                                   "observed": steps[i]}, **extra), what)

    for i, (op, ob) in enumerate(zip(hist["ops"], steps)):
        ctx.count()
        kind = op["op"]
        res = ob["res"]
        disk = ob["disk"]
        dkeys = {d[0] for d in disk}
        if isinstance(res, str) and res.startswith("E:"):
            fail(i, f"mgr-{kind}-raised:{res.split(':')[1]}", f"cache manager operation {kind} raised {res}")
        if any(d[0] == -1 for d in disk):
            fail(i, "mgr-foreign-file-in-cache", "a file that is not a cache file appeared in the cache directory")
        if ob.get("exempt"):
            fail(i, "mgr-exempt-leftover", "a temporary hard link was left behind in the exempt directory")
        if kind == "tick":
            now += max(0, op["dt"])
        # a file replaced behind a manager's back (by the other client or another process) with different content:
        # the registry of a manager that knew the old file legitimately keeps the old size until the entry goes
        # (datasets are immutable, so in real use one cache name always has one size; the generator deliberately breaks that)
        for d in disk:
            seen_sizes.setdefault(d[0], set()).add(d[1])
        overwritten = {k for k, v in seen_sizes.items() if len(v) > 1}
        if "who" in op:
            w = op["who"]
            mode, thr = hist["cfg"][w]
            mo = ob["mgr"][w]
            ekeys = [e[0] for e in mo["entries"]]
            # ---- bookkeeping (after every operation of this manager)
            if mo["file_count"] != len(ekeys):
                fail(i, "bookkeeping:file_count", "file_count differs from the number of registry entries")
            if mo["cache_size"] != sum(e[1] for e in mo["entries"]):
                fail(i, "bookkeeping:cache_size", f"cache_size {mo['cache_size']} differs from the sum of the entries' sizes")
            scanned = (kind == "scan" and mode != "disabled") or (kind == "move" and mode not in ("none", "disabled"))
            if scanned:
                if set(ekeys) != dkeys:
                    fail(i, f"bookkeeping:entries-vs-disk:{kind}:{mode}", "after a scan the registry's entries are not the files on disk",
                         entries=sorted(ekeys), disk=sorted(dkeys))
                elif not (set(ekeys) & overwritten):
                    dsz = {d[0]: d[1] for d in disk}
                    if any(dsz[e[0]] != e[1] for e in mo["entries"]):
                        fail(i, f"bookkeeping:sizes-vs-disk:{kind}:{mode}", "a registry entry's size differs from the file's size")
            # ---- per operation
            if kind == "move":
                k = op["key"]
                if mode == "disabled":
                    if res != "none" or disk != prev_disk:
                        fail(i, "disabled-cache-used", "a disabled cache stored a file")
                else:
                    if res != "cached" or k not in dkeys or k not in ekeys:
                        fail(i, f"move-not-cached:{mode}", "move_to_cache did not leave the file in the cache / registry")
                    before = {d[0] for d in prev_disk}
                    gone = before - dkeys
                    stats["evicted"] += len(gone)
                    others = [d for d in disk if d[0] != k]
                    if mode == "files" and thr >= 0 and (len(disk) > thr + 1 or mo["file_count"] > thr + 1):
                        fail(i, f"bound-files:thr{min(thr, 3)}", f"files mode, threshold {thr}: {len(disk)} files / file_count {mo['file_count']} after move_to_cache")
                    if mode == "datasets" and thr >= 0 and len({d[0] // 4 for d in disk}) > thr + 1:
                        fail(i, f"bound-datasets:thr{min(thr, 3)}", f"datasets mode, threshold {thr}: {len({d[0] // 4 for d in disk})} datasets cached after move_to_cache")
                    if mode == "size" and thr >= 0:
                        tot = mo["cache_size"]
                        # bytes on disk are bounded too, unless a file was replaced behind the manager's back (its registry
                        # then legitimately still carries the size it saw when it registered the file)
                        stale = bool(set(ekeys) & overwritten)
                        if tot > thr + op["size"] or (not stale and sum(d[1] for d in disk) > thr + op["size"]):
                            fail(i, "bound-size", f"size mode, threshold {thr}: cache_size {tot} / {sum(d[1] for d in disk)} bytes on disk "
                                                  f"after caching a file of {op['size']} bytes")
                    if mode == "age" and thr >= 0:
                        old = [d for d in others if now - d[2] > thr]
                        if old:
                            days = "over-one-day" if any(now - d[2] > 86400 for d in old) else "under-one-day"
                            fail(i, f"bound-age:{days}", f"age mode, threshold {thr} s: files aged {[now - d[2] for d in old]} s survived move_to_cache",
                                 now=now)
                        if any(now - d[2] > 86400 for d in prev_disk):
                            stats["old_age"] += 1
            elif kind == "find":
                k = op["key"]
                was = {d[0]: d[1] for d in prev_disk}
                if mode == "disabled":
                    if res != "notfound":
                        fail(i, "disabled-cache-used", "a disabled cache returned a file")
                elif k in was:
                    stats["hit"] += 1
                    if res != ["found", was[k]]:
                        fail(i, "find-missed-or-wrong-content", f"find_in_cache of a file that is in the cache directory returned {res}")
                else:
                    stats["miss"] += 1
                    if res != "notfound":
                        fail(i, "find-content-for-absent-file", f"find_in_cache returned {res} for a file that is not in the cache directory")
            elif kind == "remove":
                known_before = {e[0] for e in prev_mgr[w]["entries"]}
                bad = [k for k in ekeys if k // 4 in op["refs"]]
                left = [k for k in dkeys & known_before if k // 4 in op["refs"]]
                if bad or left:
                    fail(i, "remove-left-entry-or-file", f"remove_from_cache left entries {bad} / files {left} of the removed datasets")
                if {d[0] for d in prev_disk} - dkeys - {k for k in known_before if k // 4 in op["refs"]}:
                    fail(i, "remove-deleted-unrelated-file", "remove_from_cache deleted a file of a dataset that was not named")
        else:
            if kind in ("tick",) and disk != prev_disk:
                fail(i, "disk-changed-without-operation", "the cache directory changed while no operation ran")
        prev_disk = disk
        prev_mgr = ob["mgr"]
        if first is not None:
            break
    return first, stats


def _centry(e):
    return f"mkEntry {cn(e[0])} {cz(e[1])} {cz(e[2])}"


def _cmop(op):
    k = op["op"]
    if k == "move":
        return f"Move {cn(op['key'])} {cz(op['size'])}"
    if k == "find":
        return f"Find {cn(op['key'])}"
    if k == "remove":
        return f"Remove {clist(cn(r) for r in op['refs'])}"
    return "Scan"


def coq_mgr_case(hist, steps):
    items = []
    for op, ob in zip(hist["ops"], steps):
        k = op["op"]
        if k == "tick":
            o = f"Tick {cz(op['dt'])}"
        elif k == "ext_delete":
            o = f"ExtDelete {cn(op['key'])}"
        elif k == "ext_create":
            o = f"ExtCreate {cn(op['key'])} {cz(op['size'])}"
        else:
            o = f"{'OpA' if op['who'] == 0 else 'OpB'} ({_cmop(op)})"
        r = ob["res"]
        if r is None:
            res = "RNone"
        elif r == "none":
            res = "RNone"
        elif r == "cached":
            res = "RCached"
        elif r == "notfound":
            res = "RNotFound"
        elif isinstance(r, list) and r[0] == "found":
            res = f"(RFound {cz(r[1])})"
        else:
            return None
        if any(d[0] < 0 for d in ob["disk"]):
            return None
        mo = [f"(mkMobs {cz(m['file_count'])} {cz(m['cache_size'])} {clist(_centry(e) for e in m['entries'])})" for m in ob["mgr"]]
        items.append(f"({o}, mkWobs {res} {clist(_centry(d) for d in ob['disk'])} {mo[0]} {mo[1]})")
    cfgs = [f"(mkCfg {MODES[m]} {cz(t)})" for m, t in hist["cfg"]]
    return f"({cfgs[0]}, {cfgs[1]}, {clist(items)})"


# ================================================================================================
# 2. butler histories (file cache on vs off)
# ================================================================================================
def gen_butler_history(rng, length):
    mode = rng.choice(["files", "files", "datasets", "size", "none"])
    thr = rng.choice({"files": [0, 1, 2], "datasets": [0, 1, 2], "size": [0, 30, 70], "none": [0]}[mode])
    ops = []
    stored = []
    removed = []
    nxt = 0
    for _ in range(length):
        x = rng.random()
        who = rng.choice([0, 0, 1])
        if (x < 0.35 or not stored) and nxt < 8:
            ops.append({"who": who, "op": "put", "ds": nxt, "pad": rng.choice([0, 10, 40, 90])})
            stored.append(nxt)
            nxt += 1
        elif x < 0.75 and stored:
            ops.append({"who": who, "op": "get", "ds": rng.choice(stored)})
        elif x < 0.85 and stored:
            d = rng.choice(stored)
            stored.remove(d)
            removed.append(d)
            ops.append({"who": who, "op": "remove", "ds": d})
            ops.append({"who": rng.choice([0, 1]), "op": "get", "ds": d})       # never content for a removed dataset
        elif x < 0.92 and removed:
            ops.append({"who": who, "op": "get", "ds": rng.choice(removed)})
        elif x < 0.96 and stored:
            ops.append({"who": who, "op": "exists", "ds": rng.choice(stored)})
        else:
            ops.append({"who": who, "op": "cache_wipe"})
    return {"mode": mode, "thr": thr, "ops": ops}


def check_butler_history(ctx: Ctx, hist, res):
    stats = {"hits": 0, "removed_gets": 0, "evicted": 0}
    first = None
    mode, thr = hist["mode"], hist["thr"]
    pads = {}
    removed = set()
    prev_cache = []

    def fail(i, sig, what, **extra):
        nonlocal first
        n = len(ctx.oracle_failures)
        _record(i, sig, what, **extra)
        if len(ctx.oracle_failures) > n and first is None:
            first = i

    def _record(i, sig, what, **extra):
        ctx.oracle_fail(sig, dict({"kind": "butler", "mode": mode, "thr": thr, "ops": hist["ops"][: i + 1], "failing_step": i,
                                   "cached": res["cached"][i], "uncached": res["uncached"][i]}, **extra), what)

    for i, (op, oc, ou) in enumerate(zip(hist["ops"], res["cached"], res["uncached"])):
        ctx.count()
        k = op["op"]
        if k == "put":
            pads[op["ds"]] = op.get("pad", 0)
        if k == "remove":
            removed.add(op["ds"])
        if k != "cache_wipe" and oc["res"] != ou["res"]:
            what = "removed" if op.get("ds") in removed else "stored"
            fail(i, f"file-cache-changes-answer:{k}:{what}", f"{k} answered {oc['res']} with the file cache and {ou['res']} without it")
        if k == "get":
            if op["ds"] in removed:
                stats["removed_gets"] += 1
                if isinstance(oc["res"], list):
                    fail(i, "content-for-removed-dataset", f"get of a removed dataset returned content {oc['res']}")
            elif oc["res"] != ["value", op["ds"], pads[op["ds"]]]:
                fail(i, "get-wrong-content", f"get returned {oc['res']} for dataset {op['ds']} stored with pad {pads[op['ds']]}")
            if oc["remote_reads"] == 0 and isinstance(oc["res"], list):
                stats["hits"] += 1
        # cache directory vs the acting client's bookkeeping and the policy bound
        if "who" in op and k in ("put", "get"):
            mo = oc["mgr"][op["who"]]
            names = {c[0] for c in oc["cache"]}
            stats["evicted"] += len({c[0] for c in prev_cache} - names)
            if mo["file_count"] != len(mo["entries"]) or mo["cache_size"] != sum(e[1] for e in mo["entries"]):
                fail(i, "bookkeeping:butler", "file_count / cache_size differ from the registry entries")
            if mode == "files" and len(names) > thr + 1:
                fail(i, f"bound-files:butler:thr{thr}", f"files mode, threshold {thr}: {len(names)} files in the cache directory after {k}")
            if mode == "datasets" and len({n.split('.')[0] for n in names}) > thr + 1:
                fail(i, f"bound-datasets:butler:thr{thr}", f"datasets mode, threshold {thr}: too many datasets cached after {k}")
        if k == "remove" and isinstance(oc["res"], str) and oc["res"] == "ok":
            rid = oc["ids"].get(str(op["ds"]))
            mo = oc["mgr"][op["who"]]
            if rid and any(e[0].startswith(rid) for e in mo["entries"]):
                fail(i, "removed-dataset-still-in-cache-registry", "the removing client's cache still lists the removed dataset")
        prev_cache = oc["cache"]
        if first is not None:
            break
    return first, stats


# ================================================================================================
# 2b. Butler histories WITH a model (coq/Model/CacheButler.v): fixed dataset ids, multi-file datasets, two configurations
# ================================================================================================
BX_THR = {"files": [0, 1, 2, 3], "datasets": [0, 1, 2], "size": [0, 40, 100], "age": [60, 100000], "none": [0], "disabled": [0]}
BX_HDR = ("From Coq Require Import ZArith NArith List.\nFrom V Require Import Model.Cache Model.CacheButler Model.CacheButlerCheck.\n"
          "Import ListNotations.\n")


def gen_bx_history(rng, length, mutable=None):
    """put / get / remove of datasets 0..5 with FIXED ids (a dataset removed and put again keeps its cache file names), one
    to three files per dataset.  `mutable`: a dataset put again after a removal may get OTHER content (the cache's
    assumption that one name always has one content is then broken on purpose -> known finding F-C17-reput-stale)."""
    if mutable is None:
        mutable = rng.random() < 0.2
    mode = rng.choice(["files", "files", "datasets", "datasets", "size", "age", "none"])
    thr = rng.choice(BX_THR[mode])
    if rng.random() < 0.6:
        cfg = [[mode, thr], [mode, thr]]
    else:
        m2 = rng.choice(list(BX_THR))
        cfg = [[mode, thr], [m2, rng.choice(BX_THR[m2])]]
    ops = []
    stored = {}
    ever = {}
    removed = []

    def tick(dt=1):
        ops.append({"op": "tick", "dt": dt})

    for _ in range(length):
        x = rng.random()
        who = rng.choice([0, 0, 1])
        free = [d for d in range(6) if d not in stored]
        if (x < 0.32 or not stored) and free:
            d = rng.choice(free)
            if d in ever and not mutable:
                pads = ever[d]
            else:
                n = rng.choice([1, 1, 2, 3])
                pads = [rng.choice([0, 10, 25, 40, 90]) for _ in range(n)]
            ops.append({"who": who, "op": "put", "ds": d, "pads": pads})
            stored[d] = pads
            ever[d] = pads
            if d in removed:
                removed.remove(d)
        elif x < 0.68 and stored:
            ops.append({"who": who, "op": "get", "ds": rng.choice(sorted(stored))})
        elif x < 0.80 and stored:
            d = rng.choice(sorted(stored))
            del stored[d]
            removed.append(d)
            ops.append({"who": who, "op": "remove", "ds": d})
            tick()
            ops.append({"who": rng.choice([0, 1]), "op": "get", "ds": d})      # never content for a removed dataset
        elif x < 0.86 and removed:
            ops.append({"who": who, "op": "get", "ds": rng.choice(removed)})
        elif x < 0.90:
            ops.append({"op": "cache_wipe"})
        elif x < 0.94 and ever:
            d = rng.choice(sorted(ever))
            ops.append({"op": "ext_delete", "key": 4 * d + (0 if len(ever[d]) == 1 else rng.randrange(1, len(ever[d]) + 1))})
        else:
            tick(rng.choice(TICKS))
            continue
        tick()
    return {"cfg": cfg, "ops": ops, "mutable": mutable}


def check_bx_history(ctx: Ctx, hist, res):
    stats = {"hits": 0, "removed_gets": 0, "evicted": 0, "multi": 0, "reput": 0}
    first = None
    stored = {}       # dataset -> the content ids (file sizes) last put, per file: [[key, size]]
    names = {}        # cache file name (key) -> set of contents ever written under that name
    prev_cache = []
    prev_mgr = [{"entries": []}, {"entries": []}]

    def fail(i, sig, what, **extra):
        nonlocal first
        n = len(ctx.oracle_failures)
        ctx.oracle_fail(sig, dict({"kind": "butlerx", "cfg": hist["cfg"], "ops": hist["ops"][: i + 1], "failing_step": i,
                                   "cached": res["cached"][i], "uncached": res["uncached"][i]}, **extra), what)
        if len(ctx.oracle_failures) > n and first is None:
            first = i

    for i, (op, oc, ou) in enumerate(zip(hist["ops"], res["cached"], res["uncached"])):
        ctx.count()
        k = op["op"]
        d = op.get("ds")
        if oc.get("exempt"):
            fail(i, "butlerx-exempt-leftover", "a temporary hard link was left behind in the exempt directory")
        if any(c[0] < 0 for c in oc["cache"]):
            fail(i, "butlerx-foreign-file-in-cache", "a file that is not a cache file appeared in the cache directory")
        if k == "put" and oc["res"] == "ok" and ou["res"] == "ok":
            if oc.get("files") != ou.get("files"):
                fail(i, "butlerx-put-sizes-differ", "the same put wrote files of different sizes with and without the cache")
            files = [[4 * d + c, sz + (1000 if op.get("fill", "p") != "p" else 0)] for c, sz in ou.get("files", [])]
            stored[d] = files
            for key, sz in files:
                names.setdefault(key, set()).add(sz)
            if len(files) > 1:
                stats["multi"] += 1
        rewritten = d is not None and any(len(v) > 1 for kk, v in names.items() if kk // 4 == d)
        if rewritten and k == "put":
            stats["reput"] += 1
        if "who" in op and oc["res"] != ou["res"]:
            cls = "reput-other-content" if rewritten else ("stored" if d in stored else "removed")
            fail(i, f"butlerx-cached-differs:{k}:{cls}",
                 f"{k} of dataset {d} answered {oc['res']} with the file cache and {ou['res']} without it ({cls})")
        if k == "remove" and ou["res"] == "ok":
            stored.pop(d, None)
        if k == "get":
            if d not in stored:
                stats["removed_gets"] += 1
                for side, o in (("with", oc), ("without", ou)):
                    if isinstance(o["res"], list):
                        fail(i, "butlerx-content-for-removed-dataset", f"get of a removed dataset returned content {side} the file cache")
            else:
                if ou["res"] != ["value", stored[d]]:
                    fail(i, "butlerx-get-wrong-content", f"get without the file cache returned {ou['res']}, the last put wrote {stored[d]}")
                if isinstance(oc["res"], list) and oc["remote_reads"] == 0:
                    stats["hits"] += 1
        if "who" in op:
            w = op["who"]
            mode, thr = hist["cfg"][w]
            mo = oc["mgr"][w]
            cache_keys = {c[0] for c in oc["cache"]}
            stats["evicted"] += len({c[0] for c in prev_cache} - cache_keys)
            if mo["file_count"] != len(mo["entries"]) or mo["cache_size"] != sum(e[1] for e in mo["entries"]):
                fail(i, "butlerx-bookkeeping", "file_count / cache_size differ from the registry entries")
            moved = (k == "put" and oc["res"] == "ok") or (k == "get" and oc["remote_reads"] > 0 and isinstance(oc["res"], list))
            if moved and mode not in ("none", "disabled"):
                if {e[0] for e in mo["entries"]} != cache_keys:
                    fail(i, f"butlerx-entries-vs-disk:{mode}", "after move_to_cache the acting client's registry is not the cache directory",
                         entries=sorted(e[0] for e in mo["entries"]), disk=sorted(cache_keys))
                if mode == "files" and thr >= 0 and len(cache_keys) > thr + 1:
                    fail(i, f"butlerx-bound-files:thr{thr}", f"files mode, threshold {thr}: {len(cache_keys)} files in the cache directory after {k}")
                if mode == "datasets" and thr >= 0 and len({c // 4 for c in cache_keys}) > thr + 1:
                    fail(i, f"butlerx-bound-datasets:thr{thr}", f"datasets mode, threshold {thr}: {len({c // 4 for c in cache_keys})} datasets cached after {k}")
                if mode == "size" and thr >= 0 and not rewritten:
                    big = max([sz for kk, v in names.items() if kk // 4 == d for sz in v] or [0])
                    if mo["cache_size"] > thr + big:
                        fail(i, "butlerx-bound-size", f"size mode, threshold {thr}: cache_size {mo['cache_size']} after caching files of at most {big} bytes")
            if k == "remove" and oc["res"] == "ok":
                known_before = {e[0] for e in prev_mgr[w]["entries"]}
                bad = [e[0] for e in mo["entries"] if e[0] // 4 == d]
                left = [c for c in cache_keys & known_before if c // 4 == d]
                if bad or left:
                    fail(i, "butlerx-remove-left-entry-or-file", f"pruneDatasets left cache entries {bad} / files {left} of the removed dataset "
                                                                 "that the removing client knew")
        prev_cache = oc["cache"]
        prev_mgr = oc["mgr"]
        if first is not None:
            break
    return first, stats


def _cbres(r):
    if r == "ok":
        return "BOk"
    if isinstance(r, list) and r[0] == "value":
        if any(x[1] < 0 for x in r[1]):
            return None
        return "(BContent " + clist(f"({cn(x[0])}, {cz(x[1])})" for x in r[1]) + ")"
    if r == "E:FileNotFoundError":
        return "BNotFound"
    if r == "E:FileIntegrityError":
        return "BIntegrity"
    return None


def coq_bx_case(hist, res):
    if not hist.get("modelled", True):
        return "skip"
    items = []
    for op, oc, ou in zip(hist["ops"], res["cached"], res["uncached"]):
        k = op["op"]
        who = "true" if op.get("who") == 1 else "false"
        if k == "put":
            if oc.get("files") is None or oc.get("files") != ou.get("files") or op.get("fill", "p") != "p":
                return None
            o = f"BPut {who} {cn(op['ds'])} " + clist(f"({cn(c)}, {cz(sz)})" for c, sz in oc["files"])
        elif k == "get":
            o = f"BGet {who} {cn(op['ds'])}"
        elif k == "remove":
            o = f"BRemove {who} {cn(op['ds'])}"
        elif k == "tick":
            o = f"BTick {cz(op['dt'])}"
        elif k == "ext_delete":
            o = f"BExtDelete {cn(op['key'])}"
        elif k == "cache_wipe":
            o = "BWipe"
        else:
            return None
        rc, ru = _cbres(oc["res"]), _cbres(ou["res"])
        if rc is None or ru is None or any(c[0] < 0 for c in oc["cache"]):
            return None
        pl = lambda l: clist(f"({cn(a)}, {cz(b)})" for a, b in l)   # noqa: E731
        mo = [f"(mkBmobs {cz(m['file_count'])} {cz(m['cache_size'])} {pl(m['entries'])})" for m in oc["mgr"]]
        items.append(f"({o}, mkBobs {rc} {pl(oc['cache'])} {mo[0]} {mo[1]} {ru})")
    cfgs = [f"(mkCfg {MODES[m]} {cz(t)})" for m, t in hist["cfg"]]
    return f"({cfgs[0]}, {cfgs[1]}, {clist(items)})"


# ================================================================================================
# 3. registry histories (caching_context on vs off)
# ================================================================================================
RUNS = (0, 1, 2, 3, 7, 8, 9)
CHAINS = (4, 5, 10, 11)
TAGGED = (6, 12)
FIXTURE = (0, 1, 2, 3, 4, 5, 6)


def gen_reg_history(rng, length, modelled=True):
    """Histories are generated against a book of the registry (which collections exist, chain definitions) so that
    most operations are valid; refused ones (removing a chain's child, removing a missing collection) are kept on purpose."""
    exist = set(FIXTURE)
    chains = {4: [], 5: []}
    init = []
    for c in (4, 5):
        if rng.random() < 0.7:
            kids = rng.sample([0, 1, 2, 3], rng.choice([1, 2, 2, 3]))
            init.append([c, kids])
            chains[c] = kids
    ops = []
    nid = [0]
    inside = [False]

    def runs():
        return [c for c in RUNS if c in exist]

    def nonchains():
        return [c for c in RUNS + TAGGED if c in exist]

    def anyc():
        return rng.choice(sorted(exist))

    def is_kid(c):
        return any(c in k for k in chains.values())

    def put(run=None, ty=None):
        if nid[0] >= 39 or not runs():
            return
        ops.append({"op": "put", "id": nid[0], "ty": rng.randrange(3) if ty is None else ty, "run": rng.choice(runs()) if run is None else run})
        nid[0] += 1

    def remove(c):
        ops.append({"op": "remove", "c": c})
        if c in exist and not is_kid(c):
            exist.discard(c)
            chains.pop(c, None)

    def register(c):
        ops.append({"op": "register", "c": c})
        if c not in exist:
            exist.add(c)
            if c in CHAINS:
                chains[c] = []

    def setchain(c, kids):
        ops.append({"op": "setchain", "c": c, "kids": kids})
        chains[c] = kids

    ALL = RUNS + CHAINS + TAGGED
    probe_rate = rng.choice([0.0, 0.0, 0.3, 0.6, 1.0])     # wildcard probes after an operation

    def wild():
        y = rng.random()
        if y < 0.6:
            return {"op": "qcolls", "pat": rng.choice(["all", "dots", "r", "r", "ch", "tag", "re_r", "re_all"]), "api": "registry"}
        if y < 0.7:
            return {"op": "qcolls", "pat": rng.choice(["all", "r", "ch"]), "api": "butler"}
        return {"op": "qdataglob", "ty": rng.randrange(3), "pat": rng.choice(["r", "r", "all", "dots", "ch"]), "api": "legacy" if modelled else rng.choice(["legacy", "new"])}   # the new query system flattens matched chains by name: not modelled

    def refused():
        """a request the registry must refuse (and that must leave every cached answer as without caches)"""
        y = rng.randrange(9)
        missing = [c for c in ALL if c not in exist]
        kids_now = sorted({k for v in chains.values() for k in v})
        cs_ = [c for c in CHAINS if c in exist]
        if y == 0 and kids_now:
            remove(rng.choice(kids_now))                                              # a chain's child
        elif y == 1 and missing:
            remove(rng.choice(missing))                                               # unknown name
        elif y == 2:
            ops.append({"op": "register_conflict", "c": anyc()})                      # existing name, other type: kept as is
        elif y == 3 and cs_:
            c = rng.choice(cs_)
            ops.append({"op": "setchain", "c": c, "kids": [c]})                       # cycle
        elif y == 4 and cs_ and missing:
            ops.append({"op": "setchain", "c": rng.choice(cs_), "kids": [rng.choice(missing)]})   # unknown child
        elif y == 5 and nonchains():
            ops.append({"op": "setchain", "c": rng.choice(nonchains()), "kids": []})  # parent is not a chain
        elif y == 6 and nid[0] > 0:
            tgt = [c for c in ALL if c not in TAGGED]
            ops.append({"op": "assoc", "c": rng.choice(tgt)})                         # associate into RUN / CHAINED / unknown
        elif y == 7:
            tgt = [c for c in ALL if c not in RUNS or c not in exist]
            ops.append({"op": "put", "id": 900 + len(ops) % 90, "ty": rng.randrange(3), "run": rng.choice(tgt), "refused": True})
        elif missing:
            ops.append({"op": rng.choice(["qsummary", "qdata"]), "ty": rng.randrange(3), "c": rng.choice(missing)})

    for _ in range(length):
        n_before = len(ops)
        x = rng.random()
        if x < 0.10:
            ops.append({"op": "exit" if inside[0] else "enter"})
            inside[0] = not inside[0]
        elif x < 0.20:
            refused()
        elif x < 0.27:
            ops.append(wild())
        elif x < 0.40:
            put()
        elif x < 0.47:
            cs_ = [c for c in CHAINS if c in exist]
            if cs_:
                setchain(rng.choice(cs_), rng.sample(nonchains(), min(len(nonchains()), rng.choice([0, 1, 2, 2, 3]))))
        elif x < 0.55:
            free = [c for c in sorted(exist) if not is_kid(c)]
            y = rng.random()
            if y < 0.75 and free:
                remove(rng.choice(free))
            elif y < 0.9:
                remove(anyc())                                   # possibly a chain's child: refused
            else:
                remove(rng.choice(RUNS + CHAINS + TAGGED))       # possibly missing: refused
        elif x < 0.63:
            missing = [c for c in RUNS + CHAINS + TAGGED if c not in exist]
            register(rng.choice(missing) if missing and rng.random() < 0.85 else anyc())
        elif x < 0.74:
            ops.append({"op": "qsummary", "c": anyc()})
        elif x < 0.92 or modelled:
            ops.append({"op": "qdata", "ty": rng.randrange(3), "c": anyc()})
        else:
            y = rng.random()
            if y < 0.3:
                ops.append({"op": "qlegacy", "ty": rng.randrange(3), "c": anyc()})
            elif y < 0.5:
                ops.append({"op": "qfind", "ty": rng.randrange(3), "id": rng.randrange(max(1, nid[0])), "c": anyc()})
            elif y < 0.65 and [c for c in CHAINS if c in exist]:
                ops.append({"op": "qchain", "c": rng.choice([c for c in CHAINS if c in exist])})
            elif y < 0.8:
                ops.append({"op": "qcolls", "flatten": rng.random() < 0.5})
            elif runs() and 6 in exist:
                ops.append({"op": "tag", "ty": rng.randrange(3), "run": rng.choice(runs())})
                ops.append({"op": "qdata", "ty": rng.randrange(3), "c": 6})
        if len(ops) > n_before and ops[-1]["op"] not in ("qcolls", "qdataglob") and rng.random() < probe_rate:
            ops.append(wild())
            if rng.random() < 0.3:
                ops.append(wild())
    z = rng.random()
    if z < 0.3 and [c for c in CHAINS if c in exist]:
        # directed motif: cached read of a chain's summary, write, read again inside one context
        c = rng.choice([c for c in CHAINS if c in exist])
        if not inside[0]:
            ops.append({"op": "enter"})
            inside[0] = True
        ops += [{"op": "qsummary", "c": c}, {"op": "qdata", "ty": rng.randrange(3), "c": c}]
        if rng.random() < 0.5:
            put()
        else:
            setchain(c, rng.sample(nonchains(), min(len(nonchains()), rng.choice([1, 2, 3]))))
        ops += [{"op": "qdata", "ty": t_, "c": c} for t_ in range(3)] + [{"op": "qsummary", "c": c}]
    elif z < 0.6:
        # directed motif: a collection with a cached summary is removed and another one registered (SQLite hands the
        # key of the removed collection to the new one when it was the most recent)
        new = [c for c in RUNS + TAGGED + CHAINS if c not in exist]
        if len(new) >= 2:
            a_, b_ = rng.sample(new, 2)
            if not inside[0] and rng.random() < 0.3:
                register(a_)
                if a_ in RUNS:
                    put(a_)
            if not inside[0]:
                ops.append({"op": "enter"})
                inside[0] = True
            register(a_)
            if a_ in RUNS:
                put(a_)
                put(a_)
            elif a_ in CHAINS and runs():
                setchain(a_, rng.sample(runs(), 1))
            ops.append({"op": "qsummary", "c": a_})
            if rng.random() < 0.5:
                ops.append({"op": "qdata", "ty": rng.randrange(3), "c": a_})
            remove(a_)
            register(b_)
            ops.append({"op": "qsummary", "c": b_})
            ops += [{"op": "qdata", "ty": t_, "c": b_} for t_ in range(3)]
            if b_ in RUNS:
                put(b_)
                ops.append({"op": "qsummary", "c": b_})
    if rng.random() < 0.5:
        # directed motif: a pattern lookup fills the record cache, a REFUSED request follows, pattern lookups come next
        # (before any lookup by exact name)
        if not inside[0]:
            ops.append({"op": "enter"})
            inside[0] = True
        ops.append(wild() if rng.random() < 0.5 else {"op": "qcolls", "pat": "dots", "api": "registry"})
        refused()
        ops += [{"op": "qcolls", "pat": rng.choice(["all", "dots", "r", "ch", "tag"]), "api": "registry"},
                {"op": "qdataglob", "ty": rng.randrange(3), "pat": rng.choice(["r", "all"]), "api": "legacy"}, wild()]
    if inside[0]:
        ops.append({"op": "exit"})
    return {"init_chains": init, "ops": ops, "modelled": modelled}


def check_reg_history(ctx: Ctx, hist, res):
    stats = {"stale_risk": 0, "nonempty_after_write": 0}
    first = None
    inside = False
    last_write = "none"
    read_in_ctx = False

    def fail(i, sig, what):
        nonlocal first
        n = len(ctx.oracle_failures)
        ctx.oracle_fail(sig, {"kind": "registry", "init_chains": hist["init_chains"], "ops": hist["ops"][: i + 1], "failing_step": i,
                              "cached": res["cached"][i], "uncached": res["uncached"][i]}, what)
        # a KNOWN finding (not recorded as a failure) must not hide a different failure later in the same history
        if len(ctx.oracle_failures) > n and first is None:
            first = i

    for i, (op, oc, ou) in enumerate(zip(hist["ops"], res["cached"], res["uncached"])):
        ctx.count()
        k = op["op"]
        if k == "enter":
            inside, last_write, read_in_ctx = True, "none", False
        elif k == "exit":
            inside = False
        elif k in ("put", "setchain", "tag", "remove", "register", "assoc", "register_conflict"):
            if inside:
                if read_in_ctx:
                    stats["stale_risk"] += 1
                last_write = k
        if k in ("put", "setchain", "tag", "remove", "register", "assoc", "register_conflict") and inside and isinstance(ou["res"], str):
            last_write = f"refused-{k}"
        if oc["res"] != ou["res"]:
            where = f"after-{last_write}" if inside else "outside-context"
            fail(i, f"registry-cached-differs:{k}:{where}",
                 f"{k} answered {oc['res']} inside caching_context() and {ou['res']} without it ({where})")
        elif k.startswith("q"):
            if inside:
                read_in_ctx = True
                if last_write != "none" and oc["res"]:
                    stats["nonempty_after_write"] += 1
        if isinstance(ou["res"], str) and k in ("enter", "exit"):
            fail(i, f"registry-op-failed:{k}", f"{k} failed without caching: {ou.get('msg')}")
        if first is not None:
            break
    return first, stats


def _among(pat):
    """the collection names (numbers) a pattern of the driver matches, among all names the histories use"""
    return {"all": RUNS + CHAINS + TAGGED, "dots": RUNS + CHAINS + TAGGED, "re_all": RUNS + CHAINS + TAGGED,
            "r": RUNS, "re_r": RUNS, "ch": CHAINS, "tag": TAGGED}[pat]


def _crop(op):
    k = op["op"]
    if k == "enter":
        return "Enter"
    if k == "exit":
        return "Exit"
    if k == "register":
        return f"Register {cn(op['c'])} {'true' if op['c'] in CHAINS else 'false'}"
    if k == "remove":
        return f"RemoveColl {cn(op['c'])}"
    if k == "setchain":
        return f"SetChain {cn(op['c'])} {clist(cn(x) for x in op['kids'])}"
    if k == "put":
        if op["run"] in TAGGED:
            return "Refused"      # inserting into a TAGGED collection (tags are not modelled)
        return f"Put {cn(op['id'])} {cn(op['ty'])} {cn(op['run'])}"
    if k == "register_conflict":
        return f"Register {cn(op['c'])} {'true' if op['c'] in CHAINS else 'false'}"
    if k == "assoc":
        return "Refused"
    if k == "qcolls" and "pat" in op:
        return f"QColls {clist(cn(c) for c in _among(op['pat']))}"
    if k == "qdataglob":
        return f"QDataGlob {cn(op['ty'])} {clist(cn(c) for c in _among(op['pat']))}"
    if k == "qsummary":
        return f"QSummary {cn(op['c'])}"
    if k == "qdata":
        return f"QData {cn(op['ty'])} {cn(op['c'])}"
    return None


def coq_reg_case(hist, res):
    """Gallina literal `list (rop * observed cached * observed uncached)`; the fixture's registrations and initial chain
    definitions are the first operations (the model starts on an empty registry); a refused operation is [9999]."""
    items = [f"(Register {cn(c)} {'true' if c in CHAINS else 'false'}, [], [])" for c in FIXTURE]
    items += [f"(SetChain {cn(c)} {clist(cn(x) for x in kids)}, [], [])" for c, kids in hist["init_chains"]]

    def ans(r):
        if isinstance(r, str):
            return "[9999%N]" if r.startswith("E:") else None
        if any(x < 0 for x in r):
            return None
        return clist(cn(x) for x in r)

    for op, oc, ou in zip(hist["ops"], res["cached"], res["uncached"]):
        o = _crop(op)
        a1, a2 = ans(oc["res"]), ans(ou["res"])
        if o is None or a1 is None or a2 is None:
            return None
        items.append(f"({o}, {a1}, {a2})")
    return clist(items)


# ================================================================================================
# plumbing
# ================================================================================================
def _batch(func, hists, per_worker, timeout=600):
    payloads = [{"histories": hists[i:i + per_worker]} for i in range(0, len(hists), per_worker)]
    out = []
    first = parallel_workers("c17_impl", func, payloads, timeout=timeout)
    # a worker that died (not: hung) is retried once, alone: /repo may have been mid-update when it imported the package
    first = [(st, r) if st != "crash" else run_worker("c17_impl", func, pl, timeout=timeout) for pl, (st, r) in zip(payloads, first)]
    for pl, (st, r) in zip(payloads, first):
        for j, h in enumerate(pl["histories"]):
            out.append((h, r["results"][j] if st == "ok" else None, None if st == "ok" else f"{st}: {str(r)[-1500:]}"))
    return out


class _Quiet:
    """throw-away recorder with the Ctx interface the oracles use (for shrinking)"""

    def __init__(self, known=()):
        self.oracle_failures = []
        self.known = list(known)

    @property
    def fails(self):
        return [s_ for s_, _ in self.oracle_failures]

    def count(self, n=1):
        pass

    def oracle_fail(self, sig, rep, what=""):
        for k in self.known:
            if k.get("status", "known") == "known" and re.fullmatch(k["signature"], sig):
                return
        self.oracle_failures.append((sig, rep))


KINDS = {
    "mgr": ("run_mgr_histories", check_mgr_history, lambda r: r["steps"]),
    "butler": ("run_butler_histories", check_butler_history, lambda r: r),
    "registry": ("run_registry_histories", check_reg_history, lambda r: r),
    "butlerx": ("run_butlerx_histories", check_bx_history, lambda r: r),
}


def _shrink(kind, hist, fail_step, sig, budget=14, known=()):
    """Greedy removal of single ops from the failing prefix while the same signature still fails."""
    func, oracle, pick = KINDS[kind]
    cur = dict(hist, ops=hist["ops"][: fail_step + 1])
    i = len(cur["ops"]) - 2
    while i >= 0 and budget > 0:
        cand = dict(cur, ops=cur["ops"][:i] + cur["ops"][i + 1:])
        budget -= 1
        st, r = run_worker("c17_impl", func, {"histories": [cand]}, timeout=300)
        if st == "ok":
            q = _Quiet(known)
            ff, _ = oracle(q, cand, pick(r["results"][0]))
            if ff is not None and sig in q.fails:
                cur = dict(cand, ops=cand["ops"][: ff + 1])
                i = min(i, len(cur["ops"]) - 1)
        i -= 1
    return cur


def _process(ctx: Ctx, kind, results, cases, metas, shrink=True):
    func, oracle, pick = KINDS[kind]
    for hist, r, err in results:
        if r is None:
            if err.startswith("hang"):
                ctx.oracle_fail(f"{kind}-history-hang", {"kind": kind, "history": hist}, f"a {kind} history did not return (watchdog)")
            else:
                ctx.tie_broken("harness", f"c17 {kind} worker", err)
            continue
        n0 = len(ctx.oracle_failures)
        ff, stats = oracle(ctx, hist, pick(r))
        for op in hist["ops"]:
            ctx.hist(f"{kind}-op", op["op"])
        if kind == "mgr":
            for m, t in hist["cfg"][:1]:
                ctx.hist("expiry", f"{m}={t}")
            if stats["evicted"] and stats["hit"] and stats["miss"]:
                ctx.nontrivial({"k": kind, "h": hist})
            if stats["old_age"]:
                ctx.hist("mgr-history", "age-beyond-one-day")
        elif kind == "butler":
            ctx.hist("expiry-butler", f"{hist['mode']}={hist['thr']}")
            if stats["hits"] and stats["removed_gets"]:
                ctx.nontrivial({"k": kind, "h": hist})
        elif kind == "butlerx":
            for m, t in hist["cfg"][:1]:
                ctx.hist("expiry-butlerx", f"{m}={t}")
            if stats["multi"]:
                ctx.hist("butlerx-history", "multi-file-dataset")
            if stats["reput"]:
                ctx.hist("butlerx-history", "put-again-with-other-content")
            if stats["hits"] and stats["removed_gets"] and stats["evicted"]:
                ctx.nontrivial({"k": kind, "h": hist})
        else:
            if stats["stale_risk"] and stats["nonempty_after_write"]:
                ctx.nontrivial({"k": kind, "h": hist})
        if ff is not None and len(ctx.oracle_failures) > n0 and ctx.oracle_failures[n0][0] in {s_ for s_, _ in ctx.oracle_failures[:n0]}:
            del ctx.oracle_failures[n0:]     # this kind of failure is already recorded (and shrunk): one replay per signature
        elif ff is not None and shrink and len(ctx.oracle_failures) > n0:
            sig, rep = ctx.oracle_failures[n0]
            small = _shrink(kind, hist, ff, sig, known=ctx.known)
            if len(small["ops"]) < ff + 1:
                st, rr = run_worker("c17_impl", func, {"histories": [small]}, timeout=300)
                if st == "ok":
                    del ctx.oracle_failures[n0:]
                    oracle(ctx, small, pick(rr["results"][0]))
                    if len(ctx.oracle_failures) == n0:
                        ctx.oracle_failures.append((sig, rep))
        if kind == "mgr":
            cc = coq_mgr_case(hist, pick(r))
        elif kind == "registry":
            cc = coq_reg_case(hist, r) if hist.get("modelled", True) else "skip"
        elif kind == "butlerx":
            cc = coq_bx_case(hist, r)
        else:
            cc = "skip"
        if cc == "skip":
            continue
        if cc is None:
            if ff is None:
                ctx.disagreement(f"{kind}_history", {"history": hist}, "the implementation produced an observation outside the model's vocabulary")
            continue
        cases[kind].append(cc)
        metas[kind].append({"history": hist, "oracle_failed": ff is not None})


def _model_compare(ctx: Ctx, cases, metas, suffix=""):
    for kind, checker, fb in (("mgr", "chk_mgr_history", "let '(ca, cb, l) := {c} in mfirst_bad true ca cb empty_world 1%N l"),
                              ("registry", "chk_reg_history", "rfirst_bad as_coded rinit rinit 1%N ({c})"),
                              ("butlerx", "chk_butler_history", "let '(ca, cb, l) := {c} in bfirst_bad ca cb empty_b empty_b 1%N l")):
        if not cases.get(kind):
            continue
        hdr = BX_HDR if kind == "butlerx" else HDR
        bad = ctx.coq_cases(f"{kind}_history{suffix}", hdr, cases[kind], checker, shard=40 if kind == "mgr" else 60, timeout=600)
        for i in (bad or [])[:4]:
            if metas[kind][i]["oracle_failed"]:
                continue   # the oracle already reported this history; the model describes the unbroken code
            rc, out = ctx.coq_eval(f"{kind}_bad{i}{suffix}", hdr, fb.format(c=cases[kind][i]))
            where = out.strip().splitlines()[-2:] if rc == 0 else out[-300:]
            ctx.disagreement(f"{kind}_history", metas[kind][i], f"model and implementation differ; first_bad (10*step+component) = {where}")


def _corpus(ctx: Ctx):
    out = {"mgr": [], "butler": [], "registry": [], "butlerx": []}
    for f in sorted((VERIF / "corpus" / "C17").glob("*.json")):
        rep = json.loads(f.read_text())
        h = {k: v for k, v in rep.items() if k in ("cfg", "ops", "mode", "thr", "init_chains", "modelled", "mutable")}
        out[rep["kind"]].append(h)
    return out


def run(ctx: Ctx):
    ctx.assumptions += [
        "the file system keeps st_ctime as documented (creation, link and unlink stamp it); the cache manager sees time only through "
        "datetime.now and os.stat, both shifted consistently by the harness (virtual clock) in the manager-level driver",
        "a non-local datastore root is simulated by giving lsst.resources' mem:// scheme a directory-backed implementation "
        "(harness/impl/c17_impl.py); no real object store exists in the sandbox and a local root never uses the file cache",
        "SQLite executes the summary / chain / dataset statements as written, serially; concurrent writers of the registry belong to C20",
        "in the Butler-level model a file's content is identified by its size (the harness gives different contents of one cache name "
        "different sizes) and one virtual second passes before every move_to_cache / find_in_cache (no two cache files share a ctime)",
        "collections, dataset types and datasets are abstracted to small numbers; chains are one level deep in the registry model; "
        "nested caching contexts, the dataset-type cache and the dimension-record cache are compared cached-vs-uncached only",
    ]
    ctx.cov["rule"] = (
        "a manager history (two real DatastoreCacheManager objects on one directory, virtual clock) counts as non-trivial only if an "
        "expiry evicted at least one file AND find_in_cache both hit and missed; a Butler history only if a get was served from the "
        "cache (no remote read) AND a removed dataset was requested (modelled Butler histories additionally: an expiry or another "
        "process evicted a cached file); a registry history only if a write happened inside a caching "
        "context after a cached read AND a later query in that context returned rows; distinct by the hash of the history"
    )
    from harness.translators import cache_expire
    ctx.regen("cache_expire", cache_expire.translate)      # Gen/CacheExpireGen.v: the threshold tests of _expire_cache
    props_ok = ctx.build_props(extra_targets=["Model/CacheCheck.vo", "Model/CacheButlerCheck.vo"])
    if not props_ok:
        from harness.common import coq_make
        coq_make(["Model/CacheCheck.vo", "Model/CacheButlerCheck.vo"])

    cases = {"mgr": [], "butler": [], "registry": [], "butlerx": []}
    metas = {"mgr": [], "butler": [], "registry": [], "butlerx": []}

    if ctx.replay:
        rep = json.loads(Path(ctx.replay).read_text())
        kind = rep.get("kind", "mgr")
        h = {k: v for k, v in rep.items() if k in ("cfg", "ops", "mode", "thr", "init_chains", "modelled", "mutable")}
        _process(ctx, kind, _batch(KINDS[kind][0], [h], 1), cases, metas, shrink=False)
        _model_compare(ctx, cases, metas, "_replay")
        return

    corp = _corpus(ctx)
    for kind, hs in corp.items():
        if hs:
            _process(ctx, kind, _batch(KINDS[kind][0], hs, 4), cases, metas)
            ctx.hist("source", f"corpus-{kind}", len(hs))

    q = ctx.quick
    scale = float(os.environ.get("C17_SCALE", "1"))
    n_mgr = int((160 if q else 1200) * scale)
    n_but = int((24 if q else 160) * scale)
    n_reg = int((40 if q else 260) * scale)
    n_bx = int((30 if q else 200) * scale)
    r = ctx.rng
    mgr_h = []
    # every mode x threshold at least once with equal configuration on both managers, then random ones
    for m, ts in THRESHOLDS.items():
        for t in ts:
            mgr_h.append(gen_mgr_history(r, 14 if q else 20, cfg=[[m, t], [m, t]]))
    mgr_h += [gen_mgr_history(r, 14 if q else 22) for _ in range(max(0, n_mgr - len(mgr_h)))]
    _process(ctx, "mgr", _batch("run_mgr_histories", mgr_h, 10), cases, metas)
    ctx.hist("source", "generated-mgr", len(mgr_h))

    but_h = [gen_butler_history(r, 12 if q else 18) for _ in range(n_but)]
    _process(ctx, "butler", _batch("run_butler_histories", but_h, 3, timeout=900), cases, metas)
    ctx.hist("source", "generated-butler", len(but_h))

    bx_h = [gen_bx_history(r, 12 if q else 18) for _ in range(n_bx)]
    _process(ctx, "butlerx", _batch("run_butlerx_histories", bx_h, 4, timeout=900), cases, metas)
    ctx.hist("source", "generated-butlerx", len(bx_h))

    reg_h = [gen_reg_history(r, 14 if q else 22, modelled=(j % 3 != 2)) for j in range(n_reg)]
    _process(ctx, "registry", _batch("run_registry_histories", reg_h, 4, timeout=900), cases, metas)
    ctx.hist("source", "generated-registry", len(reg_h))

    if metas["mgr"]:
        ctx.sample({"mgr_history": metas["mgr"][-1]["history"], "coq_case_prefix": cases["mgr"][-1][:600]})
    if metas["registry"]:
        ctx.sample({"registry_history": metas["registry"][-1]["history"], "coq_case_prefix": cases["registry"][-1][:400]})

    _model_compare(ctx, cases, metas)

    # ---- something no longer checks but the oracle held: search deeper on the implementation
    if ctx.broken and not ctx.oracle_failures:
        c2 = {"mgr": [], "butler": [], "registry": [], "butlerx": []}
        m2 = {"mgr": [], "butler": [], "registry": [], "butlerx": []}
        extra_m = [gen_mgr_history(r, 26) for _ in range(300 if q else 900)]
        _process(ctx, "mgr", _batch("run_mgr_histories", extra_m, 10), c2, m2)
        extra_r = [gen_reg_history(r, 26, modelled=False) for _ in range(40 if q else 120)]
        _process(ctx, "registry", _batch("run_registry_histories", extra_r, 4, timeout=900), c2, m2)
        extra_b = [gen_butler_history(r, 20) for _ in range(20 if q else 60)]
        _process(ctx, "butler", _batch("run_butler_histories", extra_b, 3, timeout=900), c2, m2)
        extra_x = [gen_bx_history(r, 22) for _ in range(40 if q else 120)]
        _process(ctx, "butlerx", _batch("run_butlerx_histories", extra_x, 4, timeout=900), c2, m2)
        ctx.cov["search"] = (f"{len(extra_m)} manager, {len(extra_r)} registry and {len(extra_b)} Butler histories of 20-26 steps run on the "
                             "implementation with the property oracle after every step: "
                             + ("a failing input was found" if ctx.oracle_failures else "the oracle held on all of them"))
