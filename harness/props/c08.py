"""C08 -- A crash at any instant leaves a repository that reopens consistent.

Obligations: coq/Props/C08.v (theorems over Model/Crash.v for every history, operation and crash index).
Tie K:  scenario = fault-free pre-history + one operation.  The operation runs on a REAL Butler (SQLite + POSIX file
        datastore) in a forked child that os._exit()s immediately before the k-th instrumented SQL / file event, for
        EVERY k (thorough: every event; quick: every event except reads) and additionally in the MIDDLE of every
        write / copy (half of the bytes on disk).  After each death the parent opens a fresh Butler and records
        query_datasets, exists(full_check), get of every dataset, the raw dataset / dataset_location(_trash) /
        file_datastore_records / collection rows and the listing of the root (final names, temporary names) and of the
        staging area.  Then follow-ups run on a copy of the crashed repository (re-run of the operation + emptyTrash;
        emptyTrash alone; for insertions the re-run) and are observed again.
        (ii) crash differential: the sequence of distinct observations along k must equal the model's
             `recover (crash k)` sequence, every crash observation must be one of the model's crash states and the
             follow-up observations must equal the model's `run` from that state  (Model/CrashCheck.v, vm_compute).
        (i)  trace skeleton: the abstracted event trace of the fault-free run vs the kinds of `plan`; a difference
             that changes no crash observation is recorded as structural drift only.
Oracle: `check_scenario` below, written from the property text; it never consults the Coq model.
"""
from __future__ import annotations

import glob
import json
import os
import random
import re

from harness.common import VERIF, Ctx, parallel_workers

NSLOT = 6
UNIV = "[" + ";".join(str(i) for i in range(NSLOT)) + "]"
HDR = ("From Coq Require Import NArith List.\nFrom V Require Import Model.Crash Model.CrashCheck.\n"
       "Import ListNotations.\nOpen Scope N_scope.\n")
PARTIAL, MISSING, CORRUPT = 999999, 999998, 999996
INSERTS = ("put", "ingest", "transfer", "mput")
SHARED = ("ingestmulti", "ingestzip")          # one artifact for several datasets: oracle only (the model has one path per id)
REMOVALS = ("prune", "unstore", "removeruns", "emptytrash", "trash")


def run_of(d):
    return 0 if d < 4 else 1


# =================================================================================================
# generator (a light abstract state only to make most operations meaningful; never used for verdicts)
# =================================================================================================
class G:
    def __init__(self):
        self.ds, self.stored, self.pending, self.ext = set(), set(), set(), set(range(NSLOT))
        self.runs = {0, 1}
        self.groups = []          # ids that share one artifact
        self.foreign = set()      # slots whose registered dataset carries the SOURCE repository's id (transfer_from, ingest_zip)

    def note(self, op):
        k = op[0]
        if k == "put":
            if op[1] not in self.ds and run_of(op[1]) in self.runs:
                self.ds.add(op[1]); self.stored.add(op[1])
        elif k == "ingest":
            if op[2] not in self.ds and op[2] in self.ext and run_of(op[2]) in self.runs:
                self.ds.add(op[2]); self.stored.add(op[2])
                if op[1] == "move":
                    self.ext.discard(op[2])
        elif k == "transfer":
            l = op[1]
            if l and len(set(l)) == len(l) and all(d not in self.ds and run_of(d) in self.runs for d in l):
                self.ds |= set(l); self.stored |= set(l); self.foreign |= set(l)
        elif k == "mput":
            for d, _ in op[1]:
                self.note(["put", d, 0])
        elif k in ("ingestmulti", "ingestzip"):
            l = op[-1]
            if l and len(set(l)) == len(l) and all(d not in self.ds and run_of(d) in self.runs for d in l) \
                    and (k == "ingestzip" or len({run_of(d) for d in l}) == 1):
                self.ds |= set(l); self.stored |= set(l)
                self.groups.append(list(l))
                if k == "ingestzip":
                    self.foreign |= set(l)
                if op[:2] == ["ingestmulti", "move"]:
                    self.ext.discard(l[0])
        elif k == "prune":
            t = set(op[1]) & self.ds
            self.ds -= t; self.stored -= t; self.foreign -= t
            if t:
                self.pending.clear()
        elif k == "unstore":
            t = set(op[1]) & self.stored
            self.stored -= t
            if t:
                self.pending.clear()
        elif k == "trash":
            t = set(op[1]) & self.stored
            self.stored -= t; self.pending |= t
        elif k == "removeruns":
            if op[1] in self.runs:
                t = {d for d in self.ds if run_of(d) == op[1]}
                self.ds -= t; self.stored -= t; self.foreign -= t
                self.runs.discard(op[1])
                self.pending.clear()
        elif k == "emptytrash":
            self.pending.clear()


def one_run(l, free):
    """The refs of ONE FileDataset must share their run: keep the refs of the first ref's run, topped up from the free slots."""
    same = [d for d in l if run_of(d) == run_of(l[0])]
    for d in free:
        if len(same) >= 2:
            break
        if d not in same and run_of(d) == run_of(l[0]):
            same.append(d)
    return same


def gen_scenario(rng: random.Random, kind: str):
    g = G()
    pre = []
    npre = rng.choice([1, 2, 3, 3, 4, 5])
    free = lambda: [d for d in range(NSLOT) if d not in g.ds and run_of(d) in g.runs]  # noqa: E731

    def fresh():
        f = free()
        return rng.choice(f) if f and rng.random() < 0.93 else rng.randrange(NSLOT)

    for _ in range(npre):
        x = rng.random()
        if x < 0.55 or not g.stored:
            op = ["put", fresh(), rng.randrange(1, 90)]
        elif x < 0.65:
            op = ["ingest", rng.choice(["copy", "move"]), fresh()]
        elif x < 0.72:
            f = free()
            op = ["transfer", rng.sample(f, min(len(f), rng.choice([1, 2])))] if f else ["put", fresh(), 7]
        elif x < 0.80:
            op = ["unstore", [rng.choice(sorted(g.stored))]]
        elif x < 0.88:
            op = ["trash", [rng.choice(sorted(g.stored))]]
        elif x < 0.94:
            op = ["prune", [rng.choice(sorted(g.ds))]]
        else:
            op = ["emptytrash"]
        pre.append(op)
        g.note(op)
    # the operation under test
    if kind in ("prune", "unstore", "trash", "removeruns", "emptytrash") and len(g.stored) < 2:
        for _ in range(2):
            op = ["put", fresh(), rng.randrange(1, 90)]
            pre.append(op); g.note(op)
    if kind == "emptytrash" and not g.pending and g.stored:
        op = ["trash", rng.sample(sorted(g.stored), min(len(g.stored), rng.choice([1, 2])))]
        pre.append(op); g.note(op)
    if kind in ("prune_shared", "unstore_shared"):
        # a removal whose targets share their artifact with datasets that stay (or not): the artifact may only go with its last ref
        f = free()
        if len(f) < 2:
            pre, g = [["put", 0, 7]], G()
            g.note(pre[0])
            f = free()
        l = rng.sample(f, min(len(f), rng.choice([2, 2, 3])))
        l.sort(key=lambda d: d not in g.ext)
        if rng.random() < 0.5:
            mk = ["ingestzip", l]
        else:
            l = one_run(l, f)
            mk = ["ingestmulti", rng.choice(["copy", "move"]), l]
        pre.append(mk); g.note(mk)
        tg = rng.sample(l, rng.choice([1, 1, len(l) - 1, len(l)]) or 1)
        if g.stored - set(l) and rng.random() < 0.4:
            tg.append(rng.choice(sorted(g.stored - set(l))))
        op = [kind.split("_")[0], tg]
        return {"pre": pre, "op": op, "follow": follows_of(op), "model": False}
    if kind == "mput":
        f = free()
        l = rng.sample(f, min(len(f), rng.choice([2, 2, 3]))) if f else [rng.randrange(NSLOT)]
        if rng.random() < 0.12:
            l.insert(rng.randrange(len(l) + 1), rng.randrange(NSLOT))      # possibly registered already / duplicate: that put is refused
        op = ["mput", [[d, rng.randrange(1, 90)] for d in l]]
    elif kind in SHARED:
        f = free()
        l = rng.sample(f, min(len(f), rng.choice([2, 2, 3]))) if f else [rng.randrange(NSLOT)]
        if rng.random() < 0.1 and g.stored - g.foreign:
            l.append(rng.choice(sorted(g.stored - g.foreign)))      # a dataset that is already there (own id): the whole call is refused
        l.sort(key=lambda d: d not in g.ext)       # the one staging file that is ingested is the first ref's
        if kind == "ingestmulti" and rng.random() < 0.9:
            l = one_run(l, f)
        op = ["ingestzip", l] if kind == "ingestzip" else ["ingestmulti", rng.choice(["copy", "move"]), l]
        return {"pre": pre, "op": op, "follow": [[op]], "model": False}
    elif kind == "put":
        op = ["put", fresh(), rng.randrange(1, 90)]
    elif kind == "ingest":
        op = ["ingest", rng.choice(["copy", "move"]), fresh()]
    elif kind == "transfer":
        f = free()
        l = rng.sample(f, min(len(f), rng.choice([1, 2, 2, 3]))) if f else [rng.randrange(NSLOT)]
        if rng.random() < 0.08:
            # stored already under an id of its own (refused) or a duplicate; never a dataset that already carries the source
            # repository's id: transfer_from of a ref whose id is already registered re-stores / replaces it, which the model
            # (ids identified with slots) does not describe
            l.append(rng.choice(sorted((g.stored - g.foreign) | set(l)) or [0]))
        op = ["transfer", l]
    elif kind in ("prune", "unstore", "trash"):
        pool = sorted(g.stored) or list(range(NSLOT))
        l = rng.sample(pool, min(len(pool), rng.choice([1, 1, 2, 2, 3])))
        if rng.random() < 0.2:
            l.append(rng.randrange(NSLOT))          # possibly unstored / unknown / duplicate
        op = [kind, l]
    elif kind == "removeruns":
        op = ["removeruns", rng.choice(sorted(g.runs)) if g.runs and rng.random() < 0.95 else rng.randrange(2)]
    else:
        op = ["emptytrash"]
    return {"pre": pre, "op": op, "follow": follows_of(op)}


def follows_of(op):
    if op[0] in INSERTS or op[0] in SHARED:
        return [[op]]
    if op[0] == "emptytrash":
        return [[["emptytrash"]]]
    if op[0] == "trash":
        return [[op, ["emptytrash"]], [["emptytrash"]]]
    return [[op, ["emptytrash"]], [["emptytrash"]]]


KINDS = ["put", "ingest", "transfer", "prune", "unstore", "removeruns", "emptytrash", "trash",
         "mput", "prune_shared", "ingestzip", "ingestmulti", "unstore_shared"]


# =================================================================================================
# the property oracle (from the statement; implementation observations only)
# =================================================================================================
def _vec(obs, d):
    """What a fresh Butler reports about dataset d, plus its rows and its artifact."""
    ex = next((e[1:] for e in obs["exists"] if e[0] == d), None)
    gt = next((g[1] for g in obs["get"] if g[0] == d), None)
    fl = next((f[1] for f in obs["files"] if f[0] == d), None)
    return {"listed": d in obs["ds"], "exists": ex, "get": gt, "file": fl, "row": d in obs["raw_ds"], "loc": d in obs["raw_loc"],
            "recs": d in obs["raw_recs"]}


def fully_present(obs, d, v):
    x = _vec(obs, d)
    return x["listed"] and x["exists"] == [1, 1, 1] and x["get"] == v and x["file"] == v and x["row"] and x["loc"] and x["recs"]


def fully_absent(obs, d):
    """Not at all, as far as a Butler can tell: no registry row, not listed, no datastore rows."""
    x = _vec(obs, d)
    return not x["listed"] and not x["row"] and not x["loc"] and not x["recs"]


def gone_from_datastore(obs, d):
    x = _vec(obs, d)
    return not x["loc"] and not x["recs"] and x["file"] is None and (x["exists"] is None or x["exists"][1:] == [0, 0])


def op_targets(op, pre_obs):
    k = op[0]
    if k == "put":
        return {op[1]: op[2]}
    if k == "ingest":
        return {op[2]: 100 + op[2]}
    if k == "transfer":
        return {d: 200 + d for d in op[1]}
    if k == "mput":
        out = {}
        for d, v in op[1]:
            out.setdefault(d, v)
        return out
    if k == "ingestmulti":
        return {d: [op[2][0], 100 + op[2][0]] for d in op[2]}      # every ref reads the ONE ingested file
    if k == "ingestzip":
        return {d: [d, 200 + d] for d in op[1]}
    if k in ("prune", "unstore", "trash"):
        return {d: None for d in op[1]}
    if k == "removeruns":
        return {d: None for d in range(NSLOT) if run_of(d) == op[1]}
    if k == "emptytrash":
        return {d: None for d in pre_obs["raw_trash"]}
    raise ValueError(op)


def check_scenario(ctx: Ctx, sc, res, origin):
    pre, op = sc["pre"], sc["op"]
    P = res["pre_obs"]
    targets = op_targets(op, P)
    kind = op[0]
    trace = res["free"]["trace"]
    failed = []

    def fail(sig, at, mid, what, **extra):
        failed.append(sig)
        ev = trace[at] if at is not None and at < len(trace) else "END"
        ctx.oracle_fail(f"{kind}:{sig}", dict({"origin": origin, "pre": pre, "op": op, "crash_at": at, "mid_write": mid,
                                               "event": ev, "follow": sc.get("follow")}, **extra), what)

    def bystanders(obs, at, mid, where):
        for d in range(NSLOT):
            if d in targets or (kind == "emptytrash"):
                if d in targets:
                    continue
            if d in P["raw_trash"]:
                continue        # already marked for deletion before the call: not "intact" to begin with
            a, b = _vec(P, d), _vec(obs, d)
            if a != b:
                ch = sorted(k for k in a if a[k] != b[k])
                fail(f"bystander-changed{where}:{'+'.join(ch)}", at, mid,
                     f"dataset {d} was not a target of {op} but a fresh Butler reports it differently after the crash{where}: "
                     f"{ {k: [a[k], b[k]] for k in ch} }", dataset=d)

    def no_partial(obs, at, mid, where):
        for d, v in obs["files"]:
            if v < 0:
                fail(f"partial-under-final-name{where}", at, mid, f"the artifact of dataset {d} under its final name is not a complete file", dataset=d)

    if P["errors"]:
        fail("harness:pre-errors", None, False, f"observation errors before the operation: {P['errors']}")
    for c in res["crashes"]:
        X, at, mid = c["obs"], c["at"], c["mid"]
        if c["exit"] not in (137, 0, 4):
            fail("worker-exit", at, mid, f"crash child ended with {c['exit']}")
        if c["exit"] == "hang":
            fail("hang", at, mid, "the operation never returned")
        if X["errors"]:
            fail("reopen-errors", at, mid, f"a fresh Butler failed while observing: {X['errors'][:3]}")
        bystanders(X, at, mid, "")
        no_partial(X, at, mid, "")
        if X["ds"] != X["raw_ds"]:
            fail("query-vs-rows", at, mid, f"query_datasets {X['ds']} differs from the dataset rows {X['raw_ds']}")
        if kind in INSERTS:
            for d, v in targets.items():
                if fully_present(X, d, v) or fully_absent(X, d) or _vec(X, d) == _vec(P, d):
                    continue
                fail("insertion-half-done", at, mid, f"dataset {d} is neither completely present nor absent: {_vec(X, d)}", dataset=d)
            if kind == "mput":
                # a loop of puts interrupted anywhere: a PREFIX of the new datasets is fully present, the rest fully absent
                new_ones = [d for d in targets if fully_absent(P, d)]
                flags = [fully_present(X, d, targets[d]) for d in new_ones]
                if any(b and not a for a, b in zip(flags, flags[1:])):
                    fail("multi-put-not-a-prefix", at, mid, f"datasets {new_ones} present={flags}: a later put is visible while an earlier one is not")
                ctx.hist("mput_prefix_length", sum(flags))
        # follow-ups
        for f in c["follow"]:
            Y, ops = f["obs"], f["ops"]
            tag = ":after-" + "+".join(o[0] for o in ops)
            if f["exit"] == "hang":
                fail("hang" + tag, at, mid, "follow-up never returned")
            if Y["errors"]:
                fail("reopen-errors" + tag, at, mid, f"a fresh Butler failed while observing: {Y['errors'][:3]}")
            bystanders(Y, at, mid, tag)
            no_partial(Y, at, mid, tag)
            if kind in INSERTS:
                # re-running the insertion: the dataset must end completely present (or the insertion was refused all along)
                for d, v in targets.items():
                    if op[:2] == ["ingest", "move"] and not any(e[0] == d for e in X["ext"]) and fully_absent(X, d):
                        # the staging file was already moved under the final name when the process died: the caller's
                        # file is inside the root (complete), there is nothing left to re-ingest from
                        ctx.hist("ingest_move_source_consumed_unregistered", "crash points")
                        continue
                    if not (fully_present(Y, d, v) or (res["free"]["out"] != "Ok" and _vec(Y, d) == _vec(P, d))):
                        fail("rerun-insert-incomplete", at, mid, f"after re-running {op} dataset {d} is {_vec(Y, d)}", dataset=d)
                if targets and all(fully_present(X, d, v) for d, v in targets.items()):
                    # the insertion had completed before the death: re-running it is a refused no-op
                    ctx.hist("rerun_of_completed_insertion", kind)
                    ch = [d for d in range(NSLOT) if _vec(Y, d) != _vec(X, d)]
                    if ch or Y["ext"] != X["ext"]:
                        fail("rerun-of-completed-insertion-changed", at, mid,
                             f"re-running the completed {op} changed datasets {ch} / the staging area: {[[_vec(X, d), _vec(Y, d)] for d in ch][:2]}")
            else:
                rerun = ops[0][0] != "emptytrash" or kind == "emptytrash"
                for d in targets:
                    if _vec(P, d) == {"listed": False, "exists": None, "get": None, "file": None, "row": False, "loc": False, "recs": False} \
                            and d not in P["raw_trash"]:
                        continue        # nothing of d existed before: nothing to delete
                    registry_gone = (not _vec(Y, d)["row"] and not _vec(Y, d)["listed"]) if kind in ("prune", "removeruns") else True
                    done = gone_from_datastore(Y, d) and registry_gone
                    if kind == "trash" and ops[0][0] == "trash" and len(ops) == 1:
                        done = not _vec(Y, d)["loc"]
                    untouched = _vec(Y, d) == _vec(P, d) and d not in Y["raw_trash"]
                    if rerun and not done:
                        fail("rerun-incomplete", at, mid, f"after re-running the removal and emptying the trash dataset {d} is still {_vec(Y, d)}", dataset=d)
                    if not rerun and d in P["raw_trash"] and gone_from_datastore(Y, d):
                        continue        # d was already marked for deletion before the call: emptyTrash completed THAT deletion
                    if not rerun and not (done or untouched):
                        fail("emptytrash-incomplete", at, mid, f"after emptying the trash dataset {d} is neither removed nor untouched: {_vec(Y, d)}", dataset=d)
                if Y["raw_trash"]:
                    phase = ("records-already-deleted-at-crash" if all(d in X["raw_trash"] and d not in X["raw_recs"] for d in Y["raw_trash"])
                             else "other")
                    fail("trash-row-survives:" + phase, at, mid,
                         f"dataset_location_trash still holds {Y['raw_trash']} after {[o[0] for o in ops]}: the interrupted deletion can never be completed",
                         stale=Y["raw_trash"])
    return failed


# =================================================================================================
# the same oracle for scenarios with SHARED artifacts (multi-ref ingest, ingest_zip): what a fresh Butler reports per dataset
# (the artifact is accounted for separately: it belongs to several datasets).  Implementation observations only; these
# scenarios are not sent to the Coq model (which has one path per dataset id).
# =================================================================================================
def _vec2(obs, d):
    ex = next((e[1:] for e in obs["exists"] if e[0] == d), None)
    gt = next((g[1:] for g in obs["get_raw"] if g[0] == d), None)
    return {"listed": d in obs["ds"], "exists": ex, "get": gt, "row": d in obs["raw_ds"], "loc": d in obs["raw_loc"],
            "recs": any(r[0] == d for r in obs["raw_recs_id"])}


NOTHING2 = {"listed": False, "exists": None, "get": None, "row": False, "loc": False, "recs": False}


def present2(obs, d, sv):
    x = _vec2(obs, d)
    return x["listed"] and x["exists"] == [1, 1, 1] and x["get"] == list(sv) and x["row"] and x["loc"] and x["recs"]


def absent2(obs, d):
    x = _vec2(obs, d)
    return not x["listed"] and not x["row"] and not x["loc"] and not x["recs"]


def gone2(obs, d):
    x = _vec2(obs, d)
    return not x["loc"] and not x["recs"] and (x["exists"] is None or x["exists"][1:] == [0, 0])


def artifact_tokens(obs):
    """(artifacts that exist under final names, artifacts some datastore record refers to, ... of a located dataset)."""
    have = {d for d, _ in obs["files"]} | ({"zip"} if obs["zips"] else set())
    ref = {r[1] for r in obs["raw_recs_id"]}
    ref_loc = {r[1] for r in obs["raw_recs_id"] if r[0] in obs["raw_loc"]}
    return have, ref, ref_loc


def shared_insert_complete(sc, res, c):
    P = res["pre_obs"]
    targets = op_targets(sc["op"], P)
    new_ones = [d for d in targets if _vec2(P, d) == NOTHING2 and d not in P["raw_trash"]]
    flags = [present2(c["obs"], d, targets[d]) for d in new_ones]
    return bool(flags) and all(flags)


def check_shared(ctx: Ctx, sc, res, origin):
    pre, op = sc["pre"], sc["op"]
    P = res["pre_obs"]
    kind = op[0]
    trace = res["free"]["trace"]
    targets = op_targets(op, P)
    failed = []

    def fail(sig, at, mid, what, **extra):
        failed.append(sig)
        ev = trace[at] if at is not None and at < len(trace) else "END"
        ctx.oracle_fail(f"shared-{kind}:{sig}", dict({"origin": origin, "pre": pre, "op": op, "crash_at": at, "mid_write": mid,
                                                      "event": ev, "follow": sc.get("follow"), "model": False}, **extra), what)

    def common(obs, at, mid, where):
        if obs["errors"]:
            fail("reopen-errors" + where, at, mid, f"a fresh Butler failed while observing: {obs['errors'][:3]}")
        for d in range(NSLOT):
            if d in targets or d in P["raw_trash"]:
                continue
            a, b = _vec2(P, d), _vec2(obs, d)
            if a != b:
                ch = sorted(k for k in a if a[k] != b[k])
                fail(f"bystander-changed{where}:{'+'.join(ch)}", at, mid,
                     f"dataset {d} was not a target of {op} but a fresh Butler reports it differently after the crash{where}: "
                     f"{ {k: [a[k], b[k]] for k in ch} }", dataset=d)
        for d, v in obs["files"]:
            if v < 0:
                fail("partial-under-final-name" + where, at, mid, f"the artifact under the final name of slot {d} is not a complete file", dataset=d)
        for rel, ok in obs["zips"]:
            if not ok:
                fail("partial-zip-under-final-name" + where, at, mid, f"{rel} is not a complete zip archive")
        if obs["ds"] != obs["raw_ds"]:
            fail("query-vs-rows" + where, at, mid, f"query_datasets {obs['ds']} differs from the dataset rows {obs['raw_ds']}")
        have, _, ref_loc = artifact_tokens(obs)
        if ref_loc - have:
            fail("artifact-of-located-dataset-missing" + where, at, mid,
                 f"artifacts {sorted(map(str, ref_loc - have))} are referred to by located datasets but do not exist any more")

    if P["errors"]:
        fail("harness:pre-errors", None, False, f"observation errors before the operation: {P['errors']}")
    new_ones = [d for d in targets if _vec2(P, d) == NOTHING2 and d not in P["raw_trash"]]
    for c in res["crashes"]:
        X, at, mid = c["obs"], c["at"], c["mid"]
        if c["exit"] == "hang":
            fail("hang", at, mid, "the operation never returned")
        elif c["exit"] not in (137, 0, 4):
            fail("worker-exit", at, mid, f"crash child ended with {c['exit']}")
        common(X, at, mid, "")
        if kind in SHARED:
            for d, sv in targets.items():
                if not (present2(X, d, sv) or absent2(X, d) or _vec2(X, d) == _vec2(P, d)):
                    fail("insertion-half-done", at, mid, f"dataset {d} is neither completely present nor absent: {_vec2(X, d)}", dataset=d)
            flags = [present2(X, d, targets[d]) for d in new_ones]
            if res["free"]["out"] == "Ok" and len(set(flags)) > 1:
                fail("joint-insertion-split", at, mid, f"one call ingests {new_ones} from one artifact but present={flags}")
            interrupted = not (flags and all(flags))
            for f in c["follow"]:
                Y, tag = f["obs"], ":after-rerun"
                if f["exit"] == "hang":
                    fail("hang" + tag, at, mid, "follow-up never returned")
                common(Y, at, mid, tag)
                if not interrupted:
                    # the insertion had completed: re-running it must be a refused no-op (since /repo 2da36a1 the datastore
                    # refuses before any file / zip is transferred; before, the refusal rolled back over the stored zip)
                    ctx.hist("shared_rerun_of_completed_insertion", kind)
                    ch = [d for d in range(NSLOT) if _vec2(Y, d) != _vec2(X, d)]
                    if ch or artifact_tokens(Y)[0] != artifact_tokens(X)[0]:
                        fail("rerun-of-completed-insertion-changed", at, mid,
                             f"re-running the completed {op} changed datasets {ch}: {[[_vec2(X, d), _vec2(Y, d)] for d in ch][:2]}; artifacts "
                             f"{sorted(map(str, artifact_tokens(X)[0]))} -> {sorted(map(str, artifact_tokens(Y)[0]))}")
                for d, sv in targets.items():
                    if not (present2(Y, d, sv) or (res["free"]["out"] != "Ok" and _vec2(Y, d) == _vec2(P, d))):
                        if kind == "ingestmulti" and op[1] == "move" and not any(e[0] == op[2][0] for e in X["ext"]):
                            ctx.hist("ingest_move_source_consumed_unregistered", "crash points")
                            continue
                        fail("rerun-insert-incomplete", at, mid, f"after re-running {op} dataset {d} is {_vec2(Y, d)}", dataset=d)
        else:
            for f in c["follow"]:
                Y, ops = f["obs"], f["ops"]
                tag = ":after-" + "+".join(o[0] for o in ops)
                if f["exit"] == "hang":
                    fail("hang" + tag, at, mid, "follow-up never returned")
                common(Y, at, mid, tag)
                rerun = ops[0][0] != "emptytrash"
                for d in targets:
                    if _vec2(P, d) == NOTHING2 and d not in P["raw_trash"]:
                        continue
                    y = _vec2(Y, d)
                    done = gone2(Y, d) and ((not y["row"] and not y["listed"]) if kind == "prune" else True)
                    untouched = y == _vec2(P, d) and d not in Y["raw_trash"]
                    if rerun and not done:
                        fail("rerun-incomplete", at, mid, f"after re-running the removal and emptying the trash dataset {d} is still {y}", dataset=d)
                    if not rerun and not (done or untouched):
                        fail("emptytrash-incomplete", at, mid, f"after emptying the trash dataset {d} is neither removed nor untouched: {y}", dataset=d)
                if Y["raw_trash"]:
                    fail("trash-row-survives", at, mid, f"dataset_location_trash still holds {Y['raw_trash']} after {[o[0] for o in ops]}", stale=Y["raw_trash"])
                have, ref, _ = artifact_tokens(Y)
                if have - ref:
                    fail("artifact-left-behind", at, mid,
                         f"after {[o[0] for o in ops]} the artifacts {sorted(map(str, have - ref))} exist under final names but no datastore record "
                         f"refers to them any more: the deletion of the last dataset sharing them was not completed")
                if ref - have:
                    fail("shared-artifact-deleted-too-early", at, mid,
                         f"after {[o[0] for o in ops]} the artifacts {sorted(map(str, ref - have))} are still referred to by datastore records but are gone")
    return failed


def nontrivial_shared(sc, res):
    """(shared-artifact scenarios) the call succeeds fault-free, at least 4 distinct crash observations, and -- for removals --
    the targets share their artifact with at least one dataset (kept or removed)."""
    if res["free"]["out"] != "Ok":
        return False
    states = {json.dumps([c["obs"][k] for k in ("raw_ds", "raw_loc", "raw_trash", "raw_recs_id", "files", "zips", "odd")]) for c in res["crashes"]}
    return len(states) >= 4


# =================================================================================================
# Coq literals
# =================================================================================================
def nl(xs):
    return "[" + ";".join(str(x) if x >= 0 else "777777" for x in xs) + "]"


def cobs(o):
    runs = [i for i, r in enumerate(("r0", "r1")) if r in o["raw_runs"]]
    files = [x for d, v in o["files"] for x in (d, v if v >= 0 else PARTIAL)]
    tmp = sorted((v if v >= 0 else PARTIAL) for _, v in o["odd"])
    ext = [x for d, v in o["ext"] for x in (d, v if v >= 0 else PARTIAL)]
    ex = [x for e in o["exists"] for x in (e[0], *(y if y >= 0 else 9 for y in e[1:]))]
    gt = [x for d, v in o["get"] for x in (d, v if v >= 0 else (MISSING if v == -1 else CORRUPT))]
    return "[" + ";".join(nl(r) for r in (runs, o["raw_ds"], o["raw_loc"], o["raw_trash"], o["raw_recs"], files, tmp, ext, ex, gt)) + "]"


def cop(op, ord_=()):
    k = op[0]
    if k == "put":
        return f"Put {op[1]} {op[2]}"
    if k == "ingest":
        return f"{'IngestCopy' if op[1] == 'copy' else 'IngestMove'} {op[2]}"
    if k == "transfer":
        return f"Transfer {nl(op[1])}"
    if k == "prune":
        return f"Prune {nl(op[1])} {nl(ord_)}"
    if k == "unstore":
        return f"Unstore {nl(op[1])} {nl(ord_)}"
    if k == "trash":
        return f"Trash {nl(op[1])}"
    if k == "removeruns":
        return f"RemoveRuns {op[1]} {nl(ord_)}"
    if k == "emptytrash":
        return f"EmptyTrash {nl(ord_)}"
    raise ValueError(op)


def cops(op, ord_=()):
    """The program (list of model operations) an implementation call stands for."""
    if op[0] == "mput":
        return [f"Put {d} {v}" for d, v in op[1]]
    return [cop(op, ord_)]


def cprog(ops, ord_=()):
    return "[" + "; ".join(x for o in ops for x in cops(o, ord_)) + "]"


def observed_order(res):
    """The order in which artifacts under final names disappear / appear along the crash points (the engine's row order
    and the order of the refs are not fixed by the operation's arguments)."""
    gone, came = [], []
    prev = {d for d, _ in res["pre_obs"]["files"]}
    for c in res["crashes"]:
        cur = {d for d, _ in c["obs"]["files"]}
        gone += sorted(prev - cur)
        came += sorted(cur - prev)
        prev = cur
    return gone, came


def ccase(sc, res):
    gone, came = observed_order(res)
    op = sc["op"]
    if op[0] == "transfer":
        l = [d for d in came if d in op[1]]
        rest = list(op[1])
        for d in l:
            rest.remove(d)
        op = ["transfer", l + rest]
    seq, last = [], None
    for c in res["crashes"]:
        o = cobs(c["obs"])
        if o != last:
            seq.append(o)
        last = o
    pts = []
    for c in res["crashes"]:
        fl = ["(" + cprog(f["ops"]) + ", " + cobs(f["obs"]) + ")" for f in c["follow"]]
        pts.append("(" + cobs(c["obs"]) + ", [" + ";\n      ".join(fl) + "])")
    return ("mkCase " + cprog(sc["pre"]) + "\n   " + cobs(res["pre_obs"]) + "\n   " + cprog([op], gone) + "\n   ["
            + ";\n    ".join(seq) + "]\n   [" + ";\n    ".join(pts) + "]")


# ---- literals for the shared-artifact model (Model/CrashShared.v, Model/CrashSharedCheck.v)
ZIPA, ZIPV = 50, 7000
HDR_S = ("From Coq Require Import NArith List.\nFrom V Require Import Model.Crash Model.CrashCheck Model.CrashShared Model.CrashSharedCheck.\n"
         "Import ListNotations.\nOpen Scope N_scope.\n")
REFUSED = "SStore false 0 0 []"


def sops(op, ord_=(), staged=None):
    """The shared model's operations an implementation call stands for (`staged`: slots whose staging file exists)."""
    k = op[0]
    if k == "put":
        return [f"SStore false {op[1]} {op[2]} [{op[1]}]"]
    if k == "mput":
        return [f"SStore false {d} {v} [{d}]" for d, v in op[1]]
    if k == "ingest":
        d = op[2]
        if staged is not None and d not in staged:
            return [REFUSED]
        return [f"SStore {'true' if op[1] == 'move' else 'false'} {d} {100 + d} [{d}]"]
    if k == "transfer":
        return [f"SStore false {d} {200 + d} [{d}]" for d in op[1]]       # completed transfers of a pre-history only
    if k == "ingestmulti":
        l = op[2]
        if not l or (staged is not None and l[0] not in staged) or len({run_of(d) for d in l}) > 1:
            return [REFUSED]      # no staging file, or refs in different runs (FileDataset refuses: "must all share the same run")
        return [f"SStore {'true' if op[1] == 'move' else 'false'} {l[0]} {100 + l[0]} {nl(l)}"]
    if k == "ingestzip":
        return [f"SStore false {ZIPA} {ZIPV} {nl(op[1])}"]
    if k == "prune":
        return [f"SPrune {nl(op[1])} {nl(ord_)}"]
    if k == "unstore":
        return [f"SUnstore {nl(op[1])} {nl(ord_)}"]
    if k == "trash":
        return [f"STrash {nl(op[1])}"]
    if k == "emptytrash":
        return [f"SEmptyTrash {nl(ord_)}"]
    raise ValueError(op)


def scobs(o):
    tok = lambda x: ZIPA if x == "zip" else x  # noqa: E731
    recs = [x for i, tk in o["raw_recs_id"] for x in (i, tok(tk))]
    files = [x for d, v in o["files"] for x in (d, v if v >= 0 else PARTIAL)] + [x for _, ok in o["zips"][:1] for x in (ZIPA, ZIPV if ok else PARTIAL)]
    tmp = sorted((v if v >= 0 else PARTIAL) for _, v in o["odd"])
    ex = [x for e in o["exists"] for x in (e[0], *(y if y >= 0 else 9 for y in e[1:]))]
    tok_of = {i: tk for i, tk in o["raw_recs_id"]}
    gt = []
    for d, slot, v in o["get_raw"]:
        if v == -1:
            val = MISSING
        elif v < 0:
            val = CORRUPT
        elif tok_of.get(d) == "zip":
            val = ZIPV if (slot, v) == (d, 200 + d) else CORRUPT
        else:
            val = v if tok_of.get(d) == slot else CORRUPT
        gt += [d, val]
    return "[" + ";".join(nl(r) for r in (o["raw_ds"], o["raw_loc"], o["raw_trash"], recs, files, tmp, ex, gt)) + "]"


def gone_ids(res):
    """emptyTrash's row order as far as it shows: the ids whose artifacts disappear, in the order they disappear."""
    P = res["pre_obs"]
    toks = lambda o: [d for d, _ in o["files"]] + (["zip"] if o["zips"] else [])  # noqa: E731
    prev, gone = toks(P), []
    for c in res["crashes"]:
        cur = toks(c["obs"])
        gone += [t for t in prev if t not in cur and t not in gone]
        prev = cur
    return [i for t in gone for i, tk in P["raw_recs_id"] if tk == t and i != 99]


def sccase(sc, res):
    pre_ops = [x for o, out in zip(sc["pre"], res["pre_out"]) if out == "Ok" for x in sops(o)]
    staged = {d for d, _ in res["pre_obs"]["ext"]}
    op = sops(sc["op"], gone_ids(res), staged)[0]
    seq, last = [], None
    for c in res["crashes"]:
        o = scobs(c["obs"])
        if o != last:
            seq.append(o)
        last = o
    pts = []
    for c in res["crashes"]:
        st2 = {d for d, _ in c["obs"]["ext"]}
        fl = ["([" + "; ".join(x for o in f["ops"] for x in sops(o, (), st2)) + "], " + scobs(f["obs"]) + ")" for f in c["follow"]]
        pts.append("(" + scobs(c["obs"]) + ", [" + ";\n      ".join(fl) + "])")
    return ("mkSCase [" + "; ".join(pre_ops) + "]\n   " + scobs(res["pre_obs"]) + "\n   (" + op + ")\n   ["
            + ";\n    ".join(seq) + "]\n   [" + ";\n    ".join(pts) + "]")


SK = {"sql:BEGIN": 20, "sql:COMMIT": 21, "sql:INSERT dataset": 1, "sql:INSERT dataset_location": 2, "sql:INSERT file_datastore_records": 3,
      "sql:DELETE dataset_location": 4, "sql:INSERT dataset_location_trash": 5, "sql:DELETE dataset": 6, "sql:DELETE collection": 7,
      "sql:DELETE file_datastore_records": 8, "sql:DELETE dataset_location_trash": 9, "fs:write": 30, "fs:copy": 30, "fs:rename": 31,
      "fs:replace": 31, "fs:remove": 32}


def abstract_trace(trace, kind):
    """Keep the modelled event kinds; drop read-only transactions and (for insertions) the removal of the temporary name."""
    codes = [SK[t] for t in trace if t in SK]
    if kind in INSERTS:
        codes = [c for c in codes if c != 32]
    out, i = [], 0
    while i < len(codes):
        if codes[i] == 20:
            j = i + 1
            while j < len(codes) and codes[j] not in (20, 21):
                j += 1
            body = codes[i + 1:j]
            if not any(c < 20 for c in body):
                out += body
                i = j + 1 if j < len(codes) and codes[j] == 21 else j
                continue
        out.append(codes[i])
        i += 1
    return out


FIELDS = ["run collections", "dataset rows", "dataset_location", "dataset_location_trash", "file_datastore_records", "files under final names",
          "temporary files", "staging files", "Butler.exists", "Butler.get"]


# =================================================================================================
def execute(ctx: Ctx, scs, points, chunk=1, timeout=900):
    payloads = [{"scenarios": [dict(s, points=points) for s in scs[i:i + chunk]]} for i in range(0, len(scs), chunk)]
    res = parallel_workers("c08_impl", "run_scenarios", payloads, timeout=timeout)
    out = []
    for pl, (status, r) in zip(payloads, res):
        if status != "ok":
            for s in pl["scenarios"]:
                out.append(None)
                ctx.oracle_fail(f"worker-{status}", {"pre": s["pre"], "op": s["op"], "detail": (r or "")[-1500:] if isinstance(r, str) else None},
                                f"running the scenario on the implementation ended in a {status}")
        else:
            out.extend(r)
    return out


def load_own_known(ctx: Ctx):
    """known_findings.json is assembled by the maintainer from known_findings.d/; until this property is listed there
    read the fragment directly so that the check is quiet on the unchanged tree."""
    p = VERIF / "known_findings.d" / "C08.json"
    if p.exists():
        have = {k["id"] for k in ctx.known}
        ctx.known += [k for k in json.loads(p.read_text()) if k["id"] not in have and k["property"] == "C08"]


def nontrivial_rule(sc, res):
    """An insertion scenario counts when the operation succeeds fault-free, at least one other stored dataset is present, and
    the crash points show both a state with a temporary file (partial or complete) and a state with a complete orphan under
    the final name; a removal scenario counts when it succeeds, a stored bystander survives, at least two artifacts are
    deleted and at least 4 distinct crash states are seen."""
    if res["free"]["out"] != "Ok":
        return False
    targets = op_targets(sc["op"], res["pre_obs"])
    by = [d for d, v in res["pre_obs"]["get"] if v >= 0 and d not in targets]
    states = {cobs(c["obs"]) for c in res["crashes"]}
    if sc["op"][0] in INSERTS:
        tmp = any(c["obs"]["odd"] for c in res["crashes"]) or sc["op"][:2] == ["ingest", "move"]
        orphan = any(any(d not in c["obs"]["raw_ds"] for d, _ in c["obs"]["files"]) for c in res["crashes"])
        return bool(by) and tmp and orphan
    gone, _ = observed_order(res)
    return bool(by) and len(states) >= 4 and (len(gone) >= 2 or sc["op"][0] == "trash")


def run(ctx: Ctx):
    load_own_known(ctx)
    ctx.assumptions += [
        "process death (os._exit in a forked child) stands in for power loss: no fsync / journal-mode / directory-durability "
        "modelling; SQLite's hot-journal rollback on reopen is the model's `recover` (drop the uncommitted overlay)",
        "one POSIX file datastore, default file template, one artifact per dataset, YAML formatter (write = temporary name in the "
        "destination directory + rename), SQLite registry; chained / in-memory datastores, remote object stores, PostgreSQL, "
        "zip ingest and disassembled composites are outside the model",
        "lsst.resources runs transfers / removals with LSST_RESOURCES_NUM_WORKERS=1 so that event order is deterministic; the order in "
        "which emptyTrash meets trash rows and transfer_from meets refs is read off the observed crash states and passed to the model "
        "(the theorems quantify over every order)",
        "crash points are the instrumented boundaries (SQLAlchemy before_cursor_execute / commit, FileResourcePath.write / remove, "
        "os.rename / replace / remove / unlink, shutil.copy*), dying BEFORE the event; mid-write = half of the bytes, then death",
    ]
    ctx.cov["rule"] = nontrivial_rule.__doc__.replace("\n    ", " ") + " " + nontrivial_shared.__doc__.replace("\n    ", " ")
    props_ok = ctx.build_props(extra_targets=["Model/CrashCheck.vo", "Model/CrashSharedCheck.vo"])
    if not props_ok:
        from harness.common import coq_make
        coq_make(["Model/CrashCheck.vo", "Model/CrashSharedCheck.vo"])

    scs, origins = [], []
    for f in sorted(glob.glob(str(VERIF / "corpus" / "C08" / "*.json"))):
        j = json.load(open(f))
        scs.append({"pre": j["pre"], "op": j["op"], "follow": j.get("follow", follows_of(j["op"])), "model": j.get("model", True)})
        origins.append("corpus/" + os.path.basename(f))
    ncorpus = len(scs)
    if ctx.replay:
        j = json.load(open(ctx.replay))
        scs, origins, ncorpus = [{"pre": j["pre"], "op": j["op"], "follow": j.get("follow") or follows_of(j["op"]),
                                  "model": j.get("model", True)}], ["replay"], 1
    else:
        n = int(os.environ.get("VERIF_C08_N", "0")) or (20 if ctx.quick else 64)
        for k in range(n):
            scs.append(gen_scenario(ctx.rng, KINDS[k % len(KINDS)]))
            origins.append(f"seed{ctx.seed}/{k}")
    points = "mutating" if ctx.quick and not ctx.replay else "all"
    # longest first so that the pool drains evenly
    results = execute(ctx, scs, points)

    cases, meta, skels, scases, smeta = [], [], [], [], []
    for sc, res, org in zip(scs, results, origins):
        if res is None:
            continue
        if any(o.startswith("Err:") for o in res["pre_out"]):
            ctx.hist("pre_history_refusals", sum(o.startswith("Err:") for o in res["pre_out"]))
        shared = not sc.get("model", True)
        (check_shared if shared else check_scenario)(ctx, sc, res, org)
        ctx.count(len(res["crashes"]) + sum(len(c["follow"]) for c in res["crashes"]))
        ctx.hist("operation", ("shared-artifact:" if shared else "") + sc["op"][0] + (":" + sc["op"][1] if sc["op"][0] in ("ingest", "ingestmulti") else ""))
        ctx.hist("fault_free_outcome", res["free"]["out"].split(":")[0] + (":" + res["free"]["out"].split(":")[1] if ":" in res["free"]["out"] else ""))
        ctx.hist("crash_points", len(res["crashes"]))
        ctx.hist("mid_write_points", sum(1 for c in res["crashes"] if c["mid"]))
        ctx.hist("orphan_complete_artifact_states", sum(1 for c in res["crashes"] if any(d not in c["obs"]["raw_ds"] for d, _ in c["obs"]["files"])))
        ctx.hist("temporary_file_states", sum(1 for c in res["crashes"] if c["obs"]["odd"]))
        if shared:
            ctx.hist("shared_artifact_states", sum(1 for c in res["crashes"] if len({r[1] for r in c["obs"]["raw_recs_id"]}) < len(c["obs"]["raw_recs_id"])))
            if nontrivial_shared(sc, res):
                ctx.nontrivial({"pre": sc["pre"], "op": sc["op"]})
            scases.append(sccase(sc, res))
            smeta.append((sc, res, org))
            continue
        if nontrivial_rule(sc, res):
            ctx.nontrivial({"pre": sc["pre"], "op": sc["op"]})
        cases.append(ccase(sc, res))
        meta.append((sc, res, org))
        if res["free"]["out"] == "Ok":
            gone, came = observed_order(res)
            op = sc["op"]
            skels.append((len(meta) - 1, "(" + cprog(sc["pre"]) + ", " + cprog([op], gone) + ", "
                          + nl(abstract_trace(res["free"]["trace"], op[0])) + ")"))
    if meta:
        sc, res, org = meta[min(len(meta) - 1, ncorpus)]
        ctx.sample({"origin": org, "pre": sc["pre"], "op": sc["op"], "trace": res["free"]["trace"],
                    "crash_observations": [{"at": c["at"], "mid": c["mid"], "rows": [c["obs"][k] for k in ("raw_ds", "raw_loc", "raw_trash", "raw_recs")],
                                            "files": c["obs"]["files"], "tmp": [v for _, v in c["obs"]["odd"]], "get": c["obs"]["get"]}
                                           for c in res["crashes"]][:40]})
        ctx.sample({"coq_case_prefix": cases[min(len(meta) - 1, ncorpus)][:1500]})

    bad = ctx.coq_cases("crash", HDR, cases, f"chk_case {UNIV}", shard=4 if ctx.quick else 8, timeout=900)
    bad_set = set(bad or [])
    for i in (bad or [])[:5]:
        sc, res, org = meta[i]
        rc, txt = ctx.coq_eval("where", HDR, f"chk_where {UNIV} ({cases[i]})")
        m = re.search(r"=\s*(\d+)\s*\n?\s*:\s*N", txt)
        where = int(m.group(1)) if m else -1
        detail = {1: "the state after the fault-free pre-history", 2: "the sequence of distinct crash states"}.get(
            where, f"crash point #{where - 10} (at event {res['crashes'][where - 10]['at'] if 10 <= where < 10 + len(res['crashes']) else '?'}) or its follow-ups")
        extra = ""
        if where == 2:
            rc2, txt2 = ctx.coq_eval("seq", HDR, f"model_seq {UNIV} ({cases[i]})")
            extra = " model sequence: " + " ".join(txt2.split())[:900]
        ctx.disagreement("crash", {"origin": org, "pre": sc["pre"], "op": sc["op"], "trace": res["free"]["trace"]},
                         f"model differs on {detail}.{extra}")

    if scases:
        ctx.sample({"shared_coq_case_prefix": scases[0][:1200]})
        bad_s = ctx.coq_cases("shared", HDR_S, scases, f"chk_scase {UNIV}", shard=4 if ctx.quick else 8, timeout=900)
        for i in (bad_s or [])[:5]:
            sc, res, org = smeta[i]
            rc, txt = ctx.coq_eval("swhere", HDR_S, f"chk_swhere {UNIV} ({scases[i]})")
            m = re.search(r"=\s*(\d+)\s*\n?\s*:\s*N", txt)
            where = int(m.group(1)) if m else -1
            detail = {1: "the state after the fault-free pre-history", 2: "the sequence of distinct crash states"}.get(
                where, f"crash point #{where - 10} (at event {res['crashes'][where - 10]['at'] if 10 <= where < 10 + len(res['crashes']) else '?'}) or its follow-ups")
            extra = ""
            if where in (1, 2):
                rc2, txt2 = ctx.coq_eval("sseq", HDR_S, f"{'smodel_pre' if where == 1 else 'smodel_seq'} {UNIV} ({scases[i]})")
                extra = " model: " + " ".join(txt2.split())[:900]
            ctx.disagreement("shared", {"origin": org, "pre": sc["pre"], "op": sc["op"], "trace": res["free"]["trace"], "model": False},
                             f"shared-artifact model differs on {detail}.{extra}")

    if skels:
        sbad = ctx.coq_cases("skel", HDR + "Definition chk_skel (c : list op * list op * list N) : bool := "
                             "list_eqb N.eqb (skeleton (fst (fst c)) (snd (fst c))) (snd c).\n",
                             [s for _, s in skels], "chk_skel", shard=200)
        for j in (sbad or []):
            i, lit = skels[j]
            sc, res, org = meta[i]
            note = {"origin": org, "op": sc["op"], "abstract_trace": abstract_trace(res["free"]["trace"], sc["op"][0])}
            if i in bad_set:
                continue        # already reported as a disagreement
            ctx.cov["structural_drift"].append(note)
        ctx.cov["ties"]["K:skel"] = "ok" if not sbad else f"{len(sbad)} skeleton differences (structural drift only)"

    if ctx.broken and not ctx.oracle_failures and not ctx.replay:
        ctx.log("obligation/tie broken without oracle failure: searching deeper on the implementation")
        extra = [gen_scenario(ctx.rng, KINDS[k % len(KINDS)]) for k in range(16 if ctx.quick else 64)]
        res = execute(ctx, extra, "all")
        for k, (sc, r) in enumerate(zip(extra, res)):
            if r is not None:
                (check_scenario if sc.get("model", True) else check_shared)(ctx, sc, r, f"search/{k}")
        ctx.cov["search"] = (f"{len(extra)} further scenarios with every event as a crash point on the implementation; "
                             f"oracle failures found: {len(ctx.oracle_failures)}")
