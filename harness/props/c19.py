"""C19 -- Export/import and butler-to-butler transfer reproduce the selection exactly.

Pipeline: build Props/C19.vo (theorems over Model/Transfer.v) -> corpus + generated cases (source repository, empty or
partially pre-populated / conflicting target, 2-5 export+import_ / transfer_from actions, repeated on purpose) run on
REAL SQLite + POSIX-datastore repositories (harness/impl/c19_impl.py) -> property oracle written from the statement
(this file, `oracle`) on the implementation's observations -> the same cases replayed on the Coq model with vm_compute
(Model/TransferCheck.v chk_case) and compared observable by observable after every action.
"""
from __future__ import annotations

import glob
import json
import os
import random
import re

from harness.common import Ctx, VERIF, cn, clist, cbool, parallel_workers, coq_make

HDR = "From Coq Require Import NArith List Bool.\nFrom V Require Import Model.Transfer Model.TransferCheck.\nImport ListNotations.\nOpen Scope N_scope.\n"
LOST, OTHER, SHAPE, UNSTORED = 999001, 999002, 999003, 999004
KINDS = {1: "RUN", 2: "TAGGED", 3: "CHAINED", 4: "CALIB"}
SRC_KIND = {0: 1, 1: 1, 7: 1, 2: 2, 6: 2, 3: 4, 4: 3, 5: 3, 8: 3}    # collection name -> kind in the source
SRC_TYPE = {0: 0, 1: 1, 2: 2}                                             # type name -> definition code (1 = calibration)
NDET = 2
OUT_CODE = {"Ok": 0, "Err:Conflict": 2, "Err:MissingCollection": 3, "Err:MissingDatasetType": 4, "Err:CollectionTypeErr": 5,
            "Err:DataIdValueErr": 6, "Err:Cycle": 7, "Err:SqlError": 8, "Err:FileNotFoundError": 9, "Err:NotFound": 9,
            "Err:ValueError": 10, "Err:RuntimeError": 10}
IMPORT_MODES = ["copy", "copy", "auto", "symlink", "move", "direct"]   # move: the export directory is scratch
XFER_MODES = ["copy", "copy", "auto", "hardlink", "symlink", "direct"]


def E(**k):
    return dict({"dims": [], "types": [], "colls": [], "dsets": [], "tags": [], "calibs": []}, **k)


# ------------------------------------------------------------------------------------------------ generator
def dim_keys(d):
    return [100 + d // NDET, d]


def normalize(st, payload):
    """Add what the datasets of a state description need (dimension records, types, runs) so that it can be built."""
    dims = dict((k, p) for k, p in st["dims"])
    types = dict((t, c) for t, c in st["types"])
    colls = {c: (k, ch) for c, k, ch in st["colls"]}
    for n, t, d, run, v in st["dsets"]:
        for k in dim_keys(d):
            dims.setdefault(k, payload(k))
        types.setdefault(t, SRC_TYPE[t])
        colls.setdefault(run, (1, []))
    for k in [k for k in dims if k < 100]:
        dims.setdefault(100 + k // NDET, payload(100 + k // NDET))
    for c, (k, ch) in list(colls.items()):
        for x in ch:
            colls.setdefault(x, (SRC_KIND.get(x, 2), []))
    # children must be registered before parents: order by chain depth
    def depth(c, seen=()):
        k, ch = colls[c]
        if k != 3 or c in seen:
            return 0
        return 1 + max([depth(x, seen + (c,)) for x in ch] or [0])
    st["dims"] = sorted([k, p] for k, p in dims.items())
    st["types"] = sorted([t, c] for t, c in types.items())
    st["colls"] = [[c, colls[c][0], colls[c][1]] for c in sorted(colls, key=lambda c: (depth(c), c))]
    return st


def gen_source(rng: random.Random):
    pay = lambda k: rng.randrange(1, 4)
    st = E()
    cs = [c for c in SRC_KIND if rng.random() < 0.8]
    for must in (0, 2, 3, 4):
        if must not in cs:
            cs.append(must)
    colls = {}
    corder = rng.sample([4, 5, 8], 3)
    for c in sorted(cs):
        k = SRC_KIND[c]
        ch = []
        if k == 3:
            # acyclic by construction: a chain may only contain chains that come earlier in a per-case random order of
            # the chain names (so a child chain's name may sort AFTER its parent's), nesting up to depth 3
            pool = [x for x in cs if SRC_KIND[x] != 3 or corder.index(x) < corder.index(c)]
            ch = rng.sample(pool, min(len(pool), rng.randrange(0, 4)))
            for prev in (x for x in corder[:corder.index(c)] if x in cs):
                if rng.random() < 0.6 and prev not in ch:
                    ch.insert(rng.randrange(0, len(ch) + 1), prev)
        colls[c] = (k, ch)
    st["colls"] = [[c, k, ch] for c, (k, ch) in colls.items()]
    runs = [c for c in cs if SRC_KIND[c] == 1]
    nds = rng.randrange(3, 9)
    used = set()
    n = 0
    for _ in range(nds):
        t, d, run = rng.randrange(3), rng.randrange(4), rng.choice(runs)
        if (t, d, run) in used:
            continue
        used.add((t, d, run))
        n += 1
        st["dsets"].append([n, t, d, run, -1 if rng.random() < 0.08 else 10 + n])
    for c in cs:
        if SRC_KIND[c] == 2:
            seen = set()
            for n_, t, d, run, v in st["dsets"]:
                if rng.random() < 0.5 and (t, d) not in seen:
                    seen.add((t, d))
                    st["tags"].append([c, n_])
        if SRC_KIND[c] == 4:
            nxt = {}
            for n_, t, d, run, v in st["dsets"]:
                if SRC_TYPE[t] == 1 and rng.random() < 0.8 and nxt.get((t, d), 0) < 90:
                    b = nxt.get((t, d), rng.randrange(0, 3))
                    e = 90 if rng.random() < 0.2 else b + rng.randrange(1, 4)      # 90 = unbounded end
                    nxt[(t, d)] = e + rng.randrange(0, 2)                          # adjacent half of the time
                    st["calibs"].append([c, n_, b, e])
    return normalize(st, pay)


def gen_target(rng: random.Random, src):
    """empty | partial copy of the source (same ids, same definitions: the realistic pre-populated target) | partial copy
    with one deliberate clash."""
    r = rng.random()
    if r < 0.3:
        return E(), "empty"
    st = E()
    keep = [x for x in src["dsets"] if rng.random() < 0.5]
    st["dsets"] = [list(x) for x in keep]
    kept = {x[0] for x in keep}
    ckind = {c: k for c, k, ch in src["colls"]}
    st["colls"] = [[c, k, list(ch)] for c, k, ch in src["colls"] if rng.random() < 0.5 and k != 3]
    have = {c for c, _, _ in st["colls"]} | {x[3] for x in keep}
    st["tags"] = [list(p) for p in src["tags"] if p[1] in kept and p[0] in have and rng.random() < 0.6]
    st["calibs"] = [list(p) for p in src["calibs"] if p[1] in kept and p[0] in have and rng.random() < 0.5]
    st["dims"] = [list(p) for p in src["dims"] if rng.random() < 0.4]
    st["types"] = [list(p) for p in src["types"] if rng.random() < 0.5]
    srcpay = dict((k, p) for k, p in src["dims"])
    label = "partial"
    if r > 0.6:
        label = "clash"
        kind = rng.choice(["dimpayload", "typedef", "collkind", "sameid-otherdata", "sameid-otherrun", "samekey-otherid",
                           "chain", "othercontent", "unstored", "tagclash", "calibclash", "cycle"])
        label += ":" + kind
        ds = src["dsets"]
        x = rng.choice(ds)
        if kind == "dimpayload":
            k = rng.choice(list(srcpay))
            st["dims"] = [p for p in st["dims"] if p[0] != k] + [[k, srcpay[k] + 4]]
        elif kind == "typedef":
            t = x[1]
            st["types"] = [p for p in st["types"] if p[0] != t] + [[t, (SRC_TYPE[t] + rng.choice([1, 2])) % 3]]
            st["dsets"] = [y for y in st["dsets"] if y[1] != t]
            st["tags"] = [p for p in st["tags"] if p[1] in {y[0] for y in st["dsets"]}]
            st["calibs"] = []
        elif kind == "collkind":
            c = rng.choice([c for c in ckind])
            if not any(y[3] == c for y in st["dsets"]) :
                nk = rng.choice([k for k in (1, 2, 4, 3) if k != ckind[c]])
                st["colls"] = [p for p in st["colls"] if p[0] != c] + [[c, nk, []]]
                st["tags"] = [p for p in st["tags"] if p[0] != c]
                st["calibs"] = [p for p in st["calibs"] if p[0] != c]
        elif kind in ("sameid-otherdata", "sameid-otherrun", "samekey-otherid", "othercontent", "unstored"):
            st["dsets"] = [y for y in st["dsets"] if y[0] != x[0] and (y[1], y[2], y[3]) != (x[1], x[2], x[3])]
            st["tags"] = [p for p in st["tags"] if p[1] != x[0]]
            st["calibs"] = [p for p in st["calibs"] if p[1] != x[0]]
            y = list(x)
            if kind == "sameid-otherdata":
                y[2] = (x[2] + 1) % 4
            elif kind == "sameid-otherrun":
                y[3] = 7 if x[3] != 7 else 0
            elif kind == "samekey-otherid":
                y[0] = 50 + x[0]
            elif kind == "othercontent":
                y[4] = 70 + x[0]
            else:
                y[4] = -1
            if kind != "unstored" and y[4] < 0:
                y[4] = 60
            if not any((z[1], z[2], z[3]) == (y[1], y[2], y[3]) for z in st["dsets"]):
                st["dsets"].append(y)
        elif kind == "chain":
            st["colls"] = [p for p in st["colls"] if p[0] != 4] + [[4, 3, [c for c in (1, 0) if rng.random() < 0.7]]]
        elif kind == "cycle":
            # the target already chains 5 under 4 (the source chains 4 under 5)
            st["colls"] = [p for p in st["colls"] if p[0] not in (4, 5)] + [[5, 3, []], [4, 3, [5]]]
        elif kind == "tagclash" and src["tags"]:
            c, n_ = rng.choice(src["tags"])
            d0 = next(y for y in ds if y[0] == n_)
            other = [60 + n_, d0[1], d0[2], 7 if d0[3] != 7 else 0, 66]
            st["dsets"] = [y for y in st["dsets"] if (y[1], y[2], y[3]) != tuple(other[1:4])] + [other]
            st["tags"] = [p for p in st["tags"] if not (p[0] == c and p[1] == n_)] + [[c, other[0]]]
            st["colls"] = [p for p in st["colls"] if p[0] != c] + [[c, 2, []]]
        elif kind == "calibclash" and src["calibs"]:
            c, n_, b, e = rng.choice(src["calibs"])
            d0 = next(y for y in ds if y[0] == n_)
            other = [60 + n_, d0[1], d0[2], 7 if d0[3] != 7 else 0, 66]
            st["dsets"] = [y for y in st["dsets"] if (y[1], y[2], y[3]) != tuple(other[1:4])] + [other]
            st["calibs"] = [p for p in st["calibs"] if not (p[0] == c and dict((y[0], (y[1], y[2])) for y in ds).get(p[1]) == (d0[1], d0[2]))]
            st["calibs"].append([c, other[0], b + (e - b) // 2, e + 1])
            st["colls"] = [p for p in st["colls"] if p[0] != c] + [[c, 4, []]]
    # internal consistency of what remains (unique tag key per collection)
    seen = set()
    dd = {y[0]: y for y in st["dsets"]}
    tags = []
    for c, n_ in st["tags"]:
        if n_ in dd and (c, dd[n_][1], dd[n_][2]) not in seen:
            seen.add((c, dd[n_][1], dd[n_][2]))
            tags.append([c, n_])
    st["tags"] = tags
    st["calibs"] = [p for p in st["calibs"] if p[1] in dd]
    for c, _ in st["tags"]:
        if c not in {p[0] for p in st["colls"]}:
            st["colls"].append([c, 2, []])
    for p in st["calibs"]:
        if p[0] not in {q[0] for q in st["colls"]}:
            st["colls"].append([p[0], 4, []])
    pay = lambda k: srcpay.get(k, 1)
    return normalize(st, pay), label


def gen_actions(rng: random.Random, src):
    ids_all = [x[0] for x in src["dsets"]]
    stored = [x[0] for x in src["dsets"] if x[4] >= 0]
    cs_all = [c for c, _, _ in src["colls"]]
    acts = []
    for _ in range(rng.randrange(1, 4)):
        pool = stored if rng.random() < 0.85 else ids_all
        if rng.random() < 0.3:
            ids = list(pool)
        else:
            ids = rng.sample(pool, rng.randrange(0, len(pool) + 1)) if pool else []
        if rng.random() < 0.5:
            r = rng.random()
            cs = list(cs_all) if r < 0.4 else rng.sample(cs_all, rng.randrange(0, len(cs_all) + 1))
            a = ["ExIm", sorted(ids), sorted(cs), rng.choice(IMPORT_MODES)]
            r2 = random.Random(rng.randrange(1 << 30))     # separate stream: the choices below do not shift the main one
            if r2.random() < 0.6:
                # which association-carrying collections are exported: only CALIBRATION / only TAGGED / both / neither
                # (runs always allowed; chains left to the unconstrained branch above)
                ckind = {c: k for c, k, _ in src["colls"]}
                cat = r2.choice(["calib", "tagged", "both", "neither"])
                tagged = [c for c in cs_all if ckind[c] == 2]
                calib = [c for c in cs_all if ckind[c] == 4]
                pick = [c for c in cs_all if ckind[c] == 1 and r2.random() < 0.4]
                if cat in ("calib", "both"):
                    pick += calib
                if cat in ("tagged", "both"):
                    pick += r2.sample(tagged, r2.randrange(1, len(tagged) + 1)) if tagged else []
                a[2] = sorted(set(pick))
                if cat != "neither" and len(ids) < len(pool):
                    a[1] = sorted(pool)                      # make sure the associations have their datasets
            if r2.random() < 0.5 and a[1]:
                a.append(r2.sample(a[1], len(a[1])))         # saveDatasets order = order of the dataset types in the context
        else:
            a = ["Xfer", sorted(ids), rng.choice(XFER_MODES), int(rng.random() < 0.75), int(rng.random() < 0.75)]
        acts.append(a)
        if rng.random() < 0.5:
            acts.append(list(a))         # repeated application
    return acts[:5]


def gen_case(rng):
    src = gen_source(rng)
    tgt, label = gen_target(rng, src)
    return {"src": src, "tgt": tgt, "actions": gen_actions(rng, src), "label": label}


# ------------------------------------------------------------------------------------------------ oracle
def _rows(o, k):
    return {tuple(x) for x in o[k]}


def oracle(ctx: Ctx, case, res, origin):
    """The property's statement evaluated on the implementation's observations.  Returns True when it failed."""
    failed = False

    def fail(sig, i, what):
        nonlocal failed
        failed = True
        ctx.oracle_fail(sig, {"case": {k: case[k] for k in ("src", "tgt", "actions")}, "origin": origin, "step": i}, what)

    S = res["src0"]
    Sds = {x[0]: tuple(x) for x in S["dsets"]}
    Scont = dict((n, v) for n, v in S["content"])
    Sdims = dict((k, p) for k, p in S["dims"])
    Stypes = dict((t, c) for t, c in S["types"])
    Skind = dict((c, k) for c, k in S["colls"])
    Schain = {}
    for c, pos, ch in S["chains"]:
        Schain.setdefault(c, []).append(ch)
    pre = res["tgt0"]
    prev_act, prev_out = None, None
    for i, (a, st) in enumerate(zip(case["actions"], res["steps"])):
        T, out = st["tgt"], st["out"]
        kindname = a[0]
        if not st.get("src_same", True):
            fail(f"source-changed:{kindname}", i, f"{a}: the source repository was modified")
        if T["probe_errors"]:
            fail(f"probe-error:{sorted(T['probe_errors'])[0]}", i, f"{a}: observing the target failed: {T['probe_errors']}")
        ids = a[1]
        saved = a[2] if kindname == "ExIm" else []
        moved = [n for n in ids if n in Sds and (kindname == "ExIm" or Scont.get(n, UNSTORED) < LOST)]
        Pds = {x[0]: tuple(x) for x in pre["dsets"]}
        Pcont = dict((n, v) for n, v in pre["content"])
        Tds = {x[0]: tuple(x) for x in T["dsets"]}
        Tcont = dict((n, v) for n, v in T["content"])
        Pchain, Tchain = {}, {}
        for c, pos, ch in pre["chains"]:
            Pchain.setdefault(c, []).append(ch)
        for c, pos, ch in T["chains"]:
            Tchain.setdefault(c, []).append(ch)
        Pkind, Tkind = dict(map(tuple, pre["colls"])), dict(map(tuple, T["colls"]))
        Pdims, Tdims = dict(map(tuple, pre["dims"])), dict(map(tuple, T["dims"]))
        Ptypes, Ttypes = dict(map(tuple, pre["types"])), dict(map(tuple, T["types"]))

        # -- "never duplicates or alters what is already there"
        for n, row in Pds.items():
            if Tds.get(n) != row:
                fail(f"altered:dataset:{kindname}", i, f"{a} ({out}): dataset {n} was {row}, now {Tds.get(n)}")
        if len(T["dsets"]) != len(Tds):
            fail(f"duplicated:dataset:{kindname}", i, f"{a}: duplicate dataset ids in {T['dsets']}")
        for n, v in Pcont.items():
            if v < LOST and Tcont.get(n) != v:
                what = "lost" if Tcont.get(n) == LOST else "changed"
                fail(f"altered:content-{what}:{kindname}:{'ok' if out == 'Ok' else 'refused'}", i,
                     f"{a} ({out}): the stored content of dataset {n}, already in the target, was {v} and is now {Tcont.get(n)}")
        for fld in ("tags", "calibs"):
            gone = _rows(pre, fld) - _rows(T, fld)
            if gone:
                fail(f"altered:{fld}:{kindname}", i, f"{a} ({out}): {fld} rows {sorted(gone)} disappeared")
        for k, p in Pdims.items():
            if Tdims.get(k) != p:
                fail(f"altered:dimension-record:{kindname}", i, f"{a}: dimension record {k} was {p}, now {Tdims.get(k)}")
        for t, c in Ptypes.items():
            if Ttypes.get(t) != c:
                fail(f"altered:dataset-type:{kindname}", i, f"{a}: dataset type {t} was {c}, now {Ttypes.get(t)}")
        for c, k in Pkind.items():
            if Tkind.get(c) != k:
                fail(f"altered:collection:{kindname}", i, f"{a}: collection {c} was {KINDS[k]}, now {Tkind.get(c)}")
        for c, ch in Pchain.items():
            if Tchain.get(c, []) != ch and not (out == "Ok" and c in saved):
                fail(f"altered:chain:{kindname}:{'ok' if out == 'Ok' else 'refused'}", i,
                     f"{a} ({out}): chain {c} was {ch}, now {Tchain.get(c, [])}")

        # -- "importing an export of any selection ... yields": with nothing in the target there is nothing to conflict
        #    with, so a well-formed request must be carried out
        pre_empty = not any(pre[k] for k in ("dims", "types", "colls", "dsets"))
        if out != "Ok" and pre_empty and all(n in Sds and Scont.get(n, UNSTORED) < LOST for n in ids):
            if kindname == "ExIm" and all(c in Skind for c in saved) and \
                    all(ch in saved or ch in {Sds[n][3] for n in ids} for c in saved for ch in Schain.get(c, [])):
                fail("refused-without-conflict:ExIm", i, f"{a} into an empty target was refused: {out} {st['msg'][:200]}")
            if kindname == "Xfer" and a[3] and a[4] and a[2] != "direct":
                fail("refused-without-conflict:Xfer", i, f"{a} into an empty target was refused: {out} {st['msg'][:200]}")

        # -- "conflicting definitions are refused rather than merged"
        if out == "Ok":
            for n in moved:
                if n in Pds and Pds[n] != Sds[n]:
                    fail(f"conflict-accepted:dataset:{kindname}", i, f"{a}: dataset {n} is {Sds[n]} in the source, {Pds[n]} in the target, and the operation succeeded")
                t = Sds[n][1]
                if t in Ptypes and Ptypes[t] != Stypes[t]:
                    fail(f"conflict-accepted:dataset-type:{kindname}", i, f"{a}: type {t} differs ({Stypes[t]} vs {Ptypes[t]}) and the operation succeeded")

        if out == "Ok":
            # -- "the same IDs, dataset types, data IDs, runs and file contents"
            for n in moved:
                if Tds.get(n) != Sds[n]:
                    fail(f"missing-or-different:dataset:{kindname}", i, f"{a}: dataset {n} is {Sds[n]} in the source, {Tds.get(n)} in the target")
                want = Pcont[n] if (n in Pcont and Pcont[n] < LOST) else Scont.get(n)
                if kindname == "Xfer" and n in Pcont and Pcont[n] == LOST:
                    want = LOST          # a record without artifact is "already there"; not this property's business
                if Tcont.get(n) != want:
                    fail(f"content-differs:{kindname}", i, f"{a}: content of dataset {n} is {Tcont.get(n)}, expected {want}")
                t = Sds[n][1]
                if Ttypes.get(t) != Stypes[t]:
                    fail(f"dataset-type-differs:{kindname}", i, f"{a}: type {t}: {Ttypes.get(t)} vs source {Stypes[t]}")
                if Tkind.get(Sds[n][3]) != 1:
                    fail(f"run-missing:{kindname}", i, f"{a}: run {Sds[n][3]} of dataset {n} is {Tkind.get(Sds[n][3])}")
                if kindname == "ExIm" or a[4]:
                    for k in dim_keys(Sds[n][2]):
                        if Tdims.get(k) != Sdims.get(k):
                            fail(f"dimension-record-differs:{kindname}", i,
                                 f"{a}: dimension record {k} of data id {Sds[n][2]} is {Tdims.get(k)} in the target, {Sdims.get(k)} in the source")
            # -- TAGGED memberships, validity ranges and chain definitions of the exported collections
            want_tags, want_cal = set(), set()
            for c in saved:
                if c not in Skind:
                    continue
                if Tkind.get(c) != Skind[c]:
                    fail(f"merged:collection-kind:{kindname}", i, f"{a}: collection {c} is {KINDS[Skind[c]]} in the source and {KINDS.get(Tkind.get(c))} in the target, import succeeded")
                    continue
                if Skind[c] == 3 and Tchain.get(c, []) != Schain.get(c, []):
                    fail(f"chain-differs:{kindname}", i, f"{a}: chain {c} is {Tchain.get(c, [])}, source {Schain.get(c, [])}")
                if Skind[c] == 2:
                    want_tags |= {(c2, n) for c2, n in _rows(S, "tags") if c2 == c and n in moved}
                if Skind[c] == 4:
                    want_cal |= {r for r in _rows(S, "calibs") if r[0] == c and r[1] in moved}
            if want_tags - _rows(T, "tags"):
                fail(f"tags-missing:{kindname}", i, f"{a}: TAGGED memberships {sorted(want_tags - _rows(T, 'tags'))} not reproduced")
            if want_cal - _rows(T, "calibs"):
                fail(f"calibs-missing:{kindname}", i, f"{a}: validity ranges {sorted(want_cal - _rows(T, 'calibs'))} not reproduced")
            # -- exactly the selection: nothing beyond it
            extra = set(Tds) - set(Pds) - set(moved)
            if extra:
                fail(f"extra:dataset:{kindname}", i, f"{a}: datasets {sorted(extra)} appeared but were not selected")
            if _rows(T, "tags") - _rows(pre, "tags") - want_tags:
                fail(f"extra:tags:{kindname}", i, f"{a}: tag rows {sorted(_rows(T, 'tags') - _rows(pre, 'tags') - want_tags)} appeared")
            if _rows(T, "calibs") - _rows(pre, "calibs") - want_cal:
                fail(f"extra:calibs:{kindname}", i, f"{a}: calib rows {sorted(_rows(T, 'calibs') - _rows(pre, 'calibs') - want_cal)} appeared")
            for k, p in Tdims.items():
                if k not in Pdims and Sdims.get(k) != p:
                    fail(f"extra:dimension-record:{kindname}", i, f"{a}: dimension record {k}={p} is not the source's")
            if prev_act == a and prev_out == "Ok":
                if {k: v for k, v in T.items() if k != "probe_errors"} != {k: v for k, v in pre.items() if k != "probe_errors"}:
                    fail(f"repeat-changed-state:{kindname}", i, f"{a}: the repeated operation changed the target")
        else:
            # -- refused: the target's datasets, contents, associations and records stay as they were (dataset types
            #    and collections may have been registered: registration is documented as outside the transaction)
            for fld in ("dsets", "tags", "calibs", "dims"):
                if _rows(T, fld) != _rows(pre, fld):
                    fail(f"refused-but-changed:{fld}:{kindname}", i, f"{a} ({out}): {fld} changed: +{sorted(_rows(T, fld) - _rows(pre, fld))} -{sorted(_rows(pre, fld) - _rows(T, fld))}")
            for n, v in Tcont.items():
                if n in Pcont and Pcont[n] >= LOST and v != Pcont[n]:
                    fail(f"refused-but-changed:content:{kindname}", i, f"{a} ({out}): dataset {n} content {Pcont[n]} -> {v}")
            for t, c in Ttypes.items():
                if t not in Ptypes and Stypes.get(t) != c:
                    fail(f"refused-but-changed:types:{kindname}", i, f"{a}: type {t}={c} appeared")
            if out.startswith("Err:") and out not in OUT_CODE:
                fail(f"unclean-error:{out}:{kindname}", i, f"{a}: {out} {st['msg']}")
        pre, prev_act, prev_out = T, a, out
    return failed


# ------------------------------------------------------------------------------------------------ Coq literals
def cll(rows):
    return clist(clist(cn(x) for x in r) for r in sorted(map(list, rows)))


def cstate(st):
    kinds = {1: "RUN", 2: "TAGGED", 3: "CHAINED", 4: "CALIB"}
    dims = clist(f"({cn(k)}, {cn(p)})" for k, p in st["dims"])
    types = clist(f"({cn(t)}, {cn(c)})" for t, c in st["types"])
    colls = clist(f"({cn(c)}, {kinds[k]})" for c, k, ch in st["colls"])
    chains = clist(f"({cn(c)}, {clist(cn(x) for x in ch)})" for c, k, ch in st["colls"] if k == 3)
    dsets = clist(f"D {cn(n)} {cn(t)} {cn(d)} {cn(r)}" for n, t, d, r, v in st["dsets"])
    stored = clist(f"({cn(n)}, (Some {cn(v)}, true))" for n, t, d, r, v in st["dsets"] if v >= 0)
    tags = clist(f"({cn(c)}, {cn(n)})" for c, n in st["tags"])
    calibs = clist(f"({cn(c)}, {cn(n)}, ({cn(b)}, {cn(e)}))" for c, n, b, e in st["calibs"])
    return f"(St {dims} {types} {colls} {chains} {dsets} {stored} {tags} {calibs})"


def cmode(m):
    return "Direct" if m == "direct" else "Copy"


def caction(a):
    if a[0] == "ExIm":
        return f"ExIm {cmode(a[3])} {clist(cn(x) for x in a[1])} {clist(cn(x) for x in a[2])}"
    return f"Xfer {cmode(a[2])} {clist(cn(x) for x in a[1])} {cbool(a[3])} {cbool(a[4])}"


def cobs(out, o):
    code = OUT_CODE.get(out, 99)
    return (f"(Obs {cn(code)} {cll(o['dims'])} {cll(o['types'])} {cll(o['colls'])} {cll(o['chains'])} {cll(o['dsets'])} "
            f"{cll(o['content'])} {cll(o['tags'])} {cll(o['calibs'])})")


def ccase(case, res):
    steps = clist(f"({caction(a)}, {cobs(s['out'], s['tgt'])})" for a, s in zip(case["actions"], res["steps"]))
    return f"({cstate(case['src'])}, {cstate(case['tgt'])}, {steps})"


# ================================================================================================ dimension-record closure
# (wave 4b) which rows of which dimension-element tables reach the target: transfer_from(transfer_dimensions=True),
# transfer_dimension_records_from and export + import_ for selections mixing dataset types over {visit, detector},
# {visit}, {exposure}, {detector}; sources with visit_definition, visit_detector_region, visit_system_membership rows.
HDR_D = "From Coq Require Import NArith List Bool.\nFrom V Require Import Model.TransferDims.\nImport ListNotations.\nOpen Scope N_scope.\n"
DIM_NAMES = {1: "instrument", 2: "day_obs", 3: "detector", 4: "group", 5: "physical_filter", 6: "visit_system", 7: "exposure",
             8: "visit", 9: "visit_definition", 10: "visit_detector_region", 11: "visit_system_membership"}
DIM_OPS = {0: "ExIm", 1: "Xfer", 2: "XDim"}
DIM_FIXED = [
    # the shape the populated-by walk needs: a {visit, detector} dataset with a region row and visit_system_membership rows
    {"src": {"dets": [1, 2], "vsys": [0], "exps": [10, 11], "visits": [20, 21], "vdef": [[20, 10], [21, 11]],
             "vsm": [[20, 0], [21, 0]], "vdr": [[20, 1], [20, 2], [21, 1], [21, 2]], "dsets": [[1, 0, 21, 1], [2, 3, 1, 0]]},
     "tgt": None, "op": 1, "sel": [1, 2]},
    {"src": {"dets": [1, 2], "vsys": [0], "exps": [10, 11], "visits": [20, 21], "vdef": [[20, 10], [21, 11]],
             "vsm": [[20, 0], [21, 0]], "vdr": [[20, 1], [20, 2], [21, 1], [21, 2]], "dsets": [[1, 0, 21, 1], [2, 3, 1, 0]]},
     "tgt": None, "op": 2, "sel": [1, 2]},
    # mixed selection: {visit, detector} + {visit} + {exposure}; two visit systems; visit 20 made of two exposures
    {"src": {"dets": [0, 1], "vsys": [0, 1], "exps": [10, 11, 12], "visits": [20, 21], "vdef": [[20, 10], [20, 12], [21, 11]],
             "vsm": [[20, 0], [21, 0], [21, 1]], "vdr": [[20, 0], [20, 1], [21, 1]],
             "dsets": [[1, 0, 20, 1], [2, 1, 21, 0], [3, 2, 11, 0], [4, 3, 0, 0]]},
     "tgt": {"dets": [1], "vsys": [0], "exps": [], "visits": [21], "vsm": [[21, 0]]}, "op": 1, "sel": [1, 2, 3, 4]},
    {"src": {"dets": [0, 1], "vsys": [0, 1], "exps": [10, 11, 12], "visits": [20, 21], "vdef": [[20, 10], [20, 12], [21, 11]],
             "vsm": [[20, 0], [21, 0], [21, 1]], "vdr": [[20, 0], [20, 1], [21, 1]],
             "dsets": [[1, 0, 20, 1], [2, 1, 21, 0], [3, 2, 11, 0], [4, 3, 0, 0]]},
     "tgt": None, "op": 0, "sel": [1, 2, 3, 4]},
]


def gen_dim_case(rng: random.Random):
    dets = sorted(rng.sample([0, 1, 2], rng.randrange(1, 4)))
    vsys = sorted(rng.sample([0, 1], rng.randrange(1, 3)))
    exps = sorted(rng.sample([10, 11, 12, 13], rng.randrange(1, 5)))
    visits = sorted(rng.sample([20, 21, 22, 23], rng.randrange(1, 5)))
    vdef = [[v, e] for v in visits for e in exps if v % 2 == e % 2 and rng.random() < 0.6]
    vsm = [[v, s] for v in visits for s in vsys if rng.random() < 0.6]
    vdr = [[v, d] for v in visits for d in dets if rng.random() < 0.6]
    dsets, used = [], set()
    for _ in range(rng.randrange(2, 7)):
        k = rng.choice([0, 0, 1, 1, 2, 3])
        a = rng.choice(visits) if k < 2 else (rng.choice(exps) if k == 2 else rng.choice(dets))
        b = rng.choice(dets) if k == 0 else 0
        if (k, a, b) not in used:
            used.add((k, a, b))
            dsets.append([len(dsets) + 1, k, a, b])
    ids = [x[0] for x in dsets]
    sel = sorted(rng.sample(ids, rng.randrange(1, len(ids) + 1)))
    tgt = None
    if rng.random() < 0.5:
        tv = [v for v in visits if rng.random() < 0.5]
        ts = [s_ for s_ in vsys if rng.random() < 0.5]
        tgt = {"dets": [d for d in dets if rng.random() < 0.5], "vsys": ts, "exps": [e for e in exps if rng.random() < 0.4],
               "visits": tv, "vsm": [p for p in vsm if p[0] in tv and p[1] in ts and rng.random() < 0.5]}
    return {"src": {"dets": dets, "vsys": vsys, "exps": exps, "visits": visits, "vdef": vdef, "vsm": vsm, "vdr": vdr, "dsets": dsets},
            "tgt": tgt, "op": rng.choice([0, 1, 1, 2]), "sel": sel}


def dim_reach(src, sel, op):
    """From the statement: (must, may) = records reachable from the selection's data IDs through required and implied
    elements (records inside the expanded data ID), and -- for the butler-to-butler operations -- through the elements
    populated by a dimension of the data ID (visit_definition, visit_system_membership of each visit, with the exposures,
    groups and visit systems they point at).  visit_detector_region rows of a visit beyond the (visit, detector) pairs named
    by a data ID are allowed, not demanded (the code copies them for some selections and not for others)."""
    defs = {n: (k, a, b) for n, k, a, b in src["dsets"]}
    must, may = set(), set()

    def visit(v):
        return {(1, 0, 0), (2, 1, 0), (5, v % 2, 0), (8, v, 0)}

    def exposure(e):
        return {(1, 0, 0), (2, 1, 0), (4, e, 0), (5, e % 2, 0), (7, e, 0)}

    for n in sel:
        k, a, b = defs[n]
        if k == 0:
            must |= visit(a) | {(3, b, 0)}
            if [a, b] in src["vdr"]:
                must.add((10, a, b))
        elif k == 1:
            must |= visit(a)
        elif k == 2:
            must |= exposure(a)
        else:
            must |= {(1, 0, 0), (3, a, 0)}
        if k < 2:
            extra = set()
            for v, e in src["vdef"]:
                if v == a:
                    extra |= {(9, v, e)} | exposure(e)
            for v, s_ in src["vsm"]:
                if v == a:
                    extra |= {(11, v, s_), (6, s_, 0)}
            may |= extra
            if op != 0:
                must |= extra
            for v, d in src["vdr"]:
                if v == a:
                    may |= {(10, v, d), (3, d, 0)}
    return must, may | must


def dim_oracle(ctx, case, res, origin):
    op = DIM_OPS[case["op"]]

    def fail(sig, what):
        ctx.oracle_fail(sig, {"dimcase": {k: case[k] for k in ("src", "tgt", "op", "sel")}, "origin": origin}, what)

    if res["out"] != "Ok":
        fail(f"dimrec-refused:{op}", f"{op} {case['sel']} refused: {res['out']} {res['msg'][:200]}")
        return
    if not res.get("src_same", True):
        fail(f"source-changed:{op}", f"{op}: the source repository was modified")
    pre, post, srows = ({tuple(r) for r in res[k]["rows"]} for k in ("tgt0", "tgt1", "src0"))
    must, may = dim_reach(case["src"], case["sel"], case["op"])
    if not must <= srows:
        ctx.tie_broken("harness", "dim_oracle", f"{origin}: oracle closure {sorted(must - srows)} is not in the source repository")
        return
    for r in sorted(pre - post):
        fail(f"dimrec-lost:{DIM_NAMES[r[0]]}:{op}", f"{op} {case['sel']}: record {r} of the target disappeared")
    for r in sorted(must - post):
        fail(f"dimrec-missing:{DIM_NAMES[r[0]]}:{op}",
             f"{op} of datasets {case['sel']} ({[x for x in case['src']['dsets'] if x[0] in case['sel']]}): {DIM_NAMES[r[0]]} record {r[1:]} "
             f"is reachable from the selection's data IDs in the source and is not in the target")
    for r in sorted(post - pre - may):
        fail(f"dimrec-extra:{DIM_NAMES[r[0]]}:{op}", f"{op} {case['sel']}: {DIM_NAMES[r[0]]} record {r[1:]} appeared but is not reachable from the selection")
    if case["op"] != 2 and sorted(set(res["tgt1"]["dsets"]) - set(res["tgt0"]["dsets"])) != sorted(case["sel"]):
        fail(f"dimrec-datasets:{op}", f"{op} {case['sel']}: datasets in the target afterwards {res['tgt1']['dsets']}")


def cdimcase(case, res):
    s = case["src"]
    pl = lambda l: clist(f"({cn(a)}, {cn(b)})" for a, b in l)
    rows = lambda l: clist(f"({cn(a)}, {cn(b)}, {cn(c)})" for a, b, c in l)
    defs = {n: (k, a, b) for n, k, a, b in s["dsets"]}
    sel = clist(f"({cn(defs[n][0])}, {cn(defs[n][1])}, {cn(defs[n][2])})" for n in case["sel"])
    return f"(DS {pl(s['vdef'])} {pl(s['vsm'])} {pl(s['vdr'])}, {rows(res['tgt0']['rows'])}, {cn(case['op'])}, {sel}, {rows(res['tgt1']['rows'])})"


def run_dims(ctx, cases, origins):
    payloads = [{"cases": cases[i:i + 4]} for i in range(0, len(cases), 4)]
    outs = parallel_workers("c19_impl", "run_dim_cases", payloads, timeout=600)
    coq, meta = [], []
    k = 0
    for (status, r), pay in zip(outs, payloads):
        if status != "ok":
            if status == "hang":
                ctx.oracle_fail("hang", {"dimcases": pay["cases"]}, "a worker running dimension-record cases did not return")
            else:
                ctx.tie_broken("harness", "worker", str(r)[-1500:])
            k += len(pay["cases"])
            continue
        for case, res in zip(pay["cases"], r):
            org = origins[k]
            k += 1
            if res.get("build") != "ok":
                ctx.tie_broken("harness", "dim_build", f"{org}: {res.get('build')}")
                continue
            ctx.count(11)
            ctx.hist("action", "dim:" + DIM_OPS[case["op"]])
            ctx.hist("outcome", res["out"])
            dim_oracle(ctx, case, res, org)
            kinds = {x[1] for x in case["src"]["dsets"] if x[0] in case["sel"]}
            if case["op"] != 0 and kinds & {0, 1} and (case["src"]["vsm"] or case["src"]["vdef"]):
                ctx.nontrivial({"dimcase": case})
            if res["out"] == "Ok":
                coq.append(cdimcase(case, res))
                meta.append((case, res, org))
    bad = ctx.coq_cases("dimcases", HDR_D, coq, "chk_dims", shard=40, timeout=600)
    for i in (bad or [])[:5]:
        case, res, org = meta[i]
        ctx.disagreement("dimcases", {"origin": org, "dimcase": case},
                         f"{DIM_OPS[case['op']]} {case['sel']}: dimension-element rows of the target differ from the model; observed {res['tgt1']['rows']}")
    return bad


# ------------------------------------------------------------------------------------------------ run
def nontrivial_rule(case, res):
    """at least one accepted action that added datasets to the target AND (a repeated action, or a refused action, or a
    pre-populated target)"""
    outs = [s["out"] for s in res["steps"]]
    grew = any(len(s["tgt"]["dsets"]) > len(res["tgt0"]["dsets"]) for s in res["steps"])
    rep = any(a == b for a, b in zip(case["actions"], case["actions"][1:]))
    return grew and (rep or any(o != "Ok" for o in outs) or bool(case["tgt"]["dsets"]))


def execute(ctx, cases, chunk=3, timeout=600):
    payloads = [{"cases": cases[i:i + chunk]} for i in range(0, len(cases), chunk)]
    outs = parallel_workers("c19_impl", "run_cases", payloads, timeout=timeout)
    results = []
    for k, (status, r) in enumerate(outs):
        n = len(payloads[k]["cases"])
        if status != "ok":
            for c in payloads[k]["cases"]:
                results.append(None)
            if status == "hang":
                ctx.oracle_fail("hang", {"cases": payloads[k]["cases"]}, f"a worker running {n} cases did not return within {timeout} s")
            else:
                ctx.tie_broken("harness", "worker", str(r)[-1500:])
        else:
            results.extend(r)
    return results


def load_known(ctx):
    frag = VERIF / "known_findings.d" / "C19.json"
    if frag.exists():
        have = {k["id"] for k in ctx.known}
        ctx.known += [k for k in json.loads(frag.read_text()) if k["id"] not in have and k["property"] == "C19"]


FIELDS = {1: "outcome class", 2: "dimension records", 3: "dataset types", 4: "collections", 5: "chain definitions",
          6: "dataset rows (id, type, data id, run)", 7: "stored contents", 8: "TAGGED memberships", 9: "validity ranges"}


def process(ctx, cases, origins, results):
    coq, meta = [], []
    for case, org, res in zip(cases, origins, results):
        if res is None:
            continue
        if res.get("build") != "ok":
            ctx.hist("build", "unbuildable description (skipped)")
            ctx.log(f"case {org} not buildable: {res.get('build')}")
            continue
        ctx.count(len(res["steps"]) * 9)
        for a, s in zip(case["actions"], res["steps"]):
            ctx.hist("action", a[0] + ":" + (a[3] if a[0] == "ExIm" else a[2]))
            if a[0] == "ExIm":
                kk = {c: k for c, k, _ in case["src"]["colls"]}
                ks = {kk.get(c) for c in a[2]}
                ctx.hist("exported_assoc_collections", ("both" if {2, 4} <= ks else "calib" if 4 in ks else "tagged" if 2 in ks else "neither")
                         + ("+order" if len(a) > 4 else ""))
            ctx.hist("outcome", s["out"])
        ctx.hist("target", case.get("label", "corpus"))
        oracle(ctx, case, res, org)
        if nontrivial_rule(case, res):
            ctx.nontrivial({k: case[k] for k in ("src", "tgt", "actions")})
        coq.append(ccase(case, res))
        meta.append((case, res, org))
    return coq, meta


def compare(ctx, name, coq, meta):
    inits = []
    for case, res, org in meta:
        inits.append(f"({cstate(case['src'])}, {cobs('Ok', res['src0'])})")
        inits.append(f"({cstate(case['tgt'])}, {cobs('Ok', res['tgt0'])})")
    bad0 = ctx.coq_cases(name + "_init", HDR, inits, "chk_init", shard=40, timeout=600)
    for i in (bad0 or [])[:3]:
        case, res, org = meta[i // 2]
        ctx.disagreement(name + "_init", {"origin": org, "which": "src" if i % 2 == 0 else "tgt",
                                          "state": case["src" if i % 2 == 0 else "tgt"]},
                         "the repository built from the description is not what the model reads from it")
    bad = ctx.coq_cases(name, HDR, coq, "chk_case", shard=20, timeout=600)
    for i in (bad or [])[:5]:
        case, res, org = meta[i]
        rc, txt = ctx.coq_eval(name + "_where", HDR, f"chk_where {coq[i]}")
        m = re.search(r"=\s*\[(\d+);\s*(\d+)\]", txt)
        if m:
            stp, fld = int(m.group(1)), int(m.group(2))
            a = case["actions"][stp]
            detail = (f"step {stp} {a} -> {res['steps'][stp]['out']} {res['steps'][stp]['msg'][:120]}: model differs on "
                      f"{FIELDS.get(fld, fld)}; observed {json.dumps({k: v for k, v in res['steps'][stp]['tgt'].items() if k != 'probe_errors'})[:500]}")
            ctx.log("DISAGREE " + org + " " + detail[:1500])
            ctx.disagreement(name, {"origin": org, "src": case["src"], "tgt": case["tgt"], "actions": case["actions"][: stp + 1]}, detail)
        else:
            ctx.disagreement(name, {"origin": org, "case": case}, "model differs (position not recovered): " + txt[-300:])
    return bad


def run(ctx: Ctx):
    load_known(ctx)
    ctx.assumptions += [
        "SQLite registry + POSIX FileDatastore, YAML export format, one dimension group {instrument, detector}; remote / "
        "PostgreSQL / chained or in-memory datastores, component and disassembled datasets, QuantumBackedButler sources, "
        "skip_dimensions, without_datastore, dry_run and transfer_from(transfer='move') (it empties the source datastore) are "
        "outside the model",
        "every transfer mode that places an artifact at the in-store path (copy, auto, link, hardlink, symlink, relsymlink, and "
        "move for import_) is "
        "one mode of the model ('Copy'); 'direct' is the other",
        "refs handed to export / transfer_from are the source registry's own refs (no forged refs); dataset ids are version-4 "
        "UUIDs (a direct-mode re-ingest of a version-5 id replaces the record instead of failing and is not modelled)",
        "the order in which transfer_from walks the source dataset types is a Python set order: when it fails while comparing "
        "/ registering dataset types the model only checks the error kind and that the types registered lie between the "
        "previous ones and previous + source",
    ]
    ctx.cov["rule"] = (
        "a case (source repository with RUN / TAGGED / CALIBRATION / nested CHAINED collections, 3-8 datasets of 3 dataset types; "
        "empty, partially pre-populated or deliberately clashing target; 1-5 export+import_ / transfer_from actions in 6 "
        "transfer modes, half of them repeated) is non-trivial when at least one action was accepted and added datasets "
        "to the target AND the case has a repeated action, a refused action or a pre-populated target; the whole "
        "observable target (records, types, collections, chains, dataset rows, contents through get, tags, validity "
        "ranges) is compared after every action; dimension-record cases (sources with visits, exposures, detectors, "
        "visit systems, visit_definition / visit_detector_region / visit_system_membership rows; dataset types over "
        "{visit, detector}, {visit}, {exposure}, {detector}; export+import_, transfer_from(transfer_dimensions=True), "
        "transfer_dimension_records_from; all 11 dimension-element tables of the target compared) are non-trivial when a "
        "butler-to-butler operation moves a dataset with a visit from a source that has populated-by rows"
    )
    props_ok = ctx.build_props(extra_targets=["Model/TransferCheck.vo", "Model/TransferDims.vo"])
    if not props_ok:
        coq_make(["Model/TransferCheck.vo", "Model/TransferDims.vo"])

    cases, origins = [], []
    dimcases, dimorigins = [], []
    if ctx.replay:
        j = json.load(open(ctx.replay))
        if j.get("dimcase") or j.get("dimcases"):
            run_dims(ctx, [j.get("dimcase") or j["dimcases"][0]], ["replay"])
            return
        c = j.get("case") or (j.get("cases") or [None])[0]
        cases, origins = [dict(c, label="replay")], ["replay"]
    else:
        for f in sorted(glob.glob(str(VERIF / "corpus" / "C19" / "*.json"))):
            j = json.load(open(f))
            cases.append(dict(j["case"], label="corpus"))
            origins.append("corpus/" + os.path.basename(f))
        n = 60 if ctx.quick else 400
        for k in range(n):
            cases.append(gen_case(ctx.rng))
            origins.append(f"seed{ctx.seed}/{k}")
        drng = random.Random(ctx.rng.randrange(1 << 30))
        dimcases = [json.loads(json.dumps(c)) for c in DIM_FIXED] + [gen_dim_case(drng) for _ in range(24 if ctx.quick else 200)]
        dimorigins = [f"dimfixed/{i}" for i in range(len(DIM_FIXED))] + [f"dimseed{ctx.seed}/{i}" for i in range(len(dimcases) - len(DIM_FIXED))]
    results = execute(ctx, cases, chunk=3 if ctx.quick else 6)
    coq, meta = process(ctx, cases, origins, results)
    if meta:
        case, res, org = meta[min(len(meta) - 1, 3)]
        ctx.sample({"origin": org, "src": case["src"], "tgt": case["tgt"], "actions": case["actions"],
                    "outcomes": [s["out"] for s in res["steps"]], "target_after": res["steps"][-1]["tgt"] if res["steps"] else None})
        ctx.sample({"coq_case": coq[min(len(meta) - 1, 3)][:1800]})
    compare(ctx, "cases", coq, meta)
    if dimcases:
        run_dims(ctx, dimcases, dimorigins)

    if ctx.broken and not ctx.oracle_failures and not ctx.replay:
        ctx.log("obligation/tie broken without oracle failure: searching deeper on the implementation")
        extra = [gen_case(ctx.rng) for _ in range(150 if ctx.quick else 400)]
        res = execute(ctx, extra, chunk=6)
        n0 = len(ctx.oracle_failures)
        for k, (c, r) in enumerate(zip(extra, res)):
            if r is not None and r.get("build") == "ok":
                oracle(ctx, c, r, f"search/{k}")
        ctx.cov["search"] = f"{len(extra)} further generated cases on the implementation; oracle failures found: {len(ctx.oracle_failures) - n0}"
