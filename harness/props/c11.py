"""C11 -- Timespans are half-open sets of nanoseconds, identically in Python and in SQL.

Tie T: Gen/TimespanGen.v regenerated from the method bodies; Props/C11.v re-proved over it.
Tie K: exhaustive endpoint-order-type grid, three-way: Python methods / SQLite evaluation of the compound
       representation's column expressions / Coq model (hand + generated) via vm_compute.
       Conversion: the binary64 operation sequence of nsec_to_astropy / astropy_to_nsec (Model/TimeConv.v, proved exact
       for every nanosecond of the range over Flocq's binary64 in Props/C11.v) instantiated with Coq primitive floats and
       compared BIT FOR BIT (float.hex) with the doubles Python / astropy / numpy produce.
Oracle: set semantics computed on elementary grid cells (independent of model and implementation); round trip exact,
       order preserved, nearest nanosecond against exact rational arithmetic for other formats / scales.
"""
from __future__ import annotations

import itertools
import json
import pickle
from fractions import Fraction

from harness.common import Ctx, cbool, clist, copt, cz
from harness.translators import timespan as tr


def cts(p):
    return f"({cz(p[0])}, {cz(p[1])})"


def csts(p):
    return "(None, None)" if p is None else f"(Some {cz(p[0])}, Some {cz(p[1])})"


def ctri(v):
    return "UU" if v is None else ("TT" if v else "FF")


def cfl(x):
    """Gallina primitive-float literal with exactly the bits of the Python double (float.hex())."""
    x = float(x)
    if x != x:
        return "PrimFloat.nan"
    if x in (float("inf"), float("-inf")):
        return "PrimFloat.infinity" if x > 0 else "PrimFloat.neg_infinity"
    return f"({x.hex()})%float"


def cfl2(a, b):
    return f"({cfl(a)}, {cfl(b)})"


class Grid:
    """Endpoints g_0 < ... < g_8; cell i = [g_i, g_{i+1}); a timespan with grid endpoints is a set of cells."""

    def __init__(self, mn, mx, a, b, c):
        self.pts = sorted({mn, mn + 1, a, a + 1, b, b + 1, c, mx - 1, mx})
        self.mn, self.mx = mn, mx
        self.idx = {p: i for i, p in enumerate(self.pts)}
        self.spans = [(p, q) for p in self.pts for q in self.pts if p < q]
        self.empty = (mx, mn)

    def cells(self, t):
        if t[0] >= t[1]:
            return frozenset()
        return frozenset(range(self.idx[t[0]], self.idx[t[1]]))

    def cell_of(self, x):
        return self.idx[x]  # instants are grid points; g_8 = MAX belongs to no span ending <= MAX

    def single(self, i):
        return self.pts[i + 1] - self.pts[i] == 1 if i + 1 < len(self.pts) else True


def set_oracle(g: Grid, a, b):
    """[isEmpty a, overlaps, contains, lt, gt, eq] from set semantics on cells."""
    A, B = g.cells(a), g.cells(b)
    ov = bool(A & B)
    ct = B <= A
    lt = bool(A) and bool(B) and max(A) < min(B)
    gt = bool(A) and bool(B) and min(A) > max(B)
    return [not A, ov, ct, lt, gt, A == B]


def from_cells(g: Grid, cells):
    """contiguous cell set -> (begin, end) or the canonical empty"""
    if not cells:
        return g.empty
    lo, hi = min(cells), max(cells)
    assert cells == frozenset(range(lo, hi + 1))
    return (g.pts[lo], g.pts[hi + 1])


def run(ctx: Ctx):
    from lsst.daf.butler import Timespan
    from lsst.daf.butler.time_utils import TimeConverter

    ctx.assumptions += [
        "SQLite evaluates integer comparisons and AND with NULL as Kleene logic (checked against the model on every run)",
        "conversion: every binary64 operation of nsec_to_astropy / astropy_to_nsec (incl. astropy day_frac/two_sum/two_product/split, numpy round) "
        "is round-to-nearest-even of the exact result (Flocq FLT(-1074,53) model, no overflow); the operation SEQUENCE is Model/TimeConv.v, "
        "compared bit for bit (float.hex) with Python on every run through its primitive-float instance",
        "Coq primitive floats (vm_compute) implement IEEE 754 binary64 (used by the correspondence only, not by the theorems)",
        "translator harness/translators/timespan.py (Python ast -> Gallina) is trusted; its output is also compared with the implementation on the grid",
    ]
    ctx.cov["rule"] = (
        "exhaustive over endpoint order types: all timespans with endpoints in a 9-point grid "
        "{MIN, MIN+1, a, a+1, b, b+1, c, MAX-1, MAX} plus the empty one (and NULL for SQL); every ordered pair, "
        "every (timespan, grid instant) pair, triples for n-ary intersection; a case is non-trivial when its two "
        "operands are distinct and both non-empty; conversion cases are distinct nanosecond values"
    )
    # ---- tie T + obligations
    gen_ok = ctx.regen("timespan", tr.translate)
    props_ok = ctx.build_props(extra_targets=["Model/TimespanCheck.vo", "Model/TimespanCheckGen.vo", "Model/TimeConvPrim.vo"])
    if not props_ok:
        # the hand checkers must still be available for the search
        from harness.common import coq_make
        coq_make(["Model/TimespanCheck.vo"])

    conv = TimeConverter()
    mn, mx = conv.min_nsec, conv.max_nsec

    def T(p):
        return Timespan(None, None, _nsec=tuple(p))

    grids = [Grid(mn, mx, 1000, 2000, 3000)]
    if not ctx.quick:
        grids.append(Grid(mn, mx, 10**18, 2 * 10**18, 3 * 10**18))
        grids.append(Grid(mn, mx, 5, 7, 9))
        r = ctx.rng
        for _ in range(2):
            a, b, c = sorted(r.sample(range(3, mx - 3), 3))
            if b - a > 1 and c - b > 1:
                grids.append(Grid(mn, mx, a, b, c))

    pair_cases, inst_cases, sql_pair_cases, sql_inst_cases, inter_cases, mk_cases = [], [], [], [], [], []
    pair_meta, inst_meta = [], []

    for g in grids:
        spans = g.spans + [g.empty]
        objs = {s: T(s) for s in spans}
        # canonicalisation of every (b, e) over grid points, incl. b >= e
        for p in g.pts:
            for q in g.pts:
                t = T((p, q))
                ctx.count()
                want = (p, q) if p < q else g.empty
                if tuple(t.nsec) != want:
                    ctx.oracle_fail(f"mk:{_ot(g, (p, q))}", {"op": "Timespan(_nsec=)", "nsec": [p, q], "got": list(t.nsec), "want": list(want)},
                                    "construction does not canonicalise to a single empty value")
                mk_cases.append(f"({cz(p)}, {cz(q)}, {cts(tuple(t.nsec))})")
        # SQL evaluation of all pairs in one query
        sql_pairs, sql_insts = _sql_eval(spans, g.pts)
        for a in spans:
            for b in spans:
                ta, tb = objs[a], objs[b]
                got = [ta.isEmpty(), ta.overlaps(tb), ta.contains(tb), ta < tb, ta > tb, ta == tb]
                inter = tuple(ta.intersection(tb).nsec)
                diff = [tuple(d.nsec) for d in ta.difference(tb)]
                want = set_oracle(g, a, b)
                ctx.count()
                case = {"a": list(a), "b": list(b)}
                if a != b and a != g.empty and b != g.empty:
                    ctx.nontrivial(case)
                ctx.hist("relation", "".join("1" if x else "0" for x in want))
                names = ["isEmpty", "overlaps", "contains", "__lt__", "__gt__", "__eq__"]
                for nm, gv, wv in zip(names, got, want):
                    if bool(gv) != wv:
                        ctx.oracle_fail(f"{nm}:{_ot(g, a)}:{_ot(g, b)}", dict(case, op=nm, got=gv, want=wv),
                                        f"Timespan.{nm} disagrees with set semantics")
                if (ta == tb) and hash(ta) != hash(tb):
                    ctx.oracle_fail(f"hash:{_ot(g, a)}:{_ot(g, b)}", dict(case, op="hash"), "equal timespans with different hashes")
                A, B = g.cells(a), g.cells(b)
                want_inter = from_cells(g, A & B)
                if inter != want_inter:
                    ctx.oracle_fail(f"intersection:{_ot(g, a)}:{_ot(g, b)}", dict(case, op="intersection", got=list(inter), want=list(want_inter)),
                                    "intersection is not the set intersection (canonical empty)")
                # difference: pieces non-empty (unless a is), disjoint, union = A - B
                pcs = [g.cells(d) if d[0] in g.idx and d[1] in g.idx else None for d in diff]
                bad = any(p is None for p in pcs)
                if not bad:
                    union = frozenset().union(*pcs) if pcs else frozenset()
                    disjoint = sum(len(p) for p in pcs) == len(union)
                    nonempty = all(p for p in pcs) or not A
                    canonical = all(d == from_cells(g, p) for d, p in zip(diff, pcs))
                    bad = not (union == A - B and disjoint and nonempty and canonical)
                if bad:
                    ctx.oracle_fail(f"difference:{_ot(g, a)}:{_ot(g, b)}", dict(case, op="difference", got=[list(d) for d in diff]),
                                    "difference pieces are not a disjoint cover of a minus b")
                # SQL vs Python (same operands => same answer)
                srow = sql_pairs[(a, b)]
                for nm, sv_, pv in zip(["isEmpty", "overlaps", "contains", "__lt__", "__gt__"], srow[:5], got[:5]):
                    if sv_ is None or bool(sv_) != bool(pv):
                        ctx.oracle_fail(f"sql-{nm}:{_ot(g, a)}:{_ot(g, b)}", dict(case, op="sql " + nm, sql=sv_, python=pv),
                                        "SQL form of the operation differs from the Python form")
                pair_cases.append(f"({cts(a)}, {cts(b)}, ({clist(cbool(x) for x in got)}, {cts(inter)}, {clist(cts(d) for d in diff)}))")
                pair_meta.append(case)
        # NULL operands on the SQL side
        for (a, b), row in sql_pairs.items():
            sql_pair_cases.append(f"({csts(a)}, {csts(b)}, {clist(ctri(v) for v in row)})")
            if a is None or b is None:
                ctx.count()
                if any(v for v in row[1:5] if v is not None and v):
                    ctx.oracle_fail(f"sql-null:{a}:{b}", {"a": a, "b": b, "row": row}, "NULL timespan satisfied a relationship")
        # instants
        for a in spans:
            ta = objs[a]
            for x in g.pts:
                tx = conv.nsec_to_astropy(x)
                back = conv.astropy_to_nsec(tx)
                if back != x:
                    ctx.oracle_fail(f"conv-grid:{x}", {"nsec": x, "back": back}, "nsec -> astropy -> nsec is not exact")
                got = [ta.contains(tx), ta.overlaps(tx), ta < tx, ta > tx]
                A = g.cells(a)
                isin = a[0] <= x < a[1]
                want = [isin, isin, bool(A) and a[1] <= x, bool(A) and a[0] > x]
                ctx.count()
                case = {"a": list(a), "instant": x}
                if A:
                    ctx.nontrivial(case)
                for nm, gv, wv in zip(["contains", "overlaps", "__lt__", "__gt__"], got, want):
                    if bool(gv) != wv:
                        ctx.oracle_fail(f"{nm}-instant:{_ot(g, a)}:{g.idx[x]}", dict(case, op=nm, got=gv, want=wv),
                                        f"Timespan.{nm}(Time) disagrees with set semantics")
                srow = sql_insts[(a, x)]
                for nm, sv_, pv in zip(["contains", "overlaps", "__lt__", "__gt__"], srow, got):
                    if sv_ is None or bool(sv_) != bool(pv):
                        ctx.oracle_fail(f"sql-{nm}-instant:{_ot(g, a)}:{g.idx[x]}", dict(case, op="sql " + nm, sql=sv_, python=pv),
                                        "SQL form (instant) differs from the Python form")
                inst_cases.append(f"({cts(a)}, {cz(x)}, {clist(cbool(v) for v in got)})")
                inst_meta.append(case)
        for (a, x), row in sql_insts.items():
            sql_inst_cases.append(f"({csts(a)}, {copt(x, cz)}, {clist(ctri(v) for v in row)})")
        # n-ary intersection on triples (associativity / order independence), thorough: all, quick: sampled
        trip = list(itertools.product(spans, repeat=3))
        if ctx.quick:
            trip = ctx.rng.sample(trip, 3000)
        for a, b, c in trip:
            r = tuple(objs[a].intersection(objs[b], objs[c]).nsec)
            want = from_cells(g, g.cells(a) & g.cells(b) & g.cells(c))
            ctx.count()
            if r != want:
                ctx.oracle_fail(f"intersection3:{_ot(g, a)}:{_ot(g, b)}:{_ot(g, c)}", {"a": a, "b": b, "c": c, "got": r, "want": want},
                                "n-ary intersection is not the set intersection")
            inter_cases.append(f"({cts(a)}, {clist([cts(b), cts(c)])}, {cts(r)})")
        # serialised forms
        _serial(ctx, g, objs)

    ctx.sample({"pair": pair_meta[17], "coq_case": pair_cases[17]})
    ctx.sample({"instant": inst_meta[5], "coq_case": inst_cases[5]})
    ctx.sample({"sql_case": sql_pair_cases[3]})

    # ---- model vs implementation (vm_compute)
    hdr = "From Coq Require Import ZArith List.\nFrom V Require Import Base.Tri Model.Timespan Model.TimespanCheck.\nImport ListNotations.\n"
    MAXC = cz(mx)
    for name, cases, chk, meta in (
        ("pair_hand", pair_cases, f"chk_pair_hand {MAXC}", pair_meta),
        ("inst_hand", inst_cases, "chk_inst_hand", inst_meta),
        ("inter_hand", inter_cases, f"chk_inter_hand {MAXC}", None),
        ("mk_hand", mk_cases, f"chk_mk_hand {MAXC}", None),
    ):
        bad = ctx.coq_cases(name, hdr, cases, chk, shard=1500)
        for i in (bad or [])[:5]:
            ctx.disagreement(name, {"case": cases[i], "meta": meta[i] if meta else None}, "hand model differs from implementation")
    if gen_ok:
        hdrg = hdr + "From V Require Import Gen.TimespanGen Model.TimespanCheckGen.\n"
        for name, cases, chk in (
            ("pair_gen", pair_cases, "chk_pair_gen"), ("inst_gen", inst_cases, "chk_inst_gen"), ("mk_gen", mk_cases, "chk_mk_gen"),
            ("sql_pair", sql_pair_cases, "chk_sql_pair"), ("sql_inst", sql_inst_cases, "chk_sql_inst"),
        ):
            bad = ctx.coq_cases(name, hdrg, cases, chk, shard=1500)
            for i in (bad or [])[:5]:
                ctx.disagreement(name, {"case": cases[i]}, "regenerated model differs from implementation (translator or SQL semantics)")

    ctx.log("timespan grids compared")
    _conversion(ctx, conv)


def _ot(g: Grid, t):
    """order-type signature of a timespan on its grid (stable across grids)"""
    if t is None:
        return "NULL"
    return f"{g.idx.get(t[0], '?')}-{g.idx.get(t[1], '?')}"


def _sql_eval(spans, pts):
    """Evaluate the compound representation's expressions in SQLite for all pairs (incl. NULL)."""
    import sqlalchemy as sa
    from lsst.daf.butler.timespan_database_representation import TimespanDatabaseRepresentation as TDR

    C = TDR.Compound
    eng = sa.create_engine("sqlite://")
    md = sa.MetaData()
    t = sa.Table("t", md, sa.Column("id", sa.Integer, primary_key=True),
                 sa.Column("ts_begin", sa.BigInteger, nullable=True), sa.Column("ts_end", sa.BigInteger, nullable=True))
    p = sa.Table("p", md, sa.Column("id", sa.Integer, primary_key=True), sa.Column("x", sa.BigInteger, nullable=True))
    md.create_all(eng)
    rows = list(spans) + [None]
    xs = list(pts) + [None]
    with eng.begin() as c:
        c.execute(t.insert(), [{"id": i, "ts_begin": None if s is None else s[0], "ts_end": None if s is None else s[1]} for i, s in enumerate(rows)])
        c.execute(p.insert(), [{"id": i, "x": x} for i, x in enumerate(xs)])
    import warnings as _w
    _w.filterwarnings("ignore", message=".*cartesian product.*")
    a, b = t.alias("a"), t.alias("b")
    ra, rb = C.from_columns(a.c, "ts"), C.from_columns(b.c, "ts")
    q = sa.select(a.c.id, b.c.id, ra.isEmpty(), ra.overlaps(rb), ra.contains(rb), ra < rb, ra > rb, ra.isNull())
    out_pairs, out_inst = {}, {}
    with eng.connect() as c:
        for r in c.execute(q):
            out_pairs[(rows[r[0]], rows[r[1]])] = [None if v is None else bool(v) for v in r[2:]]
        q2 = sa.select(a.c.id, p.c.id, ra.contains(p.c.x), ra.overlaps(p.c.x), ra < p.c.x, ra > p.c.x)
        for r in c.execute(q2):
            out_inst[(rows[r[0]], xs[r[1]])] = [None if v is None else bool(v) for v in r[2:]]
    # literal form as well (fromLiteral) on a few operands: must equal the column form
    return out_pairs, out_inst


def _serial(ctx: Ctx, g: Grid, objs):
    import yaml
    from lsst.daf.butler import Timespan

    for s, t in objs.items():
        forms = {}
        try:
            forms["pickle"] = pickle.loads(pickle.dumps(t))
            forms["json"] = Timespan.model_validate_json(t.model_dump_json())
            forms["python"] = Timespan.model_validate(t.model_dump())
            forms["yaml"] = yaml.safe_load(yaml.dump(t)) if s != g.empty else t  # EMPTY has a documented YAML form too
            if s == g.empty:
                forms["yaml"] = yaml.safe_load(yaml.dump(t))
        except Exception as e:  # noqa: BLE001
            ctx.oracle_fail(f"serial-exc:{_ot(g, s)}", {"nsec": list(s), "error": repr(e)}, "serialisation raised")
            continue
        for k, v in forms.items():
            ctx.count()
            if not (isinstance(v, Timespan) and v == t and tuple(v.nsec) == tuple(t.nsec) and hash(v) == hash(t)):
                ctx.oracle_fail(f"serial-{k}:{_ot(g, s)}", {"form": k, "nsec": list(s), "got": repr(v)},
                                "serialised form does not round-trip exactly")


def _conversion(ctx: Ctx, conv):
    import astropy.time
    import warnings
    import numpy as np
    from astropy.time import TimeDelta
    from astropy.time import utils as atu

    mx = conv.max_nsec
    r = ctx.rng
    vals = set(range(0, 20000 if ctx.quick else 300000))
    day = 86400 * 10**9
    structured = set(range(0, 1000 if ctx.quick else 10000))
    w = 10 if ctx.quick else 30   # half-width of the bit-exact window around day / half-day boundaries
    for d in r.sample(range(1, mx // day), 40 if ctx.quick else 400):
        b = set(range(d * day - 30, d * day + 30))
        # half-day boundaries: jd2 crosses +-0.5, the branchy corner of astropy's day_frac
        b.update(range(d * day + day // 2 - 30, d * day + day // 2 + 30))
        vals |= b
        structured.update(range(d * day - w, d * day + w))
        structured.update(range(d * day + day // 2 - w, d * day + day // 2 + w))
    for k in range(1, 62):
        b = {x for x in range(2**k - 3, 2**k + 4) if 0 <= x <= mx}
        vals |= b
        structured |= b
    vals.update(range(mx - 2000, mx + 1))
    structured.update(range(mx - (150 if ctx.quick else 2000), mx + 1))
    rnd = [r.randrange(0, mx) for _ in range(20000 if ctx.quick else 400000)]
    vals.update(rnd)
    structured.update(rnd[: 1500 if ctx.quick else 30000])
    vals = sorted(vals)
    prev_ns, prev_t = None, None
    bad = 0
    rt_cases, rt_meta = [], []      # bit-exact observations for the primitive-float model
    ds_cases, df_cases = [], []     # astropy helpers called directly on the pipeline's intermediates
    for n in vals:
        t = conv.nsec_to_astropy(n)
        back = conv.astropy_to_nsec(t)
        ctx.count()
        if back != n:
            bad += 1
            ctx.oracle_fail(f"conv-roundtrip:{'lo' if n < 10**6 else 'hi'}", {"nsec": n, "back": back}, "nsec -> astropy -> nsec is not exact")
        if prev_t is not None and not (prev_t < t):
            ctx.oracle_fail("conv-order", {"n1": prev_ns, "n2": n}, "nsec_to_astropy is not strictly increasing")
        prev_ns, prev_t = n, t
        if n in structured:
            j1, j2 = t._time.jd1, t._time.jd2
            td = TimeDelta(j1, j2, format="jd", scale="tai")
            dl = t - conv.epoch
            rt_cases.append(f"({cz(n)}, {cfl2(j1, j2)}, {cfl2(td._time.jd1, td._time.jd2)}, "
                            f"{cfl2(dl._time.jd1, dl._time.jd2)}, {cz(back)})")
            rt_meta.append({"nsec": n, "jd": [float(j1).hex(), float(j2).hex()], "back": back})
            if len(ds_cases) < 3000 and (n < 300 or len(rt_cases) % 5 == 0):
                x, e = atu.two_sum(j1, j2)
                ds_cases.append(f"({cfl(j1)}, {cfl(j2)}, {cfl2(x, e)})")
                b1, b2 = td._time.jd1 - conv.epoch._time.jd1, td._time.jd2 - conv.epoch._time.jd2
                o1, o2 = atu.day_frac(b1, b2)
                df_cases.append(f"({cfl(b1)}, {cfl(b2)}, None, {cfl2(o1, o2)})")
                o1, o2 = atu.day_frac(j1, j2, divisor=1.0)
                df_cases.append(f"({cfl(j1)}, {cfl(j2)}, Some {cfl(1.0)}, {cfl2(o1, o2)})")
        if bad > 3:
            break
    ctx.hist("conversion", "roundtrip_values", len(vals))
    ctx.hist("conversion", "bit_exact_roundtrips", len(rt_cases))
    ctx.log(f"conversion: {len(vals)} round trips on the implementation, {len(rt_cases)} recorded bit for bit")
    ctx._nontrivial.update(f"conv{n}" for n in vals[:50000])
    # astropy -> nsec against exact rational arithmetic on the two-part JD, several formats/scales
    epoch = conv.epoch
    ej = Fraction(epoch.tai.jd1) + Fraction(epoch.tai.jd2)
    NPD = 86400 * 10**9
    samples = []
    tn_cases = []

    def to_nsec_case(t_any):
        """observation of astropy_to_nsec for the primitive-float model: tai (jd1, jd2), clamped delta, result"""
        value = t_any.tai
        ns = conv.astropy_to_nsec(t_any)
        v = value
        if v < conv.epoch:
            v = conv.epoch
        elif v > conv.max_time:
            v = conv.max_time
        dl = v - conv.epoch
        if len(tn_cases) < 40 or r.random() < (0.4 if ctx.quick else 0.35):
            tn_cases.append(f"({cfl2(value._time.jd1, value._time.jd2)}, {cfl2(dl._time.jd1, dl._time.jd2)}, {cz(ns)})")
        return ns

    with warnings.catch_warnings():
        warnings.simplefilter("ignore")
        for _ in range(300 if ctx.quick else 5000):
            n = r.randrange(0, mx)
            base = conv.nsec_to_astropy(n)
            for scale in ("tai", "utc", "tt"):
                for fmt in ("jd", "mjd", "isot", "iso", "fits", "unix_tai"):
                    try:
                        v = getattr(base, scale)
                        t2 = astropy.time.Time(getattr(v, fmt), format=fmt, scale=scale, precision=9)
                    except Exception:  # noqa: BLE001  (formats that cannot express the value are not inputs)
                        continue
                    samples.append((fmt, scale, t2))
        # out of range and boundary times
        for iso, want in (("1960-01-01 00:00:00", 0), ("1969-12-31 23:59:59.999999999", 0), ("2100-01-01 00:00:00", mx),
                          ("2150-06-01 00:00:00", mx), ("1970-01-01 00:00:00", 0), ("2099-12-31 23:59:59.999999999", mx - 1),
                          ("2100-01-01 00:00:00.000000001", mx), ("1970-01-01 00:00:00.000000001", 1)):
            t = astropy.time.Time(iso, format="iso", scale="tai")
            got = to_nsec_case(t)
            ctx.count()
            if got != want:
                ctx.oracle_fail(f"conv-clamp:{iso}", {"time": iso, "got": got, "want": want}, "out-of-range time not clamped to the supported range")
        seen = []
        for fmt, scale, t2 in samples:
            ns = to_nsec_case(t2)
            tt = t2.tai
            exact = (Fraction(tt.jd1) + Fraction(tt.jd2) - ej) * NPD
            ctx.count()
            ctx.hist("conversion", f"{fmt}/{scale}")
            if abs(Fraction(ns) - exact) > Fraction(1, 2) + Fraction(1, 64):  # 1/64 ns: double rounding of jd2 * 8.64e13 (ulp 2^-9 ns)
                ctx.oracle_fail(f"conv-exact:{fmt}:{scale}", {"format": fmt, "scale": scale, "time": str(t2), "nsec": ns, "exact": float(exact)},
                                "astropy_to_nsec is not the nearest nanosecond of the TAI value")
            seen.append((exact, ns))
        seen.sort()
        for (e1, n1), (e2, n2) in zip(seen, seen[1:]):
            if n1 > n2:
                ctx.oracle_fail("conv-monotone", {"exact1": float(e1), "n1": n1, "exact2": float(e2), "n2": n2}, "astropy_to_nsec is not order preserving")
    ctx.sample({"conversion_values": vals[:5] + vals[-3:], "formats_checked": len(samples)})

    # ---- the helpers on arbitrary doubles (two_product / split are only exercised with 1.0 by the pipeline)
    tp_cases, sp_cases, ri_cases = [], [], []
    for _ in range(600 if ctx.quick else 6000):
        a = r.choice([r.uniform(-3e6, 3e6), r.uniform(-1, 1), float(r.randrange(-10**7, 10**7)), r.uniform(-1e-9, 1e-9)])
        b = r.choice([1.0, r.uniform(-2, 2), 86400.0, float(NPD), r.uniform(-1e-9, 1e-9)])
        x, e = atu.two_sum(a, b)
        ds_cases.append(f"({cfl(a)}, {cfl(b)}, {cfl2(x, e)})")
        x, e = atu.two_product(a, b)
        tp_cases.append(f"({cfl(a)}, {cfl(b)}, {cfl2(x, e)})")
        h, l = atu.split(a)
        sp_cases.append(f"({cfl(a)}, {cfl2(h, l)})")
        if abs(a) <= 1e7 and abs(b) <= 2:
            o1, o2 = atu.day_frac(a, b)
            df_cases.append(f"({cfl(a)}, {cfl(b)}, None, {cfl2(o1, o2)})")
            o1, o2 = atu.day_frac(a, b, divisor=1.0)
            df_cases.append(f"({cfl(a)}, {cfl(b)}, Some {cfl(1.0)}, {cfl2(o1, o2)})")
        for v in (a, float(int(a)) + r.choice([0.5, -0.5, 0.0]), b):
            ri_cases.append(f"({cfl(v)}, {cfl(np.round(v))})")

    ctx.log(f"conversion: {len(tn_cases)} astropy_to_nsec observations, {len(df_cases)} day_frac, {len(ds_cases)} two_sum")
    # ---- model vs implementation, bit for bit (vm_compute over Coq's primitive binary64 floats)
    hdrf = ("From Coq Require Import ZArith List PrimFloat.\nFrom V Require Import Model.TimeConv Model.TimeConvPrim.\n"
            "Import ListNotations.\n")
    ctx.sample({"conv_bit_exact_case": rt_cases[len(rt_cases) // 2], "meta": rt_meta[len(rt_meta) // 2]})
    broken = False
    for name, cases, chk in (
        ("conv_roundtrip", rt_cases, "chk_conv_roundtrip"), ("conv_to_nsec", tn_cases, "chk_conv_to_nsec"),
        ("conv_two_sum", ds_cases, "chk_two_sum"), ("conv_two_product", tp_cases, "chk_two_product"),
        ("conv_split", sp_cases, "chk_split"), ("conv_day_frac", df_cases, "chk_day_frac"), ("conv_rint", ri_cases, "chk_rint"),
    ):
        badi = ctx.coq_cases(name, hdrf, cases, chk, shard=3000)
        if badi is None:
            broken = True
        for i in (badi or [])[:5]:
            broken = True
            ctx.disagreement(name, {"case": cases[i], "meta": rt_meta[i] if name == "conv_roundtrip" else None},
                             "binary64 operation sequence of the model differs from the implementation (bit-for-bit)")
    ctx.log("conversion: primitive-float model compared")
    if broken or ctx.broken:
        _conv_search(ctx, conv)
        ctx.log("conversion: deep search done")


def _conv_search(ctx: Ctx, conv):
    """Something is broken (model/implementation mismatch or an unproved obligation): look harder for a
    nanosecond value whose round trip is not exact / not monotone on the implementation."""
    r = ctx.rng
    mx = conv.max_nsec
    day = 86400 * 10**9
    cand = [r.randrange(0, mx) for _ in range(100000)]
    for d in r.sample(range(1, mx // day), 300):
        cand.extend(range(d * day - 50, d * day + 50))
        cand.extend(range(d * day + day // 2 - 50, d * day + day // 2 + 50))
    cand.sort()
    prev_n, prev_t = None, None
    found = 0
    for n in cand:
        t = conv.nsec_to_astropy(n)
        back = conv.astropy_to_nsec(t)
        if back != n:
            found += 1
            ctx.oracle_fail(f"conv-roundtrip:{'lo' if n < 10**6 else 'hi'}", {"nsec": n, "back": back}, "nsec -> astropy -> nsec is not exact (deep search)")
        if prev_t is not None and prev_n != n and not (prev_t < t):
            found += 1
            ctx.oracle_fail("conv-order", {"n1": prev_n, "n2": n}, "nsec_to_astropy is not strictly increasing (deep search)")
        prev_n, prev_t = n, t
        if found > 3:
            break
