"""C18 -- Core value objects survive every serialisation unchanged; every reported Config key retrieves its value.

Obligations: coq/Props/C18.v (Serial.v codec model, ConfigKey.v key model).
Tie T: Gen/SerialReduceGen.v -- the __reduce__ bodies of the three DataCoordinate classes regenerated from the source
       (harness/translators/c18_reduce.py, fail-closed; the other pickle hooks are compared as ASTs).
Tie K: generated instances over many dimension groups of the real universe / nested Config trees with awkward
       keys run through the real classes (harness/impl/c18_impl.py, worker subprocesses); the wire JSON of
       to_json(), the state of the object from_json gives back, Config.names()/[]/in/nameTuples results are
       compared with the Coq models by vm_compute (Model/SerialCheck.v).
       Batches of objects with colliding memo keys are also read back inside ONE PersistenceContextVars().run(...)
       (per-kind contexts compared with the memo-table model Model/SerialCtx.v, mixed contexts oracle only).
Oracle: written from the property statement: object == original, equal hash, documented expansion state, records
       usable as the original's, re-serialisable; for every reported Config name/tuple: retrieves exactly the
       value found by plain indexing of the original tree and is `in` the Config.
"""
from __future__ import annotations

import json
from pathlib import Path

from harness.common import VERIF, Ctx, cbool, clist, copt, cstr, cz, parallel_workers, run_worker
from harness.translators import c18_reduce

HDR_S = ("From Coq Require Import ZArith NArith List Bool String.\nFrom V Require Import Model.Serial Model.SerialX Model.ConfigKey Model.SerialCheck.\n"
         "Import ListNotations.\nOpen Scope string_scope.\n")
HDR_C = ("From Coq Require Import ZArith NArith List Bool.\nFrom V Require Import Model.ConfigKey Model.Serial Model.SerialCheck.\n"
         "Import ListNotations.\nOpen Scope N_scope.\n")


# ---------------------------------------------------------------------------------------------------
# Coq literals
# ---------------------------------------------------------------------------------------------------

def s_(s: str) -> str:
    """string literal for Serial.v (strings are opaque there: any injective ASCII encoding is sound)"""
    out = []
    for ch in s:
        o = ord(ch)
        if ch == "\\":
            out.append("\\\\")
        elif 32 <= o < 127:
            out.append(ch)
        else:
            out.append("\\u{%x}" % o)
    return cstr("".join(out)).replace("%string", "")


def sl(l):
    return clist(s_(x) for x in l)


def jv(v) -> str:
    if v is None:
        return "JNull"
    if isinstance(v, bool):
        return f"JBool {cbool(v)}"
    if isinstance(v, int):
        return f"JInt {cz(v)}"
    if isinstance(v, str):
        return f"JStr {s_(v)}"
    if isinstance(v, list):
        return "JArr " + clist(f"({jv(x)})" if not isinstance(x, type(None)) else "JNull" for x in v)
    if "__f" in v:
        return f"JFlt {cz(v['__f'])}"
    return "JObj " + clist(f"({s_(k)}, {jv(x)})" for k, x in v["__o"])


def grp(g) -> str:
    return f"{{| g_names := {sl(g['names'])}; g_req := {sl(g['req'])}; g_impl := {sl(g['impl'])}; g_elems := {sl(g['elems'])} |}}"


def fval(v) -> str:
    t = v[0]
    if t == "FNull":
        return "FNull"
    if t == "FBool":
        return f"FBool {cbool(v[1])}"
    if t in ("FInt", "FFlt"):
        return f"{t} {cz(v[1])}"
    if t == "FTs":
        return f"FTs ({cz(v[1][0])}, {cz(v[1][1])})"
    return f"{t} {s_(v[1])}"


def drec(r) -> str:
    return f"{{| r_def := {s_(r['def'])}; r_fields := " + clist(f"({s_(n)}, {fval(v)})" for n, v in r["fields"]) + " |}"


def dval(v) -> str:
    return f"DInt {cz(v)}" if isinstance(v, int) else f"DStr {s_(v)}"


def coord(c) -> str:
    recs = "None" if c["recs"] is None else "(Some " + clist(f"({s_(k)}, {copt(r, drec)})" for k, r in c["recs"]) + ")"
    return f"{{| c_grp := {grp(c['grp'])}; c_vals := " + clist(f"({s_(k)}, {dval(v)})" for k, v in c["vals"]) + f"; c_recs := {recs} |}}"


def dst(t) -> str:
    return (f"{{| t_name := {s_(t['name'])}; t_grp := {grp(t['grp'])}; t_sc := {s_(t['sc'])}; "
            f"t_psc := {copt(t['psc'], s_)}; t_calib := {cbool(t['calib'])} |}}")


def dref(r) -> str:
    return f"{{| f_id := {s_(r['id'])}; f_run := {s_(r['run'])}; f_type := {dst(r['type'])}; f_coord := {coord(r['coord'])} |}}"


def uctx(c) -> str:
    conf = clist(f"({sl(k)}, {grp(g)})" for k, g in c["conform"])
    sch = clist(f"({s_(e)}, " + clist(f"({s_(n)}, ({t}, {cbool(nl)}))" for n, t, nl in fs) + ")" for e, fs in c["schema"])
    types = clist(f"({s_(n)}, {dst(t)})" for n, t in c["types"])
    refs = clist(f"({s_(n)}, {dref(r)})" for n, r in c["refs"])
    comps = clist(f"({s_(a)}, {s_(b)})" for a, b in c["compsc"])
    return (f"{{| u_max := {cz(c['max'])}; u_conform := {conf}; u_schema := {sch}; u_governors := {sl(c['governors'])}; "
            f"u_types := {types}; u_refs := {refs}; u_compsc := {comps} |}}")


def pk_rec(r) -> str:
    return f"({s_(r['def'])}, " + clist(f"({s_(n)}, {fval(v)})" for n, v in r["fields"]) + ")"


def pk_coord(p) -> str:
    recs = "None" if p["recs"] is None else "(Some " + clist(f"({s_(k)}, {copt(r, pk_rec)})" for k, r in p["recs"]) + ")"
    return f"({p['cls']}, {sl(p['names'])}, " + clist(dval(v) for v in p["vals"]) + f", {recs})"


def pk_dt(p) -> str:
    return f"({s_(p['name'])}, {sl(p['names'])}, {s_(p['sc'])}, {copt(p['psc'], s_)}, {cbool(p['calib'])})"


def pk_ref(p) -> str:
    return f"({pk_dt(p['dt'])}, {pk_coord(p['coord'])}, {s_(p['id'])}, {s_(p['run'])})"


def _red_ok(p) -> bool:
    """the observed __reduce__ has the shape the model can express (anything else is a model/implementation difference)"""
    if not isinstance(p, dict) or "exc" in p:
        return False
    c = p.get("coord", p) if "dt" in p else p
    return "cls" not in c or c["cls"] in ("ClsRequired", "ClsFull", "ClsExpanded")


def obs_state(o) -> str:
    return f"({cbool(o['full'])}, {cbool(o['recs'])}, " + clist(f"({s_(k)}, {st}%N)" for k, st in o["states"]) + ")"


# ConfigKey literals (N scope)
def cs_(s: str) -> str:
    return "[" + ";".join(str(ord(ch)) for ch in s) + "]"


def ckey(k) -> str:
    if "s" in k:
        return f"KS {cs_(k['s'])}"
    if "i" in k:
        return f"KI {cz(k['i'])}"
    if "b" in k:
        return f"KB {cbool(k['b'])}"
    return "KN"


def cv(v) -> str:
    if v is None:
        return "CNone"
    if isinstance(v, bool):
        return f"CBool {cbool(v)}"
    if isinstance(v, int):
        return f"CInt {cz(v)}"
    if isinstance(v, str):
        return f"CStr {cs_(v)}"
    if isinstance(v, list):
        return "CList " + clist(f"({cv(x)})" for x in v)
    if "__f" in v:
        return f"CFlt {cz(v['__f'])}"
    return "CDict " + cdict(v)


def cdict(v) -> str:
    return clist(f"({ckey(k)}, {cv(x)})" for k, x in v["__d"])


def cres(o, f) -> str:
    if "ok" in o:
        return f"(Ok ({f(o['ok'])}))"
    return f"(Err {o['err']})"


# ---------------------------------------------------------------------------------------------------
# oracles (from the property statement, on implementation observations only)
# ---------------------------------------------------------------------------------------------------

def _coord_checks(ctx, kind, form, o, orig, minimal, replay):
    """o: observations on the data ID that came back; orig: state of the original"""
    def fail(what, text):
        ctx.oracle_fail(f"roundtrip:{kind}:{form}:{what}", replay, text)

    if "exc" in o:
        return fail("raised", f"serialised form could not be read back: {o['exc']}")
    if not o.get("is") or not o["eq"] or not o["dims"]:
        return fail("not-equal", "object read back is not equal to the original")
    if not o["hash"]:
        return fail("hash", "object read back hashes differently")
    if o["full"] != orig["full"]:
        return fail("hasFull", "hasFull() changed")
    want_recs = orig["recs"] if (form == "pickle" or not minimal) else orig["empty"]
    ostates = dict(map(tuple, orig["states"]))
    gstates = dict(map(tuple, o["states"]))
    has_null = any(s == 1 for s in ostates.values())
    if form == "pickle" or not minimal:
        null_only = has_null and all(gstates[k] == s or (s == 1 and gstates[k] == 2) for k, s in ostates.items())
        if o["recs"] != want_recs:
            if has_null and all(s == 1 for s in ostates.values()) and not o["recs"]:
                return fail("null-record", "hasRecords() lost (every record is None)")
            return fail("hasRecords", "hasRecords() is not the documented state for this form")
        if gstates != ostates:
            return fail("null-record" if null_only else "records", "records[element] behaves differently from the original")
        if not o["records_equal"]:
            return fail("records", "a dimension record read back differs from the original")
        if o["reserialise"] is not True:
            return fail("reserialise", f"object read back does not serialise like the original ({o['reserialise']})")
    else:
        if o["recs"] != want_recs:
            return fail("hasRecords", "hasRecords() is not the documented state for the minimal form")
    if o.get("mapping") is False:
        return fail("mapping", "data ID values differ")


def oracle_serial(ctx: Ctx, case):
    kind = case["kind"]
    replay = {"kind": kind, "inst": case.get("inst"), "minimal": case.get("minimal", False), "fixed": case.get("fixed")}
    if "gen_exc" in case:
        ctx.oracle_fail(f"roundtrip:{kind}:to-form-raised", dict(replay, error=case["gen_exc"]), "serialising raised: " + case["gen_exc"])
        return
    for form, o in case["forms"].items():
        ctx.count()
        rp = dict(replay, form=form, observed=o)
        if kind in ("coord",):
            _coord_checks(ctx, kind, form, o, case["orig"], case["minimal"], rp)
            continue
        if "exc" in o:
            ctx.oracle_fail(f"roundtrip:{kind}:{form}:raised", rp, f"serialised form could not be read back: {o['exc']}")
            continue
        if not o.get("is") or not o.get("eq"):
            ctx.oracle_fail(f"roundtrip:{kind}:{form}:not-equal", rp, "object read back is not equal to the original")
            continue
        if not o.get("hash"):
            ctx.oracle_fail(f"roundtrip:{kind}:{form}:hash", rp, "object read back hashes differently")
            continue
        if kind == "ts" and not (o["nsec"] and o["bounds"]):
            ctx.oracle_fail(f"roundtrip:ts:{form}:bounds", rp, "timespan bounds changed")
        if kind in ("grp", "rec", "dt") and not o.get("fields", True):
            ctx.oracle_fail(f"roundtrip:{kind}:{form}:fields", rp, "a field of the object read back differs from the original")
        if kind == "rec" and not o.get("dataId", True):
            ctx.oracle_fail(f"roundtrip:rec:{form}:dataId", rp, "record data ID differs")
        if kind == "ref":
            if not (o["run_eq"] and o["id"]):
                ctx.oracle_fail(f"roundtrip:ref:{form}:run-or-id", rp, "run or id of the ref read back differs")
            if not (o["dt"].get("eq") and o["dt"].get("fields") and o["dt"].get("hash")):
                ctx.oracle_fail(f"roundtrip:ref:{form}:datasetType", rp, "dataset type of the ref read back differs")
            _coord_checks(ctx, "ref", form, o["coord"], case["orig"], False, rp)


def _tree_py(v):
    from harness.impl.c18_impl import dec_tree
    return dec_tree(v)


def oracle_config(ctx: Ctx, o, src):
    """every reported key retrieves its value (names x [], in; nameTuples x [], in); round trips of the tree"""
    tree = o["tree"]
    delim = o["delim"]
    explicit = delim is not None
    names = o["names"]
    replay_base = {"kind": "config", "trees": [{"tree": tree, "delim": delim, "extra": []}], "source": src}
    if names is None:
        # names() itself refused: only the documented case (no usable delimiter among 101 candidates) is acceptable
        ctx.oracle_fail("names-raised", replay_base, "Config.names() raised: " + o.get("names_err", ""))
        return
    tuples = o["tuples"]
    if len(names) != len(tuples):
        ctx.oracle_fail("names-vs-nameTuples:length", replay_base, "names() and nameTuples() report different numbers of keys")
        return
    d = names[0][0] if names else (delim or "→")
    for i, (t, n) in enumerate(zip(tuples, names)):
        ctx.count(2)
        want = o["ref"][i]
        # is a key of this path a dict key (not a list index)?  walk the tree to tell them apart
        node = tree
        dict_keys = []
        for k in t:
            if isinstance(node, dict) and "__d" in node:
                dict_keys.append(k)
                node = next(x for kk, x in node["__d"] if kk == k)
            else:
                node = node[k["i"]]
        nonstring = any("s" not in k for k in dict_keys)
        strs = [k["s"] for k in dict_keys if "s" in k]
        path_strs = [(k["s"] if "s" in k else None) for k in t]
        trailing = any(s is not None and s.endswith("\\") for s in path_strs[:-1])
        bs_before = explicit and any((("\\" + d) in s) for s in strs)
        needs_esc = any(d in s for s in strs)
        cr = explicit and needs_esc and any("\r" in s for s in strs)
        if nonstring:
            cls = "nonstring-key"
        elif trailing:
            cls = "trailing-backslash"
        elif bs_before:
            cls = "explicit-delimiter:backslash-before-delimiter"
        elif cr:
            cls = "explicit-delimiter:carriage-return"
        elif explicit and any(k == {"s": n} for k, _ in tree["__d"]):
            cls = "explicit-delimiter:name-is-top-level-key"
        else:
            feats = []
            if needs_esc:
                feats.append("delimiter-in-key")
            if any(s == "" for s in strs):
                feats.append("empty-key")
            if len(dict_keys) != len(t):
                feats.append("list-index")
            if any("\\" in s for s in strs):
                feats.append("backslash")
            cls = "+".join(feats) or "plain"
        lk, ct = o["lookups"][i][1], o["lookups"][i][2]
        rp = dict(replay_base, name=n, path=t, lookup=lk, contains=ct, expected=want)
        if lk != {"ok": want}:
            ctx.oracle_fail(f"names-retrieve:{cls}", rp, f"key reported by names() does not retrieve its value ({lk.get('err', 'wrong value')})")
        elif ct != {"ok": True}:
            ctx.oracle_fail(f"names-contains:{cls}", rp, "key reported by names() is not `in` the Config")
        tl, tc = o["tlookups"][i][1], o["tlookups"][i][2]
        if tl != {"ok": want} or tc != {"ok": True}:
            ctx.oracle_fail(f"nameTuples-retrieve:{cls}", dict(rp, lookup=tl, contains=tc), "tuple reported by nameTuples() does not retrieve its value")
        ctx.hist("config_key_class", cls)
    for form, r in o["rt"].items():
        ctx.count()
        rp = dict(replay_base, form=form, observed=r)
        if "exc" in r:
            ctx.oracle_fail(f"roundtrip:config:{form}:raised", rp, f"Config could not be read back: {r['exc']}")
        elif not r["eq"] or not r["types"]:
            ctx.oracle_fail(f"roundtrip:config:{form}:not-equal", rp, "Config read back differs from the original")
        elif not r["names"]:
            ctx.oracle_fail(f"roundtrip:config:{form}:names", rp, "names() of the Config read back differ")


def oracle_context(ctx: Ctx, batch):
    """Round trips inside one PersistenceContextVars().run(...): the oracle is the one of the plain round trip -- every
    object must come back equal to ITS original (same hash, same expansion state, same records, same run), whatever
    else was read in the same context.  `diff` lists the documented aspects in which the object that came back differs."""
    mixed = batch["kind"] == "mixed"
    if "gen_exc" in batch:
        ctx.oracle_fail("context:generation-raised", {"kind": "context", "error": batch["gen_exc"]}, batch["gen_exc"])
        return
    for i, it in enumerate(batch["items"]):
        ctx.count()
        ctx.hist("context_outcome", f"{batch['kind']}:{it['kind']}:{'+'.join(sorted(it['diff'])) or 'same'}")
        if it["diff"]:
            sig = f"context:{'mixed:' if mixed else ''}{it['kind']}:wrong:" + "+".join(sorted(it["diff"]))
            ctx.oracle_fail(sig, {"kind": "context", "seed": batch.get("seed"), "batch": batch.get("batch"), "context": batch["kind"],
                                  "index": i, "inst": it["inst"], "differs_in": it["diff"], "error": it.get("exc"),
                                  "read_before_in_same_context": [x["win"] for x in batch["items"][:i]][-12:], "wire": it["win"]},
                            f"{it['kind']} read back inside a persistence context differs from the original in: {', '.join(it['diff'])}")
        ctx.nontrivial(["ctx", batch["kind"], it["kind"], it["inst"]])


def context_coq_case(batch):
    k = batch["kind"]
    u = uctx(batch["ctx"])
    rows = []
    for it in batch["items"]:
        if it.get("wout") is None:
            obs = "None"
        elif k in ("coord", "ref"):
            obs = f"(Some ({jv(it['wout'])}, {obs_state(it['state'])}))"
        else:
            obs = f"(Some ({jv(it['wout'])}))"
        rows.append(f"({jv(it['win'])}, {obs})")
    return f"({u}, {clist(rows)})"


# ---------------------------------------------------------------------------------------------------
# Coq cases
# ---------------------------------------------------------------------------------------------------

def serial_coq_case(case):
    k = case["kind"]
    if "gen_exc" in case:
        return None
    if k == "ts":
        y = case["yaml"]
        ylit = "YEmpty" if y == "EMPTY" else f"(YMap {copt(y[0], cz)} {copt(y[1], cz)})"
        return f"({cz(case['max'])}, ({cz(case['inst'][0])}, {cz(case['inst'][1])}), {jv(case['wire'])}, {ylit})"
    u = uctx(case["ctx"])
    w = jv(case["wire"])
    if k == "grp":
        return f"({u}, {grp(case['inst'])}, {w})"
    if k == "rec":
        return f"({u}, {drec(case['inst'])}, {w})"
    red = case.get("reduce")
    if k == "dt":
        if not _red_ok(red):
            return False
        return f"({u}, {cbool(case['minimal'])}, {dst(case['inst'])}, {w}, {pk_dt(red)})"
    form = case["forms"].get("json", {})
    pst = case.get("pickle_state") or {}
    if k == "coord":
        if "exc" in form or not form.get("is"):
            return None
        if not _red_ok(red) or "exc" in pst or not pst.get("is"):
            return False
        return (f"({u}, {cbool(case['minimal'])}, {coord(case['inst'])}, {w}, {obs_state(form)}, "
                f"{pk_coord(red)}, {obs_state(pst)})")
    if k == "ref":
        if "exc" in form or not form.get("is"):
            return None
        if not _red_ok(red) or "exc" in pst or not pst.get("is"):
            return False
        return (f"({u}, {cbool(case['minimal'])}, {dref(case['inst'])}, {w}, {obs_state(form['coord'])}, {s_(form['run'])}, "
                f"{pk_ref(red)}, {obs_state(pst)})")
    raise ValueError(k)


def config_coq_case(o):
    def other(x):
        return "err" in x and x["err"].startswith("Other")
    rows = o["lookups"] + o["extra"]
    if any(other(r[1]) or other(r[2]) for r in rows) or any(other(r[1]) for r in o["tlookups"]):
        return None
    names = "None" if o["names"] is None else "(Some " + clist(cs_(n) for n in o["names"]) + ")"
    probes = clist(f"({cs_(n)}, {cres(v, cv)}, {cres(b, cbool)})" for n, v, b in rows)
    tp = clist("(" + clist(ckey(k) for k in t) + f", {cres(v, cv)})" for t, v, _ in o["tlookups"])
    dl = "None" if o["delim"] is None else f"(Some {ord(o['delim'])})"
    al = "[" + ";".join(str(x) for x in o["alnum"]) + "]"
    return f"({cdict(o['tree'])}, {al}, {dl}, {names}, {probes}, {tp})"


CHK = {"ts": "chk_ts", "grp": "chk_grp", "rec": "chk_rec", "coord": "chk_coord", "dt": "chk_dt", "ref": "chk_ref"}


def run(ctx: Ctx):
    # known findings of this property: the fragment known_findings.d/C18.json is authoritative (the assembled
    # known_findings.json may lag behind it: an entry that became `fixed` must stop suppressing at once)
    frag = VERIF / "known_findings.d" / "C18.json"
    if frag.exists():
        ctx.known = [k for k in json.loads(frag.read_text()) if k["property"] == "C18"]
    ctx.assumptions += [
        "pydantic / json / yaml / pickle machinery, lsst.sphgeom region encode/decode and uuid formatting are trusted (exercised on every run)",
        "the dimension universe enters the codec model as a finite `conform` table and record schemas read from the real universe for every case",
        "str.isalnum is a parameter of the Config key model; the run supplies Python's answer for every character of a case",
        "Python int() is modelled for ASCII whitespace / sign / digits / single underscores only (the probes stay in that alphabet)",
        "persistence-context memo tables: each from_simple is modelled with its own table only (nested tables are exercised by the mixed contexts, oracle only); "
        "overrideStorageClass's convertibility check is not modelled (ref batches use mutually convertible storage classes)",
    ]
    ctx.cov["rule"] = (
        "a serial case is non-trivial when the instance has at least one dimension (data IDs, refs, records, groups), "
        "timespans and dataset types always; a Config case is non-trivial when names() reports at least 2 keys with "
        "nesting depth >= 2; every object read inside a persistence context counts (each batch holds colliding memo keys); "
        "distinctness by hash of the abstracted instance / tree"
    )
    # tie T: the __reduce__ bodies of the data ID classes, regenerated; the other pickle hooks shape-checked (fail-closed)
    ctx.regen("c18_reduce", c18_reduce.translate)
    ok = ctx.build_props(extra_targets=["Model/SerialCheck.vo"])
    if not ok:
        from harness.common import coq_make
        coq_make(["Model/SerialCheck.vo"])

    # ---- corpus first
    trees = []
    fixed = []
    for f in sorted((VERIF / "corpus" / "C18").glob("*.json")):
        d = json.loads(f.read_text())
        for t in d.get("trees", []):
            trees.append((f.name, t))
        fixed += d.get("fixed", [])
    if ctx.replay:
        d = json.loads(Path(ctx.replay).read_text())
        for t in d.get("trees", []):
            trees.append(("replay", t))
    cfg_obs = []
    if trees:
        st, res = run_worker("c18_impl", "config_cases", {"trees": [t for _, t in trees]}, timeout=300)
        if st != "ok":
            ctx.tie_broken("harness", "corpus", f"corpus worker {st}: {str(res)[:300]}")
        else:
            cfg_obs += [(o, src) for o, (src, _) in zip(res, trees)]

    corpus_serial = []
    if fixed:
        st, res = run_worker("c18_impl", "serial_cases", {"seed": 0, "fixed": fixed}, timeout=300)
        if st != "ok":
            ctx.tie_broken("harness", "corpus", f"corpus worker {st}: {str(res)[-300:]}")
        else:
            corpus_serial = res
    # ---- generated cases (worker subprocesses, seeded)
    base = ctx.seed * 1000
    nsh = 6 if ctx.quick else 16
    n_serial = 25 if ctx.quick else 50
    n_cfg = 220 if ctx.quick else 700
    kinds = ["ts", "grp", "rec", "coord", "dt", "ref"]
    pay = [("serial_cases", {"seed": base + i, "n": n_serial, "kinds": kinds}) for i in range(nsh)]
    payc = [("config_cases", {"seed": base + 500 + i, "n": n_cfg}) for i in range(nsh)]
    payx = [{"seed": base + 300 + i, "n": 3 if ctx.quick else 12} for i in range(nsh)]
    sres = parallel_workers("c18_impl", "serial_cases", [p for _, p in pay], timeout=900)
    cres_ = parallel_workers("c18_impl", "config_cases", [p for _, p in payc], timeout=900)
    xres = parallel_workers("c18_impl", "context_cases", payx, timeout=900)
    batches = []
    for (st, res), p in zip(xres, payx):
        if st != "ok":
            ctx.tie_broken("harness", "context worker", f"{st}: {str(res)[-400:]}")
            continue
        batches += res
    serial = list(corpus_serial)
    for (st, res), (_, p) in zip(sres, pay):
        if st != "ok":
            ctx.tie_broken("harness", "serial worker", f"{st}: {str(res)[-400:]}")
            continue
        serial += res
    for (st, res), (_, p) in zip(cres_, payc):
        if st != "ok":
            ctx.tie_broken("harness", "config worker", f"{st}: {str(res)[-400:]}")
            continue
        cfg_obs += [(o, f"seed{p['seed']}") for o in res]

    run_cases(ctx, serial, cfg_obs)
    run_context(ctx, batches)

    if ctx.broken and not ctx.oracle_failures:
        # something no longer checks but the oracle held: search deeper on the implementation
        ctx.log("search: thorough-size generation, more seeds")
        extra_s, extra_c = [], []
        sres = parallel_workers("c18_impl", "serial_cases", [{"seed": base + 100 + i, "n": 60, "kinds": kinds} for i in range(16)], timeout=900)
        cres2 = parallel_workers("c18_impl", "config_cases", [{"seed": base + 700 + i, "n": 1200} for i in range(16)], timeout=900)
        for st, res in sres:
            if st == "ok":
                extra_s += res
        for st, res in cres2:
            if st == "ok":
                extra_c += [(o, "search") for o in res]
        xres = parallel_workers("c18_impl", "context_cases", [{"seed": base + 900 + i, "n": 12} for i in range(16)], timeout=900)
        for st, res in xres:
            if st == "ok":
                for b in res:
                    oracle_context(ctx, b)
        for c in extra_s:
            oracle_serial(ctx, c)
        for o, src in extra_c:
            oracle_config(ctx, o, src)
        ctx.cov["search"] = f"oracle evaluated on {len(extra_s)} more serial cases and {len(extra_c)} more Config trees (seeds {base + 100}.., {base + 700}..)"


CHK_CTX = {"dt": "chk_ctx_dt", "coord": "chk_ctx_coord", "rec": "chk_ctx_rec", "ref": "chk_ctx_ref"}


def run_context(ctx: Ctx, batches):
    """persistence-context batches: oracle on every item; the per-kind contexts against the memo-table model"""
    for b in batches:
        oracle_context(ctx, b)
    by_kind = {}
    for b in batches:
        if b["kind"] in CHK_CTX and "gen_exc" not in b:
            by_kind.setdefault(b["kind"], []).append((context_coq_case(b), b))
    for k, lst in by_kind.items():
        bad = ctx.coq_cases(f"ctx_{k}", HDR_S, [l for l, _ in lst], CHK_CTX[k], shard=12)
        for i in (bad or [])[:3]:
            b = lst[i][1]
            ctx.disagreement(f"ctx_{k}", {"kind": k, "seed": b.get("seed"), "batch": b.get("batch"),
                                          "history": [{"wire": it["win"], "came_back": it.get("wout"), "differs_in": it["diff"]} for it in b["items"]]},
                             "memo-table model differs from the implementation on a history read inside one persistence context")
    if by_kind.get("dt"):
        ctx.sample({"context_batch_dt": [{"wire": it["win"], "differs_in": it["diff"]} for it in by_kind["dt"][0][1]["items"]]})


def run_cases(ctx: Ctx, serial, cfg_obs):
    # ---- oracles
    for c in serial:
        oracle_serial(ctx, c)
        ctx.hist("serial_kind", f"{c['kind']}:{c.get('feat')}")
        inst = c.get("inst")
        nontriv = c["kind"] in ("ts", "dt") or (c["kind"] == "grp" and inst["names"]) or (c["kind"] == "rec") or \
            (c["kind"] == "coord" and inst and inst["grp"]["names"]) or (c["kind"] == "ref" and inst and inst["coord"]["grp"]["names"])
        if nontriv:
            ctx.nontrivial([c["kind"], c.get("minimal"), inst])
    for o, src in cfg_obs:
        oracle_config(ctx, o, src)
        ctx.hist("config_mode", f"{o.get('mode', 'corpus')}:{'explicit' if o['delim'] else 'default'}")
        if o["names"] and len(o["names"]) >= 2 and any(len(t) >= 2 for t in o["tuples"]):
            ctx.nontrivial(["cfg", o["tree"], o["delim"]])
        if not o["arrows_nonalnum"]:
            ctx.tie_broken("correspondence", "arrows", "a code point in U+2192..U+21F7 is alphanumeric: delimiter search model assumption fails")
    # ---- model vs implementation
    by_kind = {}
    for c in serial:
        lit = serial_coq_case(c)
        if lit is False:
            # __reduce__ / pickle gave something the model has no form for: model and implementation differ
            ctx.disagreement(f"ser_{c['kind']}", {"kind": c["kind"], "inst": c.get("inst"), "reduce": c.get("reduce"),
                                                  "pickle_state": c.get("pickle_state")},
                             "__reduce__ / pickle of the instance is outside the model (shape or exception)")
        elif lit is not None:
            by_kind.setdefault(c["kind"], []).append((lit, c))
    for k, lst in by_kind.items():
        bad = ctx.coq_cases(f"ser_{k}", HDR_S, [l for l, _ in lst], CHK[k], shard=60 if k in ("coord", "ref") else 150)
        for i in (bad or [])[:3]:
            c = lst[i][1]
            ctx.disagreement(f"ser_{k}", {"kind": k, "minimal": c.get("minimal"), "inst": c.get("inst"), "wire": c.get("wire"),
                                          "reduce": c.get("reduce"), "pickle_state": c.get("pickle_state")},
                             "codec model differs from the implementation (wire form, state read back, __reduce__ arguments or unpickled state)")
    lits = []
    for o, src in cfg_obs:
        lit = config_coq_case(o)
        if lit is None:
            ctx.disagreement("cfg", {"tree": o["tree"], "delim": o["delim"]}, "Config raised an exception class the model does not have")
        else:
            lits.append((lit, o))
    bad = ctx.coq_cases("cfg", HDR_C, [l for l, _ in lits], "chk_cfg", shard=150)
    for i in (bad or [])[:3]:
        o = lits[i][1]
        ctx.disagreement("cfg", {"tree": o["tree"], "delim": o["delim"], "names": o["names"], "extra": o["extra"]},
                         "Config key model differs from the implementation (names / [] / in / tuple lookup)")
    if serial:
        ctx.sample({"serial_case": {k: serial[0].get(k) for k in ("kind", "inst", "wire")}})
    if by_kind.get("coord"):
        ctx.sample({"coq_case_coord": by_kind["coord"][0][0][:1500]})
    if lits:
        ctx.sample({"config_tree": lits[0][1]["tree"], "names": lits[0][1]["names"], "coq_case": lits[0][0][:1200]})
