"""C06 -- Queries relate dimensions exactly as the stored records relate them.

Obligations: coq/Props/C06.v (model coq/Model/Join.v over the C12 universe model, Gen/Universes.v regenerated from
dimensions.yaml).  Tie (K): generated record populations x insertion histories x dependency-closed dimension groups
run through the REAL registry (harness/impl/c06_impl.py) and through the model with vm_compute: per-operation outcome,
final dimension tables, final <element>_skypix_overlap tables, rows of Butler.query().data_ids().  Oracle, written
from the property's statement and independent of the model: a brute-force join over the intended final records using
the universe's own required / implied / always_join / spatial-family metadata and lsst.sphgeom's exact region relation;
all three query interfaces, after every history that leads to the same final records, must return exactly that set.
"""
from __future__ import annotations

import json
import os
from pathlib import Path

from harness.common import VERIF, Ctx, cbool, clist, cn, copt, coq_make, cstr, cz, parallel_workers, run_worker
from harness.translators import universe as utr

HEADER = (
    "From Coq Require Import String List Bool ZArith NArith.\n"
    "From V Require Import Model.Universe Model.Group Gen.Universes Model.Join Model.JoinCheck.\n"
    "Import ListNotations.\nOpen Scope string_scope.\n"
)
KINDS = {"insert": "OInsert", "replace": "OReplace", "skip": "OSkip", "sync": "OSync", "syncupd": "OSyncUpd"}
OUT_CODE = {"ok": 0, "inserted": 1, "same": 2, "updated": 3, "integrity": 4, "conflict": 5}
ORDER = ["instrument", "skymap", "day_obs", "detector", "group", "physical_filter", "subfilter", "tract", "visit_system",
         "exposure", "patch", "visit", "visit_definition", "visit_detector_region", "visit_system_membership"]


# ------------------------------------------------------------------------------------------------------------
# universe metadata (from the implementation) used by generator and oracle
# ------------------------------------------------------------------------------------------------------------
class Meta:
    def __init__(self, desc):
        self.el = {e["name"]: e for e in desc["elements"]}
        self.order = [e["name"] for e in desc["elements"]]
        self.fams = desc["spatial_families"]

    def cols(self, e):
        return self.el[e]["required"] + self.el[e]["implied"]


# ------------------------------------------------------------------------------------------------------------
# generator
# ------------------------------------------------------------------------------------------------------------
def gen_regions(rng, n):
    """lon/lat boxes on a half-degree lattice: equal, nested, touching (edge / corner), partially overlapping, far apart"""
    regs = {}
    used = set()
    for i in range(n):
        # region ids must denote DISTINCT boxes: the stored region is decoded back to an id by its encoding, so two ids
        # with the same box are indistinguishable in what the implementation stores (records may still share a region id)
        while True:
            far = rng.random() < 0.2
            lon0 = (40 if far else 10) + rng.choice([0, 0.5, 1, 1.5, 2])
            lat0 = 10 + rng.choice([0, 0.5, 1, 1.5, 2])
            w = rng.choice([0.5, 0.5, 1, 2])
            h = rng.choice([0.5, 0.5, 1, 2])
            box = (lon0, lon0 + w, lat0, lat0 + h)
            if box not in used:
                used.add(box)
                break
        regs[str(i)] = list(box)
    return regs


def gen_ts(rng, p=0.8):
    """timespan [b, e) in seconds on a 5 s lattice (equal / nested / touching / disjoint), or NULL"""
    if rng.random() >= p:
        return None
    b = rng.choice([0, 5, 10, 15])
    return [b, b + rng.choice([5, 10])]


def gen_population(rng, meta: Meta, nreg, dangling=False):
    """final records: {element: [(vals, rid)]}; every foreign key satisfied (the schema enforces it)"""
    P = {e: [] for e in ORDER}
    rid = lambda p=0.8: (rng.randrange(nreg) if rng.random() < p else None)   # noqa: E731
    tsp = lambda: gen_ts(rng)                                                   # noqa: E731
    insts = [1, 2] if rng.random() < 0.7 else [1]
    bands = [1, 2, 3]
    for i in insts:
        P["instrument"].append(({"instrument": i}, None, None))
    for s in ([1, 2] if rng.random() < 0.5 else [1]):
        P["skymap"].append(({"skymap": s}, None, None))
        for t in rng.sample([1, 2, 3], rng.randint(1, 2)):
            trid = rid()
            P["tract"].append(({"skymap": s, "tract": t}, trid, None))
            for p in rng.sample([0, 1, 2], rng.randint(0 if P["patch"] else 1, 2)):
                # a patch often shares its tract's region (fine-grained joins below a coarse one then return rows)
                P["patch"].append(({"skymap": s, "tract": t, "patch": p}, trid if rng.random() < 0.4 else rid(), None))
    used_bands = set()
    for i in insts:
        for d in rng.sample([1, 2, 3], rng.randint(1, 2)):
            P["detector"].append(({"instrument": i, "detector": d}, None, None))
        for d in rng.sample([5, 6], rng.randint(1, 2)):
            P["day_obs"].append(({"instrument": i, "day_obs": d}, None, tsp()))
        for g in rng.sample([1, 2], rng.randint(1, 2)):
            P["group"].append(({"instrument": i, "group": g}, None, None))
        for f in rng.sample([1, 2, 3], rng.randint(1, 2)):
            b = rng.choice(bands[:2])
            used_bands.add(b)
            P["physical_filter"].append(({"instrument": i, "physical_filter": f, "band": b}, None, None))
        for v in rng.sample([0, 1], rng.randint(0 if P["visit_system"] else 1, 2)):
            P["visit_system"].append(({"instrument": i, "visit_system": v}, None, None))
        pfs = [r[0]["physical_filter"] for r in P["physical_filter"] if r[0]["instrument"] == i]
        dos = [r[0]["day_obs"] for r in P["day_obs"] if r[0]["instrument"] == i]
        grs = [r[0]["group"] for r in P["group"] if r[0]["instrument"] == i]
        for v in rng.sample([1, 2, 3, 4], rng.randint(1, 3)):
            P["visit"].append(({"instrument": i, "visit": v, "day_obs": rng.choice(dos), "physical_filter": rng.choice(pfs)}, rid(), tsp()))
        myvis = [r[0] for r in P["visit"] if r[0]["instrument"] == i]
        linked = set()
        for x in rng.sample([1, 2, 3], rng.randint(0 if P["exposure"] else 1, 2)):
            # most exposures belong to a visit (same day_obs and physical filter, as in real data); some are unrelated
            if rng.random() < 0.75:
                v = rng.choice(myvis)
                do, pf = v["day_obs"], v["physical_filter"]
                if rng.random() < 0.9:
                    linked.add((x, v["visit"]))
            else:
                do, pf = rng.choice(dos), rng.choice(pfs)
            P["exposure"].append(({"instrument": i, "exposure": x, "day_obs": do, "group": rng.choice(grs),
                                   "physical_filter": pf}, None, tsp()))
        vis = [r[0]["visit"] for r in P["visit"] if r[0]["instrument"] == i]
        exs = [r[0]["exposure"] for r in P["exposure"] if r[0]["instrument"] == i]
        dets = [r[0]["detector"] for r in P["detector"] if r[0]["instrument"] == i]
        vss = [r[0]["visit_system"] for r in P["visit_system"] if r[0]["instrument"] == i]
        for x in exs:
            for v in vis:
                if (x, v) in linked or rng.random() < 0.25:
                    P["visit_definition"].append(({"instrument": i, "exposure": x, "visit": v}, None, None))
        for v in vis:
            for d in dets:
                if rng.random() < 0.6:
                    vrid = next(r[1] for r in P["visit"] if r[0]["instrument"] == i and r[0]["visit"] == v)
                    P["visit_detector_region"].append(({"instrument": i, "detector": d, "visit": v},
                                                       vrid if rng.random() < 0.4 else rid(0.85), None))
            for s in vss:
                if rng.random() < 0.6:
                    P["visit_system_membership"].append(({"instrument": i, "visit_system": s, "visit": v}, None, None))
    for b in sorted(used_bands):
        for s in rng.sample([1, 2], rng.randint(0 if P["subfilter"] else 1, 2)):
            P["subfilter"].append(({"band": b, "subfilter": s}, None, None))
    if dangling:
        P["subfilter"].append(({"band": 3, "subfilter": 1}, None, None))      # band 3 is the band of no physical_filter
    return P


def mkop(k, e, vals, rid, ts=None):
    return {"k": k, "e": e, "vals": dict(vals), "rid": rid, "ts": list(ts) if ts is not None else None}


def variant(rng, meta, P, e, vals, rid, nreg, ts=None):
    """another version of the same record: same key, different region and/or implied value and/or timespan"""
    v = dict(vals)
    r = rid
    t = ts
    if meta.el[e].get("temporal") and rng.random() < 0.5:
        t = rng.choice([x for x in ([0, 5], [5, 15], [10, 20], [15, 20], None) if x != ts])
    if meta.el[e]["spatial"] and rng.random() < 0.8:
        r = rng.choice([x for x in list(range(nreg)) + [None] if x != rid])
    for imp in meta.el[e]["implied"]:
        if rng.random() < 0.5:
            if imp == "band":
                v[imp] = rng.choice([1, 2, 3])
            else:
                cand = [q[0][imp] for q in P[imp] if q[0].get("instrument") == vals.get("instrument")]
                if cand:
                    v[imp] = rng.choice(cand)
    return v, r, t


def noise(rng, meta, P, e, vals, rid, nreg, ts=None):
    """operations that must leave the state alone"""
    c = rng.random()
    if c < 0.3:
        return mkop("insert", e, vals, rid, ts)                              # duplicate key: IntegrityError
    if c < 0.5:
        return mkop("sync", e, vals, rid, ts)                                # identical: returns False
    if c < 0.7:
        v, r, t = variant(rng, meta, P, e, vals, rid, nreg, ts)
        return mkop("sync", e, v, r, t)                                      # differs: ConflictingDefinitionError (or same)
    if c < 0.85 and "instrument" in vals and e != "instrument":
        v = dict(vals, instrument=9)
        return mkop(rng.choice(["insert", "sync", "replace"]), e, v, rid, ts)    # parent missing: IntegrityError
    return mkop("insert", "band", {"band": 1}, None)                        # TypeError: band has no table


def history(rng, meta, P, nreg, flavour):
    """ops leading to exactly the final records P"""
    ops, late = [], []
    for e in ORDER:
        recs = list(P[e])
        rng.shuffle(recs)
        for vals, rid, ts in recs:
            if flavour == "plain":
                ops.append(mkop("insert", e, vals, rid, ts))
                continue
            c = rng.random()
            first = "skip" if (flavour == "skip" and rng.random() < 0.5) else "insert"
            if c < 0.3:
                ops.append(mkop("sync", e, vals, rid, ts))
            elif c < 0.5:
                ops.append(mkop(first, e, vals, rid, ts))
            else:
                v, r, t = variant(rng, meta, P, e, vals, rid, nreg, ts)
                ops.append(mkop(rng.choice([first, "sync"]), e, v, r, t))
                fix = mkop(rng.choice(["replace", "syncupd"]), e, vals, rid, ts)
                (late if rng.random() < 0.5 else ops).append(fix)
            if rng.random() < 0.25:
                ops.append(noise(rng, meta, P, e, vals, rid, nreg, ts))
            if flavour == "skip" and rng.random() < 0.2 and not late:
                ops.append(mkop("skip", e, vals, rid, ts))                    # existing, identical: nothing to do
    rng.shuffle(late)
    ops += late
    if flavour == "skip":
        for e in ORDER:
            for vals, rid, ts in P[e]:
                if rng.random() < 0.15:
                    ops.append(mkop("skip", e, vals, rid, ts))
    return ops


def skipdiff_history(rng, meta, P, nreg):
    """plain inserts, then insert(skip_existing=True) of EXISTING spatial records with another region"""
    ops = history(rng, meta, P, nreg, "plain")
    extra = []
    for e in ("visit", "tract", "patch", "visit_detector_region"):
        for vals, rid, ts in P[e]:
            other = [x for x in range(nreg) if x != rid]
            if other and (rid is None or rng.random() < 0.5):
                extra.append(mkop("skip", e, vals, rng.choice(other), ts))
    return ops + extra


# ------------------------------------------------------------------------------------------------------------
# oracle (from the statement)
# ------------------------------------------------------------------------------------------------------------
def expected_rows(meta: Meta, group, P, ov_pairs):
    """All assignments over the group's dimensions consistent with the records P."""
    names = group["names"]
    elements = [e for e in group["elements"] if e in meta.el]
    ov = {tuple(p) for p in ov_pairs} | {(b, a) for a, b in ov_pairs}
    pf_bands = sorted({r[0]["band"] for r in P["physical_filter"]})

    def extend(i, a):
        if i == len(names):
            yield dict(a)
            return
        d = names[i]
        info = meta.el[d]
        if info["view_of"]:
            vals = pf_bands if info["view_of"] == "physical_filter" and d == "band" else []
        else:
            vals = []
            for r, *_ in P[d]:
                if all(r[k] == a[k] for k in meta.cols(d) if k != d):
                    vals.append(r[d])
        for v in vals:
            a[d] = v
            yield from extend(i + 1, a)
        a.pop(d, None)

    out = []
    fams = [f for f in meta.fams if any(m in elements for m in meta.fams[f])]
    for a in extend(0, {}):
        ok = True
        for e in elements:
            info = meta.el[e]
            if info["is_dimension"]:
                continue                    # existence and implied values were imposed while enumerating
            if info["always_join"] or info["implied"]:
                if not any(all(r[k] == a[k] for k in meta.cols(e)) for r, *_ in P[e]):
                    ok = False
                    break
        if ok and len(fams) == 2:
            regs = []
            for f in fams:
                m = next(m for m in meta.fams[f] if m in elements)
                rec = [rid for r, rid, *_ in P[m] if all(r[k] == a[k] for k in meta.el[m]["required"])]
                regs.append(rec[0] if rec else None)
            ok = regs[0] is not None and regs[1] is not None and (regs[0], regs[1]) in ov
        if ok and len(fams) > 2:
            ok = False
        if ok:
            out.append([a[n] for n in names])
    return out


def norm(rows):
    return sorted({tuple(r) for r in rows}, key=lambda t: tuple(-10 ** 9 if x is None else x for x in t))


# ------------------------------------------------------------------------------------------------------------
# Coq literals
# ------------------------------------------------------------------------------------------------------------
def c_asg(meta, e, vals):
    return clist(f"({cstr(d)}, {cz(vals[d])})" for d in meta.cols(e) if d in vals)


def c_op(meta, o):
    if o["e"] not in meta.el or meta.el[o["e"]]["view_of"]:
        asg = clist(f"({cstr(d)}, {cz(v)})" for d, v in o["vals"].items())
    else:
        asg = c_asg(meta, o["e"], o["vals"])
    return f"(mkOp {KINDS[o['k']]} {cstr(o['e'])} (mkRec {asg} {copt(o['rid'], cn)} {c_ts(o.get('ts'))}))"


def c_ts(ts):
    return "None" if ts is None else f"(Some ({cz(ts[0])}, {cz(ts[1])}))"


def c_rrow(r):
    """[vals, rid, ts] -> JoinCheck.rrow"""
    # fully annotated: a shard whose rows all have NULL regions / timespans must still type-check
    reg = "(@None N)" if r[1] is None else f"(Some {cn(r[1])})"
    ts = "(@None (Z * Z))" if r[2] is None else c_ts(r[2])
    return f"(({c_zl(r[0])}, {reg}, {ts}) : rrow)"


def flat(r):
    """[vals, rid, ts] -> vals + [rid, ts_begin, ts_end] for the oracle's comparisons"""
    ts = r[2] if len(r) > 2 and r[2] is not None else [None, None]
    return list(r[0]) + [r[1], ts[0], ts[1]]


def c_zl(l):
    return clist(cz(x if x is not None else -1) for x in l)


def c_geom(geom):
    env = clist(f"({cn(int(k))}, {clist(cn(p) for p in v)})" for k, v in sorted(geom["env"].items(), key=lambda kv: int(kv[0])))
    ov = clist(f"({cn(a)}, {cn(b)})" for a, b in geom["ov_impl"])
    return env, ov


# ------------------------------------------------------------------------------------------------------------
def load_known_d(ctx):
    """known_findings.json is assembled from known_findings.d by the integrator; until then read our own entries"""
    p = VERIF / "known_findings.d" / "C06.json"
    if p.exists():
        have = {k["id"] for k in ctx.known}
        for k in json.loads(p.read_text()):
            if k.get("property") == "C06" and k["id"] not in have:
                ctx.known.append(k)


def sample_groups(rng, groups, quick, k):
    """groups for one population: every group with two spatial families first, then a seeded sample of the others
    (thorough: all).  Histories other than the first run a seeded sub-sample (see build_payloads)."""
    two = [g for g in groups if len(g["spatial"]) == 2]
    rest = [g for g in groups if len(g["spatial"]) < 2 and g["names"]]
    if not quick:
        return two + rest
    return two + rng.sample(rest, min(k, len(rest)))


def sub_sample(rng, gs, n_two, n_rest):
    two = [g for g in gs if len(g["spatial"]) == 2]
    rest = [g for g in gs if len(g["spatial"]) < 2]
    return rng.sample(two, min(n_two, len(two))) + rng.sample(rest, min(n_rest, len(rest)))


def closure_group(gby_sets, names):
    """the dependency closure of a set of dimension names = the smallest closed group containing them"""
    want = set(names)
    best = None
    for key, g in gby_sets:
        if want <= key and (best is None or len(key) < len(best["names"])):
            best = g
    return best


def finest(meta, g, fam):
    return next((m for m in meta.fams[fam] if m in g["elements"]), None)


def op_embedded(meta, D, ons):
    """both most fine-grained spatial members of the query's dimensions are elements of the operand's group"""
    if len(D["spatial"]) != 2:
        return False
    return all(finest(meta, D, f) in ons["elements"] for f in D["spatial"])


def gen_opqueries(rng, meta, groups, P, ov_unknown, n):
    """(G, operand group, kind) triples: operands coarser than / equal to / finer than the query, with one or two spatial
    families, joined as a materialization, an upload of data IDs, or a dataset search; at least a third of them are
    two-family queries whose operand does NOT carry the fine-grained join"""
    gby_sets = [(set(g["names"]), g) for g in groups]
    two = [g for g in groups if len(g["spatial"]) == 2]
    nonempty = [g for g in groups if g["names"]]
    buckets = {"noembed": [], "embed": [], "other": []}
    tries = 0
    while tries < 400 and (len(buckets["noembed"]) < n or len(buckets["embed"]) < n or len(buckets["other"]) < n):
        tries += 1
        G = rng.choice(two) if rng.random() < 0.7 else rng.choice(nonempty)
        ons = rng.choice(two) if rng.random() < 0.7 else rng.choice([g for g in nonempty if len(g["names"]) <= 8])
        D = closure_group(gby_sets, set(G["names"]) | set(ons["names"]))
        if D is None or len(D["names"]) > 11:
            continue
        if len(D["spatial"]) == 2 and len(ons["spatial"]) == 2:
            b = "embed" if op_embedded(meta, D, ons) else "noembed"
        else:
            b = "other"
        if len(buckets[b]) < n:
            buckets[b].append((G, ons, D))
    k = max(1, n // 3)
    picked = buckets["noembed"][:n - 2 * k] + buckets["embed"][:k] + buckets["other"][:k]
    out = []
    for i, (G, ons, D) in enumerate(picked):
        kind = ("mat", "upload", "dataset")[(i + rng.randrange(3)) % 3]
        if kind == "dataset" and "subfilter" in ons["names"] and "physical_filter" in ons["names"]:
            # registerDatasetType raises ConstraintColumnNotFoundError for such a group (band is required by subfilter and
            # implied by physical_filter: the tags table has no band column to index) -- outside C06, see design.d
            kind = "upload"
        out.append({"G": G, "ons": ons, "D": D, "kind": kind,
                    "frac": rng.choice([0.5, 0.8, 1.0]), "skip": rng.randrange(5)})
    return out


def build_payloads(ctx, meta, groups, npop, k_groups, quick):
    payloads, descr = [], []
    for pi in range(npop):
        rng = ctx.rng
        nreg = rng.randint(4, 7)
        regions = gen_regions(rng, nreg)
        dangling = (pi % 4 == 3)
        P = gen_population(rng, meta, nreg, dangling=dangling)
        hs = [{"name": "plain", "ops": history(rng, meta, P, nreg, "plain")},
              {"name": "mixed", "ops": history(rng, meta, P, nreg, "mixed")},
              {"name": "skip", "ops": history(rng, meta, P, nreg, "skip")}]
        if pi % 3 == 0:
            hs.append({"name": "skipdiff", "ops": skipdiff_history(rng, meta, P, nreg)})
        gs = sample_groups(rng, groups, quick, k_groups)
        for k, h in enumerate(hs):
            hg = gs if k == 0 else sub_sample(rng, gs, 12 if quick else 48, 10 if quick else 60)
            h["groups"] = [g["names"] for g in hg]
            h["_groups"] = hg
            h["_opq"] = gen_opqueries(rng, meta, groups, P, None, 9 if quick else 24) if h["name"] in ("plain", "mixed") else []
            h["opqueries"] = [{"G": q["G"]["names"], "ons": q["ons"]["names"], "kind": q["kind"], "frac": q["frac"], "skip": q["skip"]}
                              for q in h["_opq"]]
        payloads.append({"regions": regions, "histories": [{k: v for k, v in h.items() if not k.startswith("_")} for h in hs],
                         "groups": [g["names"] for g in gs], "records_query": True})
        descr.append({"P": P, "groups": gs, "hgroups": [h["_groups"] for h in hs], "dangling": dangling, "regions": regions,
                      "opq": [h["_opq"] for h in hs]})
    return payloads, descr


def check_opqueries(ctx, meta, pi, tag, hname, h, ho, d, P, ovx, exp_cache, ocases):
    """queries with a join operand: oracle (brute-force join over the closure of the requested and the operand's dimensions,
    restricted to the rows whose projection lies in the operand, projected on the requested dimensions) + model cases"""
    for oq, obs in zip(d["opq"], ho.get("opqueries", [])):
        G, ons, D, kind = oq["G"], oq["ons"], oq["D"], oq["kind"]
        ctx.count()
        case = {"population": pi, "history": hname, "dimensions": G["names"], "operand_dimensions": ons["names"], "operand_kind": kind,
                "frac": oq.get("frac", 1.0), "skip": oq.get("skip", 0), "ops": h["ops"], "regions": d["regions"]}
        if obs.get("ds") != D["names"]:
            ctx.tie_broken("harness", "operand closure", f"{G['names']} + {ons['names']}: {obs.get('ds')} vs {D['names']}")
            continue
        if "skipped" in obs:
            ctx.hist("operand_query", f"{kind}:skipped-empty")
            continue
        two = len(D["spatial"]) == 2
        shape = ("embedded" if op_embedded(meta, D, ons) else "not-embedded") if two and len(ons["spatial"]) == 2 else "plain"
        if "err" in obs:
            ctx.hist("operand_query", f"{kind}:{shape}:{obs['err'].split(':')[0]}")
            sig = f"operand-query-raises:{kind}:{shape}"
            if d["dangling"] and kind == "dataset" and "subfilter" in ons["names"] and "physical_filter" not in ons["names"] \
                    and "DataIdValueError" in obs["err"] and "dimension band" in obs["err"]:
                # known finding 3 seen through insertDatasets: the operand's data IDs are what the implementation's own query over
                # the operand's group returns, including the subfilter whose band no physical_filter has; expanding that data ID fails
                sig = "dangling-band:subfilter"
            ctx.oracle_fail(sig, dict(case, error=obs["err"]), "a data-ID query with a join operand raised")
            continue
        for g in (D, ons):
            key = tuple(g["names"])
            if key not in exp_cache:
                exp_cache[key] = norm(expected_rows(meta, g, P, ovx))
        R = {tuple(r) for r in (exp_cache[tuple(ons["names"])] if kind == "mat" else obs.get("given", []))}
        io = [D["names"].index(n) for n in ons["names"]]
        ig = [D["names"].index(n) for n in G["names"]]
        want = norm([[a[i] for i in ig] for a in exp_cache[tuple(D["names"])] if tuple(a[i] for i in io) in R])
        got = norm(obs["rows"])
        ctx.hist("operand_query", f"{kind}:{shape}:{'rows' if want else 'empty'}")
        if len(obs["rows"]) != len(got):
            ctx.oracle_fail(f"operand-duplicate-rows:{kind}", dict(case, n=len(obs["rows"]), distinct=len(got)), "duplicate data IDs returned")
        if got != want:
            extra = [x for x in got if x not in want][:4]
            missing = [x for x in want if x not in got][:4]
            sig = f"operand-rows-differ:{kind}:{shape}:{'extra' if extra else ''}{'missing' if missing else ''}"
            if d["dangling"] and "subfilter" in D["names"] and "physical_filter" not in D["names"] and "band" in G["names"] and not missing \
                    and all(x[G["names"].index("band")] == 3 for x in got if x not in want):
                sig = "dangling-band:subfilter"          # known finding 3: the only unexpected rows carry the band no physical_filter has
            ctx.oracle_fail(sig,
                            dict(case, unexpected_rows=extra, missing_rows=missing, expected_n=len(want), got_n=len(got),
                                 operand_rows=sorted(R)[:40]),
                            "a query joined to a materialization / uploaded data IDs / a dataset search does not return exactly the "
                            "combinations consistent with the stored records that lie in the operand")
        if want and shape == "not-embedded":
            ctx.nontrivial({"p": pi, "h": hname, "g": G["names"], "o": ons["names"], "k": kind, "n": len(want)})
        if ocases is not None:
            given = "(" + clist("(" + clist(f"({cstr(n)}, {cz(v)})" for n, v in zip(ons["names"], r)) + " : asg)"
                                for r in (obs.get("given", []) if kind != "mat" else [])) + " : list asg)"
            ocases.append((f"(ov_{pi}, (s_{tag}, {clist(cstr(n) for n in G['names'])}, {clist(cstr(n) for n in D['names'])}, "
                           f"{clist(cstr(n) for n in ons['names'])}, {cn(0 if kind == 'mat' else 1)}, {given}, "
                           f"(0%N, ({clist(c_zl(r) for r in got)} : list (list Z)))))", dict(case, observed=got[:30], closure=D["names"])))


def check_population(ctx: Ctx, meta: Meta, pi, payload, d, res, hcases, qcases, defs, model=True, rcases=None, tcases=None, ocases=None):
    """oracle on one population's observations + emission of the model cases"""
    P = d["P"]
    # region ids with the same box are one region as far as the stored bytes go: use the smallest id everywhere
    canon, first = {}, {}
    for k in sorted(d["regions"], key=int):
        canon[int(k)] = first.setdefault(tuple(d["regions"][k]), int(k))
    if any(k != v for k, v in canon.items()):
        cr = lambda x: canon.get(x, x) if x is not None else None      # noqa: E731
        P = {e: [(r, cr(rid), ts) for r, rid, ts in P[e]] for e in P}
        payload = dict(payload, histories=[dict(h, ops=[dict(o, rid=cr(o.get("rid"))) for o in h["ops"]]) for h in payload["histories"]])
        ctx.hist("generator", "populations with two region ids for one box (canonicalised)")
    geom = res["geometry"]
    ovx = geom["ov_exact"]
    # hypothesis env_sound, exercised on every population: overlapping regions share a pixel of the envelope
    for a, b in ovx:
        if not set(geom["env"][str(a)]) & set(geom["env"][str(b)]):
            ctx.tie_broken("hypothesis", "env_sound", f"regions {d['regions'][str(a)]} and {d['regions'][str(b)]} overlap but their "
                           f"common-skypix envelopes share no pixel")
    if sorted(map(tuple, geom["ov_impl"])) != sorted(map(tuple, ovx)):
        ctx.cov["structural_drift"].append({"what": "Region.overlaps (used by post-processing) and Region.relate disagree",
                                            "undecided": geom["undecided"][:5]})
    env_c, ov_c = c_geom(geom)
    defs.append(f"Definition env_{pi} := mk_env {env_c}.\nDefinition ov_{pi} := mk_ov {ov_c}.")
    want_tables = {e: norm([flat([[r[k] for k in meta.cols(e)], rid, ts]) for r, rid, ts in P[e]]) for e in ORDER}
    want_ovl = {e: norm([[r[k] for k in meta.el[e]["required"]] + [p] for r, rid, _ts in P[e] if rid is not None
                         for p in geom["env"][str(rid)]]) for e in ORDER if meta.el[e]["spatial"]}
    if tcases is not None:
        for a, b, outc in res.get("tjoins", []):
            ctx.hist("explicit_temporal_join", f"{a}~{b}:{outc.split(':')[0]}")
            tcases.append((f"({cstr(a)}, {cstr(b)}, {cn({'rows': 0, 'invalid': 2}.get(outc, 9))})", {"a": a, "b": b, "observed": outc}))
    exp_cache = {}
    ref = None
    for hi, (h, ho) in enumerate(zip(payload["histories"], res["histories"])):
        hname = h["name"]
        tag = f"{pi}_{hi}"
        if "fatal" in ho:
            ctx.tie_broken("harness", "worker", ho["fatal"])
            continue
        for o, out in zip(h["ops"], ho["outcomes"]):
            ctx.hist("op", f"{o['k']}:{out.split(':')[0]}")
        # --- model cases: the history
        outs = clist(cn(OUT_CODE.get(x, 6)) for x in ho["outcomes"])
        tabs = clist(f"({cstr(e)}, ({clist(c_rrow(r) for r in rows)} : list rrow))" for e, rows in ho["tables"].items())
        ovs = clist(f"({cstr(e)}, ({clist(f'({c_zl(r[0])}, {cn(r[1])})' for r in rows)} : list (list Z * N)))"
                    for e, rows in ho["overlaps"].items() if ":" not in e)
        defs.append(f"Definition h_{tag} : list op := {clist(c_op(meta, o) for o in h['ops'])}.\n"
                    f"Definition s_{tag} : st := Eval vm_compute in run_hist jc_current env_{pi} h_{tag} st0.")
        hcases.append((f"(env_{pi}, (h_{tag}, {outs}, {tabs}, {ovs}))",
                       {"population": pi, "history": hname, "ops": h["ops"], "regions": d["regions"], "outcomes": ho["outcomes"]}))
        # --- oracle: final tables are the intended records; the overlap tables are the envelopes of the stored regions
        for e in ORDER:
            got = norm([flat(r) for r in ho["tables"].get(e, [])])
            if got != want_tables[e]:
                ctx.oracle_fail(f"final-records:{hname}:{e}", {"population": pi, "history": hname, "ops": h["ops"], "regions": d["regions"],
                                                               "element": e, "want": want_tables[e], "got": got},
                                "the stored dimension records after the history are not the records it leads to")
            if "records" in ho:
                rq = ho["records"].get(e, {})
                gotq = norm([flat(r) for r in rq.get("rows", [])]) if "rows" in rq else rq.get("err")
                # model cases: quick tier on the first two histories of a population (the oracle above looks at all of them)
                if rcases is not None and e in meta.el and meta.el[e]["has_own_table"] and (hi < 2 or not ctx.quick):
                    if "rows" in rq:
                        robs = f"(0%N, ({clist(c_rrow(r) for r in rq['rows'])} : list rrow))"
                    else:
                        robs = f"({cn({'crash': 1, 'invalid': 2}.get(rq.get('err'), 9))}, (@nil rrow))"
                    rcases.append((f"(ov_{pi}, (s_{tag}, {cstr(e)}, {robs}))",
                                   {"population": pi, "history": hname, "element": e, "ops": h["ops"], "regions": d["regions"],
                                    "returned": rq.get("rows", rq.get("err"))}))
                ctx.count()
                # a record is returned under its data ID, so only records whose own data ID is consistent can be
                # (a visit_definition row linking an exposure and a visit of different physical filters cannot)
                eg = d.get("egroups", {}).get(e)
                wantq = got
                if eg is not None:
                    key = ("rec", e)
                    if key not in exp_cache:
                        exp_cache[key] = {tuple(x[eg["names"].index(k)] for k in meta.cols(e)) for x in expected_rows(meta, eg, P, ovx)}
                    wantq = [x for x in got if tuple(x[:-3]) in exp_cache[key]]
                if gotq != wantq:
                    dsig = f"query_dimension_records:{e}"
                    if d["dangling"] and e == "subfilter" and isinstance(gotq, list) and all(x in gotq for x in wantq) \
                            and all(x[0] == 3 for x in gotq if x not in wantq):
                        dsig = "dangling-band:subfilter"
                    ctx.oracle_fail(dsig, {"population": pi, "history": hname, "ops": h["ops"],
                                                                     "regions": d["regions"], "element": e, "stored": wantq, "returned": gotq},
                                    "query_dimension_records does not return the stored records")
        for e, want in want_ovl.items():
            got = norm([r[0] + [r[1]] for r in ho["overlaps"].get(e, [])])
            ctx.count()
            if got != want:
                kinds = sorted({o["k"] for o in h["ops"]})
                sig = f"overlap-rows-stale:{'skip_existing' if hname == 'skipdiff' else hname}:{e}"
                extra = [x for x in got if x not in want][:4]
                missing = [x for x in want if x not in got][:4]
                ctx.oracle_fail(sig, {"population": pi, "history": hname, "ops": h["ops"], "regions": d["regions"], "element": e,
                                      "rows_not_of_the_stored_region": extra, "rows_missing": missing, "op_kinds": kinds},
                                "the materialised common-skypix overlap rows are not the envelope of the stored regions")
        for k in ho["overlaps"]:
            if ":" in k:
                ctx.oracle_fail("overlap-rows-other-system", {"population": pi, "history": hname, "table": k}, "rows for another skypix system")
        # --- queries
        hgroups = d["hgroups"][hi] if "hgroups" in d else d["groups"]
        for g, q in zip(hgroups, ho["queries"]):
            names = g["names"]
            key = tuple(names)
            if key not in exp_cache:
                exp_cache[key] = norm(expected_rows(meta, g, P, ovx))
            want = exp_cache[key]
            case = {"population": pi, "history": hname, "dimensions": names, "ops": h["ops"], "regions": d["regions"]}
            two = len(g["spatial"]) == 2
            for api in ("new", "simple", "legacy"):
                ctx.count()
                if api + "_err" in q:
                    err = q[api + "_err"]
                    ctx.hist("query_outcome", f"{api}:{err.split(':')[0]}")
                    if err == "crash":
                        sig = f"query-raises:{'skip_existing' if hname == 'skipdiff' else hname}:TypeError"
                    else:
                        sig = f"query-raises:{hname}:{api}:{err.split(':')[1] if ':' in err else err}"
                    ctx.oracle_fail(sig, dict(case, api=api, error=err), "a data-ID query over valid dimensions raised")
                    continue
                got = norm(q[api])
                ctx.hist("query_outcome", f"{api}:rows")
                if api != "legacy" and len(q[api]) != len(got):
                    ctx.oracle_fail(f"duplicate-rows:{api}", dict(case, api=api, n=len(q[api]), distinct=len(got)), "duplicate data IDs returned")
                if got != want:
                    extra = [x for x in got if x not in want][:3]
                    missing = [x for x in want if x not in got][:3]
                    if d["dangling"] and "subfilter" in names and "physical_filter" not in names and not missing \
                            and all(x[names.index("band")] == 3 for x in [y for y in got if y not in want]):
                        sig = "dangling-band:subfilter"
                    elif hname == "skipdiff":
                        sig = f"rows-differ:skip_existing:{'spatial' if two else 'plain'}"
                    else:
                        sig = f"rows-differ:{api}:{hname}:{'spatial' if two else 'plain'}:{'extra' if extra else ''}{'missing' if missing else ''}"
                    ctx.oracle_fail(sig, dict(case, api=api, unexpected_rows=extra, missing_rows=missing, expected_n=len(want), got_n=len(got)),
                                    "the query does not return exactly the combinations consistent with the stored records")
            # non-triviality: something was joined and something was excluded
            if want and len(names) >= 3 and (two or any(meta.el[e]["always_join"] or meta.el[e]["implied"] for e in g["elements"] if e in meta.el)):
                ctx.nontrivial({"p": pi, "h": hname, "g": names, "n": len(want)})
            ctx.hist("group_size", len(names))
            ctx.hist("result_size", min(len(want), 20) // 5 * 5)
            ctx.hist("query_rows", "empty" if not want else "nonempty")
            if two:
                ctx.hist("spatial_query", "nonempty" if want else "empty")
            # model case on the `new` interface
            if "new" in q:
                obs = f"(0%N, ({clist(c_zl(r) for r in norm(q['new']))} : list (list Z)))"
            else:
                code = {"crash": 1, "invalid": 2}.get(q.get("new_err"), 9)
                obs = f"({cn(code)}, (@nil (list Z)))"
            qcases.append((f"(ov_{pi}, (s_{tag}, {clist(cstr(n) for n in names)}, {obs}))", dict(case, observed=q.get("new", q.get("new_err")))))
        if d.get("opq") and hi < len(d["opq"]) and d["opq"][hi]:
            check_opqueries(ctx, meta, pi, tag, hname, h, ho, dict(d, opq=d["opq"][hi]), P, ovx, exp_cache, ocases)
        if hi == 0:
            ctx.sample({"population": {e: [[list(r.values()), rid, ts] for r, rid, ts in P[e]] for e in ORDER if P[e]},
                        "regions": d["regions"], "history_lengths": [len(x["ops"]) for x in payload["histories"]],
                        "example_query": {"dimensions": d["groups"][0]["names"], "rows": exp_cache.get(tuple(d["groups"][0]["names"]))}}, cap=3)


def config_cases(meta: Meta):
    cases = []
    for n, e in meta.el.items():
        fam = e["spatial"] or ""
        members = meta.fams.get(fam, []) if fam else []
        cases.append(f"({cstr(n)}, {cbool(e['defines_relationships'])}, {cbool(e['has_own_table'])}, {cstr(e['view_of'] or '')}, "
                     f"{cstr(fam)}, {clist(cstr(m) for m in members)})")
    return cases


def run_model(ctx, defs, hcases, qcases, ecases, rcases=(), tcases=(), telems=(), ocases=()):
    header = HEADER + "\n".join(defs) + "\n"
    ctx.log(f"model: {len(hcases)} histories, {len(qcases)} queries, {len(rcases)} record queries")
    bad = ctx.coq_cases("config", HEADER, ecases, "chk_elem jc_current", shard=400)
    for i in bad or []:
        ctx.disagreement("config", {"case": ecases[i]}, "the universe's element metadata differs from the model's configuration")
    shard = max(20, (len(hcases) + 5) // 6)
    bad = ctx.coq_cases("hist", header, [c for c, _ in hcases], "fun c => chk_hist jc_current (fst c) (snd c)", shard=shard, timeout=900)
    for i in bad or []:
        ctx.disagreement("history", hcases[i][1], "model and implementation differ on outcomes, final tables or overlap tables")
    shard = max(50, (len(qcases) + 7) // 8)
    bad = ctx.coq_cases("query", header, [c for c, _ in qcases], "fun c => chk_query jc_current (fst c) (snd c)", shard=shard, timeout=900)
    for i in bad or []:
        ctx.disagreement("query", qcases[i][1], "model (run_plan) and implementation (Butler.query().data_ids()) return different rows")
    ctx.log("model: histories and queries evaluated")
    # the pruned enumeration used above against the model's own brute-force definition, where that is affordable
    small = [(c, i) for c, i in qcases if len(i["dimensions"]) <= (7 if ctx.quick else 8)]
    bad = ctx.coq_cases("fast", header, [c for c, _ in small], "fun c => chk_fast jc_current (fst c) (snd c)",
                        shard=max(50, (len(small) + 3) // 4), timeout=900)
    for i in bad or []:
        ctx.disagreement("fast-evaluator", small[i][1], "JoinCheck.fquery differs from Join.query (checker machinery, not the implementation)")
    ctx.hist("model", "fast evaluator cross-checked against the brute-force definition", len(small))
    # query_dimension_records inside the model
    if rcases:
        bad = ctx.coq_cases("records", header, [c for c, _ in rcases], "fun c => chk_records jc_current (fst c) (snd c)",
                            shard=max(50, (len(rcases) + 3) // 4), timeout=900)
        for i in bad or []:
            ctx.disagreement("records", rcases[i][1], "model (qrecords) and implementation (Butler.query_dimension_records) return different records")
        # the pruned evaluation against the definition `qrecords`: quick tier on the plain history of every population
        rsmall = [rc for rc in rcases if not ctx.quick or rc[1]["history"] == "plain"]
        bad = ctx.coq_cases("rfast", header, [c for c, _ in rsmall], "fun c => chk_rfast jc_current (fst c) (snd c)",
                            shard=max(50, (len(rsmall) + 3) // 4), timeout=900)
        for i in bad or []:
            ctx.disagreement("fast-evaluator-records", rsmall[i][1], "JoinCheck.fqrecords differs from Join.qrecords (checker machinery)")
        ctx.hist("model", "record queries evaluated in the model", len(rcases))
        ctx.log("model: record queries evaluated")
    if ocases:
        bad = ctx.coq_cases("opquery", header, [c for c, _ in ocases], "fun c => chk_opquery jc_current (fst c) (snd c)",
                            shard=max(20, (len(ocases) + 3) // 4), timeout=900)
        for i in bad or []:
            ctx.disagreement("operand-query", ocases[i][1], "model (query_op) and implementation (query joined to a materialization / upload / "
                             "dataset search) return different rows")
        osmall = [oc for oc in ocases if len(oc[1]["closure"]) <= 7]
        bad = ctx.coq_cases("opfast", header, [c for c, _ in osmall], "fun c => chk_opfast jc_current (fst c) (snd c)",
                            shard=max(20, (len(osmall) + 2) // 3), timeout=900)
        for i in bad or []:
            ctx.disagreement("fast-evaluator-operand", osmall[i][1], "JoinCheck.fquery_op differs from Join.query_op (checker machinery)")
        ctx.hist("model", "operand queries evaluated in the model", len(ocases))
        ctx.log("model: operand queries evaluated")
    if telems:
        bad = ctx.coq_cases("tconfig", HEADER, list(telems), "chk_telem jc_current", shard=400)
        for i in bad or []:
            ctx.disagreement("config", {"case": telems[i]}, "the element's temporal family differs from the model's universe")
    if tcases:
        bad = ctx.coq_cases("tjoin", HEADER, [c for c, _ in tcases], "chk_tjoin jc_current", shard=400)
        for i in bad or []:
            ctx.disagreement("temporal-join", tcases[i][1], "explicit temporal join between two dimension elements: model and implementation differ")


def corpus_payloads():
    out = []
    d = VERIF / "corpus" / "C06"
    for f in sorted(d.glob("*.json")):
        out.append((f.name, json.loads(f.read_text())))
    return out


def run_corpus(ctx, meta, groups, defs, hcases, qcases, rcases=None, ocases=None):
    gby = {tuple(g["names"]): g for g in groups}
    items = corpus_payloads()
    if not items:
        return
    payloads, descr = [], []
    for name, c in items:
        P = {e: [(r[0], r[1], r[2] if len(r) > 2 else None) for r in c["population"].get(e, [])] for e in ORDER}
        gs = [gby[tuple(n)] for n in c["groups"] if tuple(n) in gby]
        payloads.append({"regions": c["regions"], "histories": c["histories"], "groups": [g["names"] for g in gs], "records_query": True})
        gby_sets = [(set(g["names"]), g) for g in groups]
        opq = [[{"G": gby[tuple(q["G"])], "ons": gby[tuple(q["ons"])], "kind": q["kind"],
                 "D": closure_group(gby_sets, set(q["G"]) | set(q["ons"]))} for q in h.get("opqueries", [])] for h in c["histories"]]
        descr.append({"P": P, "groups": gs, "dangling": c.get("dangling", False), "regions": c["regions"], "opq": opq})
    results = parallel_workers("c06_impl", "run_population", payloads, timeout=300)
    for k, ((name, c), pl, d, (stt, res)) in enumerate(zip(items, payloads, descr, results)):
        if stt != "ok":
            ctx.tie_broken("harness", f"corpus {name}", f"{stt}: {str(res)[:300]}")
            continue
        d["egroups"] = element_groups(meta, groups)
        check_population(ctx, meta, 900 + k, pl, d, res, hcases, qcases, defs, rcases=rcases, ocases=ocases)
    ctx.hist("corpus", "cases", len(items))


def element_groups(meta, groups):
    """the smallest closed group containing an element's required dimensions (its records' data IDs live there)"""
    out = {}
    for e in ORDER:
        req = set(meta.el[e]["required"])
        best = None
        for g in groups:
            if req <= set(g["names"]) and (best is None or len(g["names"]) < len(best["names"])):
                best = g
        out[e] = best
    return out


def shrink_failures(ctx: Ctx, meta, groups, limit=3):
    """History shrinker for replays: for the first few distinct genuine failures, greedily remove operations from the
    recorded history while the IMPLEMENTATION (re-run on a fresh repository each time) still shows the same kind of
    failure; the result is added to the replay as `shrunk_ops`."""
    gby = {tuple(g["names"]): g for g in groups}
    egroups = element_groups(meta, groups)
    jobs, reps, seen = [], [], set()
    for sig, rp in ctx.oracle_failures:
        if sig in seen or "ops" not in rp or "regions" not in rp:
            continue
        seen.add(sig)
        base = {"regions": rp["regions"], "ops": rp["ops"], "budget_s": 100}
        if sig.startswith("overlap-rows-stale"):
            job = dict(base, kind="overlap", element=rp["element"])
        elif sig.startswith("query-raises") and tuple(rp.get("dimensions", ())) in gby:
            job = dict(base, kind="raises", group=gby[tuple(rp["dimensions"])], api=rp.get("api", "new"))
        elif (sig.startswith("rows-differ") or sig.startswith("dangling-band")) and tuple(rp.get("dimensions", ())) in gby:
            job = dict(base, kind="rows", group=gby[tuple(rp["dimensions"])], api=rp.get("api", "new"))
        elif sig.startswith("operand-") and tuple(rp.get("dimensions", ())) in gby and tuple(rp.get("operand_dimensions", ())) in gby:
            G, ons = gby[tuple(rp["dimensions"])], gby[tuple(rp["operand_dimensions"])]
            D = closure_group([(set(g["names"]), g) for g in groups], set(G["names"]) | set(ons["names"]))
            job = dict(base, kind="oprows", group=G, operand_group=ons, closure_group=D,
                       opquery={"G": G["names"], "ons": ons["names"], "kind": rp["operand_kind"], "frac": rp.get("frac", 1.0), "skip": rp.get("skip", 0)})
        elif sig.startswith("query_dimension_records:") and egroups.get(rp.get("element")):
            job = dict(base, kind="records", element=rp["element"], group=egroups[rp["element"]])
        else:
            continue
        jobs.append(job)
        reps.append(rp)
        if len(jobs) >= limit:
            break
    if not jobs:
        return
    results = parallel_workers("c06_impl", "shrink", jobs, timeout=240)
    for rp, (stt, res) in zip(reps, results):
        if stt == "ok" and res.get("reproduced"):
            rp["shrunk_ops"] = res["ops"]
            rp["shrunk_note"] = (f"greedy removal of operations re-running the implementation: {len(rp['ops'])} -> {len(res['ops'])} "
                                 f"operations in {res['trials']} trials; the failure predicate compares the implementation with a "
                                 f"brute-force evaluation over the records it stored itself")
            ctx.log(f"shrunk {rp.get('signature', '?')}: {len(rp['ops'])} -> {len(res['ops'])} operations ({res['trials']} trials)")
        else:
            rp["shrunk_note"] = f"not shrunk: {stt} {str(res)[:200]}"
    ctx.hist("shrinker", "replays shrunk", sum(1 for r in reps if "shrunk_ops" in r))


def _main(ctx: Ctx, quick: bool, model: bool = True):
    stt, info = run_worker("c06_impl", "list_groups", {}, timeout=300)
    if stt != "ok":
        ctx.tie_broken("harness", "list_groups", f"{stt}: {str(info)[:400]}")
        return None, None
    meta = Meta(info["universe"])
    groups = info["groups"]
    ctx.hist("groups", "closed groups of the non-skypix dimensions", len(groups))
    ctx.hist("groups", "with two spatial families", sum(1 for g in groups if len(g["spatial"]) == 2))
    defs, hcases, qcases, rcases, tcases, ocases = [], [], [], [], [], []
    run_corpus(ctx, meta, groups, defs, hcases, qcases, rcases, ocases)
    npop = 5 if quick else 8
    payloads, descr = build_payloads(ctx, meta, groups, npop, 16, quick)
    egroups = element_groups(meta, groups)
    for d in descr:
        d["egroups"] = egroups
    if payloads:
        payloads[0]["temporal_joins"] = True
    ctx.log(f"implementation: {len(payloads)} populations x {sum(len(p['histories']) for p in payloads)} histories")
    results = parallel_workers("c06_impl", "run_population", payloads, timeout=900 if quick else 2400)
    ctx.log("implementation: done")
    for pi, (pl, d, (stt, res)) in enumerate(zip(payloads, descr, results)):
        if stt != "ok":
            ctx.tie_broken("harness", "worker", f"population {pi}: {stt}: {str(res)[:400]}")
            continue
        check_population(ctx, meta, pi, pl, d, res, hcases, qcases, defs, rcases=rcases, tcases=tcases, ocases=ocases)
    if model:
        telems = [f"({cstr(n)}, {cstr(e.get('temporal') or '')})" for n, e in meta.el.items()]
        run_model(ctx, defs, hcases, qcases, config_cases(meta), rcases, tcases, telems, ocases)
    return meta, groups


def run(ctx: Ctx):
    load_known_d(ctx)
    ctx.assumptions += [
        "the SQL engine's join is modelled relationally: an assignment is in the natural join of the planned tables iff every "
        "planned table has a row agreeing with it on that table's key columns (Model/Join.v `joined`); SELECT DISTINCT = set semantics",
        "region geometry is abstract in the proofs: ov (exact overlap) and env (common-skypix envelope) are Section variables with the "
        "hypothesis env_sound (overlapping regions share an envelope pixel); lsst.sphgeom supplies both to the model on every run and "
        "env_sound is checked on every generated population",
        "foreign keys are enforced by the database (every required/implied dimension column except the view-of dimension band); "
        "the model's fk_ok mirrors the schema, compared per operation outcome on every history",
        "Python's tie-break in max(missing_dimension_names, ...) depends on set iteration order; plan_correct is proved for EVERY covering plan",
    ]
    ctx.cov["rule"] = (
        "populations: 1-2 instruments and skymaps with overlapping ids, every element with a table, lon/lat boxes on a half-degree "
        "lattice (equal / nested / touching / partially overlapping / far apart / NULL regions); histories: plain inserts, a mixed "
        "insert/sync/replace/sync-update history with refused operations and late replacements, one with skip_existing, all leading to "
        "the same final records (+ the skip_existing-with-another-region history of the known finding on every third population); "
        "groups: every closed group with two spatial families + a seeded sample of the others (thorough: all 460). "
        "A query case is non-trivial when it has >= 3 dimensions, involves a relationship-defining table or a spatial join, and returns rows"
    )
    ctx.regen("universe", utr.translate)
    ok = ctx.build_props(extra_targets=["Model/JoinCheck.vo"])
    if not ok:
        coq_make(["Model/JoinCheck.vo", "Gen/Universes.vo"])
    meta, groups = _main(ctx, ctx.quick)
    if ctx.broken and not ctx.oracle_failures and ctx.quick:
        ctx.log("something no longer checks and the oracle held: running the thorough-size search on the implementation")
        ctx.cov["search"] = ("thorough-size generation (8 populations x 3-4 histories x all 460 closed groups) was run on the "
                             "implementation; the property oracle held on every case")
        meta, groups = _main(ctx, quick=False, model=False)
    if ctx.oracle_failures and meta is not None:
        try:
            shrink_failures(ctx, meta, groups)
        except Exception as exc:  # noqa: BLE001
            ctx.log(f"shrinker failed: {type(exc).__name__}: {exc}")
