"""C14 -- The parser follows the documented grammar and rejects everything else cleanly.

Tie T : Gen/GrammarGen.v (precedence tuple, productions, token list, reserved words, lexer regexes) is
        regenerated from parserYacc.py / parserLex.py; the model parser reads its binding powers from it and
        Props/C14.v is re-proved over it.
Tie K : the same strings go through the real lexer / parse_expression / Node.__str__ (worker subprocesses)
        and through the Coq model (vm_compute): token streams, trees / error classes, printed forms.
Oracle (from the property statement and docs/queries.rst, independent of the model):
   O1 str(tree) parses back to an equal tree
   O2 keyword case and insignificant whitespace/newlines do not change the tree
   O3 "(" + s + ")" parses to Parens(tree of s)
   O4 the tree, parentheses removed, is the expression the generator built (documented precedence and
      associativity: OR < AND < NOT < comparison/IN/OVERLAPS < + - < * / % < unary) with the literal
      values that were spelled (numbers verbatim, strings, range start/stop/stride, time values)
   O5 parse_expression raises only the parser's documented error family (or the POINT arity ValueError)
   O6 through Butler.query_data_ids / query_dimension_records a where string either works or raises
      InvalidQueryError, never another exception type; strings that are invalid by construction (syntax
      families, ill-typed families) must raise it and must not be accepted with some other meaning
   O7 convert_expression_string_to_predicate (observed directly, every kept string, two dimension contexts) raises
      InvalidQueryError or nothing; invalid-by-construction strings must raise it
Tie K (conversion): the model's where_verdict (lexer, parser, Model/ParserConv.of_tree, C05's SqlExpr.conv; identifier
      resolution observed from the real visitIdentifier) against what convert_expression_string_to_predicate did.
"""
from __future__ import annotations

import json
import re
from pathlib import Path

from harness.common import VERIF, Ctx, cbool, clist, copt, cz, parallel_workers, run_worker
from harness.translators import grammar as tr

# --------------------------------------------------------------------------------------------------
# Gallina encoders
# --------------------------------------------------------------------------------------------------

BOPS = {"OR": "BOr", "AND": "BAnd", "=": "BEq", "!=": "BNe", "<": "BLt", "<=": "BLe", ">": "BGt", ">=": "BGe",
        "OVERLAPS": "BOverlaps", "+": "BAdd", "-": "BSub", "*": "BMul", "/": "BDiv", "%": "BMod"}
UOPS = {"+": "UPlus", "-": "UMinus", "NOT": "UNot"}
TOKS = {"LPAREN": "TLP", "RPAREN": "TRP", "EQ": "TEQ", "NE": "TNE", "LT": "TLT", "LE": "TLE", "GT": "TGT", "GE": "TGE",
        "ADD": "TADD", "SUB": "TSUB", "MUL": "TMUL", "DIV": "TDIV", "MOD": "TMOD", "COMMA": "TCOMMA", "IN": "TIN", "OR": "TOR",
        "AND": "TAND", "NOT": "TNOT", "OVERLAPS": "TOVERLAPS", "BAD": "TBad"}
VTOKS = {"NUMERIC_LITERAL": "TNum", "TIME_LITERAL": "TTime", "STRING_LITERAL": "TStr", "QUALIFIED_IDENTIFIER": "TQId",
         "SIMPLE_IDENTIFIER": "TId", "BIND_NAME": "TBind"}


def codes(s: str) -> list[int]:
    """character codes as the model sees them: every non-ASCII character is byte 255"""
    return [ord(c) if ord(c) < 128 else 255 for c in s]


def ccodes(s: str) -> str:
    return "[" + ";".join(str(c) for c in codes(s)) + "]%N"


def cs(s: str) -> str:
    if all(32 <= ord(c) < 127 for c in s):
        return '"' + s.replace('"', '""') + '"%string'
    return f"(sb {ccodes(s)})"


def ctree(t) -> str:
    k = t[0]
    if k in ("Num", "Str", "Ident", "Bind"):
        return f"({k} {cs(t[1])})"
    if k == "Time":
        return f"(Time {cs(t[1])})"
    if k == "Range":
        return f"(Range {cz(t[1])} {cz(t[2])} {copt(t[3], cz)})"
    if k == "Unary":
        return f"(Unary {UOPS[t[1]]} {ctree(t[2])})"
    if k == "Binary":
        return f"(Binary {ctree(t[1])} {BOPS[t[2]]} {ctree(t[3])})"
    if k == "IsIn":
        return f"(IsIn {ctree(t[1])} {clist(ctree(v) for v in t[2])} {cbool(t[3])})"
    if k == "Parens":
        return f"(Parens {ctree(t[1])})"
    if k == "Tuple":
        if len(t) != 3:
            raise ValueError("tuple arity")
        return f"(Tuple {ctree(t[1])} {ctree(t[2])})"
    if k == "Point":
        return f"(Point {ctree(t[1])} {ctree(t[2])})"
    if k == "Call":
        return f"(Call {cs(t[1])} {clist(ctree(v) for v in t[2])})"
    raise ValueError(f"cannot encode node {k}")


def ctoken(t) -> str:
    ty, v = t
    if ty in TOKS:
        return TOKS[ty]
    if ty in VTOKS:
        return f"({VTOKS[ty]} {cs(v)})"
    if ty == "RANGE_LITERAL":
        return f"(TRange {cz(v[0])} {cz(v[1])} {copt(v[2], cz)})"
    raise ValueError(f"cannot encode token {ty}")


def cobs(rec) -> str:
    if "exc" in rec:
        return {"parser": "OErrParser", "value": "OErrValue"}.get(rec["exc"], "OOther")
    return "(OTree None)" if rec["tree"] is None else f"(OTree (Some {ctree(rec['tree'])}))"


def ctimes(tt: dict) -> str:
    return clist(f"({cs(k)}, {copt(v, cs)})" for k, v in tt.items())


# --------------------------------------------------------------------------------------------------
# grammar-directed generator (documented grammar; knows nothing about the model)
# --------------------------------------------------------------------------------------------------

INT_IDS = ["detector", "visit", "exposure", "visit.seq_num", "exposure.seq_num", "visit.id", "detector.id", "Detector", "VISIT"]
FLOAT_IDS = ["visit.exposure_time", "exposure.exposure_time"]
STR_IDS = ["instrument", "band", "physical_filter", "detector.full_name", "detector.purpose", "visit.name", "exposure.obs_id"]
TIME_IDS = ["visit.timespan.begin", "visit.timespan.end", "exposure.timespan.begin"]
SPAN_IDS = ["visit.timespan", "exposure.timespan"]
REGION_IDS = ["visit.region"]
INT_LITS = ["0", "1", "2", "3", "7", "10", "42", "100", "007", "12345678901234567890"]
FLOAT_LITS = ["1.5", "0.5", ".5", "1.", "1e3", "1E3", "1.5e-3", "2.E+2", ".5e1", "30.0"]
STR_LITS = ["g", "r", "Cam", "det1", "", "a b", "x-y", "it is", "AND", "1..5", "T", "é", "(", "a,b", "\"q\""]
# (text, format, scale, astropy value) -- expected values follow the documented guessing rules
TIME_LITS = [
    ("2020-01-01", "iso", "utc", "2020-01-01"),
    ("2020-03-30 12:20:33", "iso", "utc", "2020-03-30 12:20:33"),
    ("2020-03-30T12:20:33.5", "isot", "utc", "2020-03-30T12:20:33.5"),
    ("58938.515", "mjd", "tai", 58938.515),
    ("mjd/58938.515", "mjd", "tai", 58938.515),
    ("58938.515/tai", "mjd", "tai", 58938.515),
    ("mjd/58938.515/tai", "mjd", "tai", 58938.515),
    ("MJD/58938.515/UTC", "mjd", "utc", 58938.515),
    ("2020-01-01/tai", "iso", "tai", "2020-01-01"),
    ("+02020-01-01T00:00:00", "fits", "utc", "+02020-01-01T00:00:00"),
    ("2020:001:00:00:00", "yday", "utc", "2020:001:00:00:00"),
    ("jd/2458850.5", "jd", "tai", 2458850.5),
    ("unix/1577836800.0", "unix", "utc", 1577836800.0),
]
KEYWORDS = {"OR", "AND", "NOT", "IN", "OVERLAPS"}
PREC = {"OR": 1, "AND": 2, "NOT": 3, "=": 4, "!=": 4, "<": 4, "<=": 4, ">": 4, ">=": 4, "OVERLAPS": 4, "IN": 4,
        "+": 5, "-": 5, "*": 6, "/": 6, "%": 6, "U": 7}


class Gen:
    """Builds abstract expressions G (tree_json shape, no Parens nodes) and renders them."""

    def __init__(self, rng, binds=None):
        self.r = rng

    # ---- typed expression builders --------------------------------------------------------------
    def int_e(self, d):
        r = self.r
        c = r.random()
        if d <= 0 or c < 0.35:
            return ["Ident", r.choice(INT_IDS)] if r.random() < 0.6 else ["Num", r.choice(INT_LITS)]
        if c < 0.5:
            return ["Unary", r.choice("+-"), self.int_e(d - 1)]
        return ["Binary", self.int_e(d - 1), r.choice("+-*/%"), self.int_e(d - 1)]

    def float_e(self, d):
        r = self.r
        c = r.random()
        if d <= 0 or c < 0.5:
            return ["Ident", r.choice(FLOAT_IDS)] if r.random() < 0.5 else ["Num", r.choice(FLOAT_LITS)]
        if c < 0.6:
            return ["Unary", r.choice("+-"), self.float_e(d - 1)]
        return ["Binary", self.float_e(d - 1), r.choice("+-*/"), self.float_e(d - 1)]

    def str_e(self):
        r = self.r
        return ["Ident", r.choice(STR_IDS)] if r.random() < 0.5 else ["Str", r.choice(STR_LITS)]

    def time_lit(self):
        t = self.r.choice(TIME_LITS)
        return ["TimeLit", t[0]]

    def time_e(self):
        return ["Ident", self.r.choice(TIME_IDS)] if self.r.random() < 0.4 else self.time_lit()

    def span_e(self):
        r = self.r
        if r.random() < 0.4:
            return ["Ident", r.choice(SPAN_IDS)]
        a = self.time_lit() if r.random() < 0.85 else ["Ident", "null"]
        b = self.time_lit() if r.random() < 0.85 else ["Ident", "NULL"]
        return ["Tuple", a, b]

    def point(self):
        r = self.r

        def coord(lim):
            v = ["Num", r.choice(["0", "1", "1.5", "53.6", "32.7", "89", ".25"])]
            return ["Unary", r.choice("+-"), v] if r.random() < 0.4 else v
        return ["Point", coord(360), coord(90)]

    def in_items(self, kind):
        r = self.r
        n = r.randint(1, 4)
        out = []
        for _ in range(n):
            c = r.random()
            if kind == "int":
                if c < 0.35:
                    out.append(["Num", r.choice(["", "", "-", "+"]) + r.choice(INT_LITS[:9])])
                elif c < 0.7:
                    a, b = r.randint(-20, 50), r.randint(-20, 200)
                    out.append(["Range", a, b, None if r.random() < 0.5 else r.randint(1, 12)])
                elif c < 0.85:
                    out.append(["Ident", r.choice(INT_IDS)])
                else:
                    out.append(["Bind", r.choice(["d", "ids"])])
            elif kind == "str":
                out.append(["Str", r.choice(STR_LITS)] if c < 0.7 else (["Ident", r.choice(STR_IDS)] if c < 0.85 else ["Bind", "names"]))
            else:
                out.append(self.time_lit())
        return out

    def atom_b(self):
        r = self.r
        c = r.random()
        cmpop = r.choice(["=", "!=", "<", "<=", ">", ">="])
        if c < 0.30:
            return ["Binary", self.int_e(r.randint(0, 2)), cmpop, self.int_e(r.randint(0, 2))]
        if c < 0.38:
            return ["Binary", self.float_e(r.randint(0, 2)), cmpop, self.float_e(r.randint(0, 1))]
        if c < 0.50:
            return ["Binary", self.str_e(), cmpop, self.str_e()]
        if c < 0.58:
            return ["Binary", self.time_e(), cmpop, self.time_e()]
        if c < 0.72:
            return ["IsIn", self.int_e(r.randint(0, 1)), self.in_items("int"), r.random() < 0.4]
        if c < 0.78:
            return ["IsIn", self.str_e(), self.in_items("str"), r.random() < 0.4]
        if c < 0.82:
            return ["IsIn", self.time_e(), [self.time_lit(), self.time_lit()], r.random() < 0.3]
        if c < 0.90:
            return ["Binary", self.span_e(), "OVERLAPS", self.span_e()]
        if c < 0.96:
            a, b = ["Ident", r.choice(REGION_IDS)], self.point()
            return ["Binary", a, "OVERLAPS", b] if r.random() < 0.5 else ["Binary", b, "OVERLAPS", a]
        if c < 0.98:
            return ["Binary", r.choice([self.int_e(0), self.str_e()]), r.choice(["=", "!="]), ["Ident", r.choice(["null", "NULL", "Null"])]]
        return ["Binary", ["Ident", "detector"], "=", ["Bind", "d"]]

    def bool_e(self, d):
        r = self.r
        c = r.random()
        if d <= 0 or c < 0.25:
            return self.atom_b()
        if c < 0.40:
            return ["Unary", "NOT", self.bool_e(d - 1)]
        return ["Binary", self.bool_e(d - 1), r.choice(["AND", "OR"]), self.bool_e(d - 1)]

    # ---- rendering -------------------------------------------------------------------------------
    def toks(self, g, extra_parens=0.15):
        """token texts of g with the parentheses the DOCUMENTED precedence requires (plus random redundant
        ones); returns (tokens, expected tree with Parens nodes where parentheses were written)"""
        r = self.r

        def prec(n):
            k = n[0]
            if k == "Binary":
                return PREC[n[2]]
            if k == "IsIn":
                return PREC["IN"]
            if k == "Unary":
                return PREC["NOT"] if n[1] == "NOT" else PREC["U"]
            return 9

        def wrap(n, need):
            ts, e = go(n)
            if need or (r.random() < extra_parens):
                return ["("] + ts + [")"], ["Parens", e]
            return ts, e

        def go(n):
            k = n[0]
            if k == "Binary":
                p = PREC[n[2]]
                if p == 4:   # comparison: operands are arithmetic-level expressions (no chaining without parentheses)
                    lt, le = wrap(n[1], prec(n[1]) <= 4)
                    rt, re_ = wrap(n[3], prec(n[3]) <= 4)
                else:        # left associative
                    lt, le = wrap(n[1], prec(n[1]) < p)
                    rt, re_ = wrap(n[3], prec(n[3]) <= p)
                return lt + [n[2]] + rt, ["Binary", le, n[2], re_]
            if k == "Unary":
                if n[1] == "NOT":
                    ot, oe = wrap(n[2], prec(n[2]) < PREC["NOT"])
                else:
                    ot, oe = wrap(n[2], prec(n[2]) < PREC["U"])
                return [n[1]] + ot, ["Unary", n[1], oe]
            if k == "IsIn":
                lt, le = wrap(n[1], prec(n[1]) <= 4)
                items, ie = [], []
                for i, v in enumerate(n[2]):
                    vt, ve = go(v)
                    items += ([","] if i else []) + vt
                    ie.append(ve)
                return lt + (["NOT", "IN"] if n[3] else ["IN"]) + ["("] + items + [")"], ["IsIn", le, ie, n[3]]
            if k == "Tuple":
                at, ae = go(n[1])
                bt, be = go(n[2])
                return ["("] + at + [","] + bt + [")"], ["Tuple", ae, be]
            if k == "Point":
                at, ae = wrap(n[1], False)
                bt, be = wrap(n[2], False)
                return [r.choice(["POINT", "point", "Point"]), "("] + at + [","] + bt + [")"], ["Point", ae, be]
            if k == "Call":
                items, ie = [], []
                for i, v in enumerate(n[2]):
                    vt, ve = go(v)
                    items += ([","] if i else []) + vt
                    ie.append(ve)
                return [n[1], "("] + items + [")"], ["Call", n[1], ie]
            if k == "Num":
                return [n[1]], n
            if k == "Str":
                return ["'" + n[1] + "'"], n
            if k == "TimeLit":
                return [r.choice("Tt") + "'" + n[1] + "'"], n
            if k == "Range":
                sp = r.choice(["", "", " ", "  "])
                txt = f"{n[1]}{sp}..{sp}{n[2]}" + ("" if n[3] is None else f"{sp}:{sp}{n[3]}")
                return [txt], n
            if k == "Ident":
                return [n[1]], n
            if k == "Bind":
                return [":" + n[1]], n
            raise ValueError(k)
        return wrap(g, False)

    def spell(self, toks, style):
        """join token texts; style: 'plain' single spaces / 'tight' no space unless needed / 'wild' random
        whitespace incl. tabs and newlines; keyword case varies with the style"""
        r = self.r
        out = []
        prev = None
        for t in toks:
            txt = t
            if t in KEYWORDS:
                txt = {"plain": t, "tight": t.lower(), "wild": "".join(ch.upper() if r.random() < 0.5 else ch.lower() for ch in t)}[style]
            if prev is not None:
                wordy_l = bool(re.match(r"[A-Za-z0-9_'.]", prev[-1]))
                wordy_r = bool(re.match(r"[A-Za-z0-9_'.:]", txt[0]))
                need = wordy_l and wordy_r
                # a sign directly before a number that starts a range would be taken into the range literal: not
                # an issue for valid expressions (ranges only follow "(" or ","), nothing to avoid here
                if style == "plain":
                    sep = " " if not (prev == "(" or txt in (")", ",")) else ""
                elif style == "tight":
                    sep = " " if need else ""
                else:
                    sep = r.choice([" ", "  ", "\t", "\n", " \n ", ""]) if not need else r.choice([" ", "\t", "\n", "  \n"])
                out.append(sep)
            out.append(txt)
            prev = txt
        lead = r.choice(["", " ", "\n", "\t "]) if style == "wild" else ""
        return lead + "".join(out) + (r.choice(["", " ", "\n"]) if style == "wild" else "")


def strip_parens(t):
    if t is None:
        return None
    k = t[0]
    if k == "Parens":
        return strip_parens(t[1])
    if k in ("Num", "Str", "Ident", "Bind", "Range", "Time", "TimeLit"):
        return t
    if k == "Unary":
        x = strip_parens(t[2])
        return ["Unary", t[1], x]
    if k == "Binary":
        return ["Binary", strip_parens(t[1]), t[2], strip_parens(t[3])]
    if k == "IsIn":
        return ["IsIn", strip_parens(t[1]), [strip_parens(v) for v in t[2]], t[3]]
    if k in ("Tuple", "Point"):
        return [k] + [strip_parens(v) for v in t[1:]]
    if k == "Call":
        return ["Call", t[1], [strip_parens(v) for v in t[2]]]
    return t


def norm_sign(t):
    """a sign applied to a numeric literal and a signed numeric literal mean the same number"""
    if not isinstance(t, list) or not t:
        return t
    if t[0] == "Unary" and t[1] in "+-" and isinstance(t[2], list) and t[2][0] == "Num" and t[2][1][:1] not in "+-":
        return ["Num", t[1] + t[2][1]]
    return [norm_sign(x) if isinstance(x, list) else x for x in t]


def same_modulo_time(real, want, time_ok):
    """structural equality where want's ["TimeLit", text] matches real's ["Time", id, info] via time_ok"""
    if isinstance(want, list) and want and want[0] == "TimeLit":
        return isinstance(real, list) and real and real[0] == "Time" and time_ok(want[1], real[2])
    if isinstance(real, list) and isinstance(want, list):
        if real and real[0] == "Time":
            return False
        return len(real) == len(want) and all(same_modulo_time(a, b, time_ok) for a, b in zip(real, want))
    return real == want


def drop_time_info(t):
    if isinstance(t, list):
        if t and t[0] == "Time":
            return ["Time", t[1]]
        return [drop_time_info(x) for x in t]
    return t


def has_node(t, kinds):
    if isinstance(t, list):
        if t and t[0] in kinds:
            return True
        return any(has_node(x, kinds) for x in t)
    return False


# --------------------------------------------------------------------------------------------------
# invalid-by-construction families (documented grammar / typing); each returns (family, string)
# --------------------------------------------------------------------------------------------------

def syntax_mutants(r, toks, g: Gen):
    """localised edits of a valid token list that leave the documented grammar"""
    out = []
    n = len(toks)
    idx_l = [i for i, t in enumerate(toks) if t == "("]
    idx_r = [i for i, t in enumerate(toks) if t == ")"]
    idx_c = [i for i, t in enumerate(toks) if t == ","]
    binops = [i for i, t in enumerate(toks) if t in ("=", "!=", "<", "<=", ">", ">=", "*", "/", "%", "AND", "OR", "OVERLAPS") and 0 < i < n - 1]
    operands = [i for i, t in enumerate(toks) if re.match(r"[A-Za-z_0-9.']", t[0]) and t.upper() not in KEYWORDS and not (i + 1 < n and toks[i + 1] == "(")]

    def J(ts):
        return g.spell(ts, "plain")
    calls = [i for i in idx_l if i > 0 and re.fullmatch(r"[A-Za-z_]\w*", toks[i - 1]) and toks[i - 1].upper() not in KEYWORDS]
    if calls:
        i = r.choice(calls)
        out.append(("call-leading-comma", J(toks[:i + 1] + [","] + toks[i + 1:])))
    ins = [i for i in idx_l if i > 0 and toks[i - 1] == "IN"]
    if ins:
        i = r.choice(ins)
        out.append(("in-leading-comma", J(toks[:i + 1] + [","] + toks[i + 1:])))
        j = toks.index(")", i)
        out.append(("in-trailing-comma", J(toks[:j] + [","] + toks[j:])))
        out.append(("in-empty-list", J(toks[:i + 1] + toks[j:])))
        out.append(("in-missing-parens", J(toks[:i] + toks[i + 1:j] + toks[j + 1:])) if j - i > 2 or True else None)
    if idx_c:
        i = r.choice(idx_c)
        out.append(("double-comma", J(toks[:i] + [","] + toks[i:])))
    if idx_r:
        i = r.choice(idx_r)
        out.append(("missing-rparen", J(toks[:i] + toks[i + 1:])))
        out.append(("extra-rparen", J(toks[:i] + [")"] + toks[i:])))
    if idx_l:
        i = r.choice(idx_l)
        out.append(("extra-lparen", J(toks[:i] + ["("] + toks[i:])))
    if binops:
        i = r.choice(binops)
        out.append(("double-operator", J(toks[:i] + [r.choice(["=", "*", "AND", "OR", "<", "/"])] + toks[i:])))
        out.append(("missing-right-operand", J(toks[:i + 1])))
        out.append(("missing-left-operand", J(toks[i:])))
    if operands:
        i = r.choice(operands)
        out.append(("adjacent-operands", J(toks[:i + 1] + [r.choice(["x", "1", "'s'", "visit.id"])] + toks[i + 1:])))
    if "=" in toks:
        i = toks.index("=")
        out.append(("sql-foreign-operator", J(toks[:i] + [r.choice(["==", "<>", "=>", "&&", "||", "!"])] + toks[i + 1:])))
    i = r.randrange(n + 1)
    out.append(("illegal-character", J(toks[:i] + [r.choice(["#", "@", ";", "$", "\"", "?", "\\", "`", "{", "[", "~", "&", "|", "^", "é", "→"])] + toks[i:])))
    strs = [i for i, t in enumerate(toks) if t.startswith("'")]
    if strs:
        i = r.choice(strs)
        out.append(("unterminated-string", J(toks[:i] + [toks[i][:-1]] + [t for t in toks[i + 1:] if "'" not in t])))
    rng = [i for i, t in enumerate(toks) if re.fullmatch(r"-?\d+ *\.\. *-?\d+( *: *\d+)?", t)]
    if rng:
        i = r.choice(rng)
        base = toks[i].split(":")[0].strip()
        out.append(("range-bad-stride", J(toks[:i] + [base + ":" + r.choice(["0", "-1", "-3", "x", "1.5"])] + toks[i + 1:])))
    return [o for o in out if o]


def illtyped(r, g: Gen):
    """well-formed strings that are not well-typed boolean expressions (each must raise InvalidQueryError)"""
    fam = r.choice(["toplevel-nonbool", "bool-op-on-nonbool", "arith-on-string", "cmp-int-string", "unary-on-string",
                    "range-outside-in", "unknown-function", "unknown-identifier", "tuple-of-nontimes", "not-on-nonbool",
                    "point-nonliteral", "in-lhs-null", "unbound-name", "arith-on-bool"])
    b = g.spell(g.toks(g.atom_b())[0], "plain")
    i = g.spell(g.toks(g.int_e(1))[0], "plain")
    s = {
        "toplevel-nonbool": r.choice([i, "instrument", "1..5", "null", "'a'", "T'2020-01-01'", "visit.timespan", "POINT(1, 2)", "(T'2020-01-01', T'2020-01-02')", "-detector", "visit.region"]),
        "bool-op-on-nonbool": f"{b} {r.choice(['AND', 'OR'])} {r.choice([i, 'instrument', 'null', chr(39) + 'a' + chr(39)])}",
        "arith-on-string": f"{r.choice(['instrument', chr(39) + 'a' + chr(39), 'band'])} {r.choice('+-*/%')} {r.choice(['1', chr(39) + 'b' + chr(39), 'detector'])} = 1",
        "cmp-int-string": f"{r.choice(['detector', '1', 'visit'])} {r.choice(['=', '<', '!='])} {r.choice([chr(39) + 'a' + chr(39), 'instrument', 'band'])}",
        "unary-on-string": f"{r.choice('+-')}{r.choice(['instrument', chr(39) + 'a' + chr(39)])} = 'a'",
        "range-outside-in": r.choice(["detector = 1..5", "1..5 = detector", "detector + 1..3 = 4", "detector IN (1) OR 1..5", "NOT 1..5"]),
        "unknown-function": f"{r.choice(['foo', 'max', 'circle', 'pointt'])}({r.choice(['', '1', '1, 2', 'detector, 2, 3'])}){r.choice(['', ' = 1', ' OVERLAPS visit.region'])}",
        "unknown-identifier": f"{r.choice(['nosuch', 'detector.nosuch', 'a.b.c', 'visit.timespan.middle', 'ingest_date', 'x_y'])} = 1",
        "tuple-of-nontimes": f"({r.choice(['1', 'detector', chr(39) + '2020-01-01' + chr(39), 'visit.timespan.begin'])}, {r.choice(['2', 'null', 'T' + chr(39) + '2020-01-01' + chr(39)])}) OVERLAPS visit.timespan",
        "not-on-nonbool": f"NOT {r.choice([i, 'instrument', 'null'])}",
        "point-nonliteral": f"visit.region OVERLAPS POINT({r.choice(['detector', chr(39) + 'a' + chr(39), 'null', '1 + 1'])}, 2)",
        "in-lhs-null": "null IN (1)",
        "unbound-name": f"detector = :{r.choice(['nobody', 'zz', 'D2', 'visit', 'exposure', 'detector'])}",
        "arith-on-bool": f"({b}) + 1 = 1",
    }[fam]
    return fam, s


# --------------------------------------------------------------------------------------------------

def time_matches(text: str, info: dict) -> bool:
    """O4/literal values: the TimeLiteral's value is the documented reading of the text"""
    import astropy.time
    for t in TIME_LITS:
        if t[0] == text:
            want = astropy.time.Time(t[3], format=t[1], scale=t[2])
            return (info["format"] == t[1] and info["scale"] == t[2]
                    and abs((float(want.tai.jd1) - info["tai_jd1"]) + (float(want.tai.jd2) - info["tai_jd2"])) < 1e-9)
    return False


def sig_shape(s: str) -> str:
    return re.sub(r"\s+", " ", s)[:60]


def run(ctx: Ctx):
    r = ctx.rng
    quick = ctx.quick
    # this property's own fragment of the known findings (known_findings.json is assembled from the fragments;
    # reading the fragment as well keeps the check independent of when that assembly last ran)
    frag = VERIF / "known_findings.d" / "C14.json"
    if frag.exists():
        have = {k["id"] for k in ctx.known}
        ctx.known += [k for k in json.loads(frag.read_text()) if k["property"] == "C14" and k["id"] not in have]
    ctx.assumptions += [
        "astropy time parsing/formatting is external: the model takes the time value of a literal as a parameter (tv); the oracle "
        "checks the values of 13 documented spellings against astropy.time.Time built independently",
        "input alphabet of the lexer model: ASCII plus non-ASCII characters that are not Unicode digits/spaces/case-partners of ASCII "
        "letters (mapped to one byte); the generator only uses such characters",
        "LALR(1) table construction of the vendored PLY is trusted as the reference semantics of the grammar; the model is a "
        "precedence-climbing parser compared with it on every generated string",
        "translator harness/translators/grammar.py (Python ast -> Gallina tables) is trusted; its tables are pinned by theorems",
        "identifier resolution (interpret_identifier, categorizeConstant, the bind map) is a parameter of the conversion model; the "
        "harness observes it by calling the real visitIdentifier once per name; column ids are per-run indices (only types matter)",
        "the conversion model makes no claim (NoClaim) for POINT / region / uuid / ingest_date expressions, .begin/.end as IN items and "
        "==/!= between timespans (known finding F-C14-timespan-eq); the share of such cases is recorded in histogram conv_model_sample",
    ]
    ctx.cov["rule"] = (
        "a string counts as non-trivial when it is distinct and either contains operators of at least two different documented "
        "precedence levels (or a unary operator / parentheses / IN list), or is a mutated / invalid-by-construction / garbage string; "
        "valid strings come from a typed grammar-directed generator (depth <= 4) rendered in three spellings (plain, tight, wild "
        "whitespace + keyword case), invalid ones from 17 syntax families, 14 ill-typed families, token deletion/duplication/swap "
        "and random garbage; in the conversion stage a case counts when convert_expression_string_to_predicate rejected a string "
        "that is a typing family / hand-written typing edge case / grammar-valid string (i.e. rejection for a typing or resolution reason)"
    )
    # ---- tie T + obligations ----------------------------------------------------------------
    ctx.regen("grammar", tr.translate)
    # the conversion layer is stated over C05's Expr.v / SqlExpr.v, which are defined over the regenerated Timespan and
    # Predicate definitions (tuple literals go through TimespanGen.py_mk): regenerate them here too, so that this check
    # does not depend on C05 / C11 / C15 having run first
    from harness.translators import predicate as ptr
    from harness.translators import timespan as ttr
    ctx.regen("timespan", ttr.translate)
    ctx.regen("predicate", ptr.translate)
    # wave 6: the `match` arms of _ConversionVisitor regenerated from queries/_expression_strings.py (Gen/ConvGen.v);
    # Proofs/ConvProofs.v proves them equal to of_tree + C05's conv, Model/ConvCheck.v compares them with the real visitor
    from harness.translators import conv_visitor as cvtr
    ctx.regen("conv_visitor", cvtr.translate)
    props_ok = ctx.build_props(extra_targets=["Model/ParserCheck.vo", "Model/ParserConvCheck.vo", "Model/ParserShow.vo", "Model/ConvCheck.vo"])
    if not props_ok:
        from harness.common import coq_make
        coq_make(["Model/ParserCheck.vo", "Model/ParserConvCheck.vo", "Model/ParserShow.vo", "Model/ConvCheck.vo", "Proofs/ParserProofs.vo"])

    g = Gen(r)
    sizes = (320, 250, 600) if quick else (3000, 3000, 6000)
    _one_pass(ctx, g, r, sizes, first=True)
    if ctx.broken and not ctx.oracle_failures:
        # something no longer checks but the oracle held everywhere: deepen the search (DESIGN 1.3 step 4)
        ctx.cov["search"] = "an obligation / tie broke without an oracle failure: second pass with the generator budget raised (3000 valid expressions + mutants, 2000 garbage strings, 3000 where strings)"
        ctx.log("search: second, deeper pass")
        _one_pass(ctx, g, r, (3000, 2000, 3000) if quick else (6000, 5000, 8000), first=False)


def _one_pass(ctx: Ctx, g: Gen, r, sizes, first: bool):
    n_valid, n_garbage, n_butler = sizes
    cases = []   # dicts: {s, kind, ...expectations}
    # corpus first
    for f in (sorted((VERIF / "corpus" / "C14").glob("*.json")) if first else []):
        for c in json.loads(f.read_text()):
            cases.append(dict(c, kind="corpus", corpus_file=f.name))
    if ctx.replay and first:
        rp = json.loads(Path(ctx.replay).read_text())
        for s_ in ([rp.get("s") or rp.get("where")] if (rp.get("s") is not None or rp.get("where") is not None) else []) + list(rp.get("strings") or []):
            cases.append({"s": s_, "kind": "replay", "must_reject": rp.get("must_reject"), "family": rp.get("family")})

    for _ in range(n_valid):
        G = g.bool_e(r.randint(0, 4)) if r.random() < 0.9 else r.choice([g.int_e(2), g.span_e(), g.point()])
        toks, E = g.toks(G)
        group = len(cases)
        for style in ("plain", "tight", "wild"):
            cases.append({"s": g.spell(toks, style), "kind": "valid", "G": G, "E": E, "group": group, "style": style})
        cases.append({"s": "(" + g.spell(toks, "plain") + ")", "kind": "paren", "group": group})
        if r.random() < 0.6:
            for fam, s in syntax_mutants(r, toks, g):
                cases.append({"s": s, "kind": "syntax-family", "family": fam, "must_reject": True})
        # token-level mutation stream (validity unknown: correspondence + exception discipline)
        if r.random() < 0.5 and len(toks) > 2:
            m = list(toks)
            for _ in range(r.randint(1, 2)):
                i = r.randrange(len(m))
                op = r.random()
                if op < 0.4:
                    del m[i]
                elif op < 0.7:
                    m.insert(i, m[i])
                elif op < 0.85 and len(m) > 1:
                    j = r.randrange(len(m))
                    m[i], m[j] = m[j], m[i]
                else:
                    m.insert(i, r.choice(["NOT", "IN", "(", ")", ",", "-", "1..3", ":b", "T'x'", "OVERLAPS", "..", ".", "'", "T'", ":", "!", "1e", ".5.5", "a.b.c.d"]))
                if not m:
                    break
            cases.append({"s": g.spell(m, r.choice(["plain", "tight", "wild"])) if m else "", "kind": "mutant"})
    for _ in range(n_valid // 2):
        fam, s = illtyped(r, g)
        cases.append({"s": s, "kind": "illtyped-family", "family": fam, "must_reject": True})
    alphabet = list("abtTeE_ .'019:,()+-*/%<>=!\n\t") + ["..", " IN ", " NOT ", " AND ", " or ", "T'", "1..2", "é", "#", "POINT(", "\r", "\x0b", "\x00", "1.5e+3", ":x", "a.b", "\x1f"]
    for _ in range(n_garbage):
        cases.append({"s": "".join(r.choice(alphabet) for _ in range(r.randint(0, 14))), "kind": "garbage"})
    for s in ["", " ", "\n", "\t\n ", "-1", "- 1", "x IN (-1, +2, - 3)", "f(,1)", "POINT(,1,2)", "POINT(1)", "POINT(1) #", "POINT(1) )", "POINT(1) 5",
              "POINT(1,2,3) = 1", "point(1,2)", "a.1", "a.b.1", "a.b.c.d", "1...5", "1. .5", "1 .. 5", "a-1..5", "a - 1..5", "1e", "1e+", "1.e5", "T'a", "t'2020-01-01'",
              "T 'x'", "xT'2020-01-01'", "'a''b'", "'a\nb'", "a IN (1 .. 5 : 2)", "a IN (1..5:0)", "a IN (1..5:-1)", "a IN (1..5:01)", "a IN (-0..007)",
              "a IN (1\n..\n5)", "a IN (1..5 :\t2)", "a NOT\nIN (1)", "nOt a", "a = b = c", "a < b = c", "NOT a = b", "NOT a AND b", "a OVERLAPS b OVERLAPS c",
              "T'garbage'", "T'garbage' 5", "(T'garbage'", "a = T''", ": a", ":a", ":1", "a:b", "a IN (:b)", "a IN (b.c.d)", "a IN (T'2020-01-01')", "a IN (f(1))"]:
        cases.append({"s": s, "kind": "edge"})

    # dedupe while keeping kinds
    ctx.log(f"generated {len(cases)} strings")
    payloads, chunk = [], 400
    strings = [c["s"] for c in cases]
    for i in range(0, len(strings), chunk):
        payloads.append({"strings": strings[i:i + chunk]})
    res = parallel_workers("c14_impl", "parse_batch", payloads, timeout=600)
    recs = []
    tshow_by_chunk = []
    for k, (st, out) in enumerate(res):
        if st != "ok":
            ctx.tie_broken("harness", "parse_batch", f"worker {st}: {str(out)[-600:]}")
            recs += [None] * len(payloads[k]["strings"])
            tshow_by_chunk.append({})
            continue
        recs += out["results"]
        tshow_by_chunk.append(out["tshow"])

    parse_cases, lex_cases, print_cases, meta_p, meta_l, meta_pr = [], [], [], [], [], []
    canon_cases, meta_c = [], []
    groups: dict = {}
    # shortest strings first, so that the failing input written to a replay is the smallest one generated
    for idx in sorted(range(len(cases)), key=lambda i: len(cases[i]["s"])):
        c, rec = cases[idx], recs[idx]
        if rec is None:
            continue
        s = c["s"]
        ctx.count()
        ctx.hist("kind", c["kind"])
        if c.get("family"):
            ctx.hist("family", c["family"])
        outcome = rec.get("exc") or ("empty" if rec["tree"] is None else "tree")
        ctx.hist("parse_outcome", outcome)
        tshow = tshow_by_chunk[idx // chunk]
        # ---- O5: only documented error classes
        if "exc" in rec and rec["exc"] not in ("parser", "value"):
            ctx.oracle_fail(f"parse-exc:{rec['exc_type']}", {"s": s}, f"parse_expression raised {rec['exc_type']} instead of the parser's documented error")
        if any(isinstance(v, str) and v.startswith("EXC:") for v in rec["times"].values()):
            ctx.oracle_fail("time-exc", {"s": s, "times": rec["times"]}, "_parseTimeString raised something other than ValueError")
        tree = rec.get("tree")
        nontriv = c["kind"] not in ("valid", "paren")
        if c["kind"] == "valid":
            G = c["G"]
            nontriv = has_node(G, ("Unary", "IsIn")) or len({PREC[x] for x in re.findall(r"'(OR|AND|=|!=|<=|>=|<|>|OVERLAPS|\+|-|\*|/|%)'", json.dumps(G).replace('"', "'"))}) >= 2 or has_node(c["E"], ("Parens",))
            # ---- O4: documented precedence / associativity / literal values
            if tree is None or not same_modulo_time(norm_sign(strip_parens(tree)), norm_sign(G), time_matches):
                ctx.oracle_fail(f"structure:{_shape_sig(G)}", {"s": s, "want_modulo_parens": G, "got": drop_time_info(tree) if tree else rec.get("exc_type")},
                                "tree (parentheses removed) is not the expression that was written, under the documented precedence")
            groups.setdefault(c["group"], []).append(drop_time_info(tree))
        if c["kind"] == "paren":
            base = groups.get(c["group"], [None])[0]
            if base is not None and drop_time_info(tree) != ["Parens", base]:
                ctx.oracle_fail("redundant-parens", {"s": s, "got": drop_time_info(tree), "inner": base}, "(s) is not Parens(tree of s)")
        if nontriv:
            ctx.nontrivial(s)
        # ---- O1 round trip
        if tree is not None:
            if "strexc" in rec:
                ctx.oracle_fail(f"str-exc:{rec['strexc']}", {"s": s}, "str(tree) raised")
            else:
                re_t = rec.get("retree")
                if re_t is None or drop_time_info(re_t) != drop_time_info(tree):
                    lost = [k for k in ("Time", "Bind") if has_node(tree, (k,))]
                    sig = "roundtrip:" + ("+".join(lost) if lost else "other")
                    if lost:
                        # is the loss explained by exactly these two node kinds?  compare after mapping them
                        def mapped(t):
                            if isinstance(t, list):
                                if t and t[0] == "Time":
                                    return ["Str", tshow.get(t[1], "?")]
                                if t and t[0] == "Bind":
                                    return ["Ident", t[1]]
                                return [mapped(x) for x in t]
                            return t
                        if re_t is None or mapped(tree) != drop_time_info(re_t):
                            sig = "roundtrip:other"
                    ctx.oracle_fail(sig, {"s": s, "str": rec.get("str"), "tree": drop_time_info(tree), "reparsed": drop_time_info(re_t) if re_t else rec.get("reexc")},
                                    "str(tree) does not parse back to the same tree")
        # ---- must-reject at the parser level (syntax families)
        if c["kind"] == "syntax-family" and "exc" not in rec:
            ctx.oracle_fail(f"accepted-invalid:{c['family']}", {"s": s, "family": c["family"], "tree": drop_time_info(tree)},
                            "a string outside the documented grammar was accepted and given a meaning")
        # ---- Coq cases
        try:
            meta_p.append({"s": s, "kind": c["kind"], "real": drop_time_info(tree) if tree else rec.get("exc_type", "None")})
            lex_cases.append(f"(mkl {ccodes(s)} {ctimes(rec['times'])} {clist(ctoken(t) for t in rec['tokens'])} {cobs(rec)})")
            meta_l.append({"s": s, "tokens": rec["tokens"], "real": drop_time_info(tree) if tree else rec.get("exc_type", "None")})
            if tree is not None and "str" in rec:
                print_cases.append(f"(mkr {ctree(tree)} {clist(f'({cs(k)}, {cs(v)})' for k, v in tshow.items() if has_node(tree, ('Time',)))} {ccodes(rec['str'])})")
                meta_pr.append({"s": s, "str": rec["str"]})
            if tree is not None:
                canon_cases.append(f"(mkc {ctree(tree)} {ctimes(rec['times'])})")
                meta_c.append({"s": s, "tree": drop_time_info(tree)})
        except ValueError as e:
            ctx.disagreement("encode", {"s": s}, f"observation not expressible in the model: {e}")
    # ---- O2: all spellings of one token list give one tree
    for gid, trees in groups.items():
        if any(t != trees[0] for t in trees[1:]):
            ctx.oracle_fail("spelling-changes-tree", {"strings": [c["s"] for c in cases if c.get("group") == gid and c["kind"] == "valid"], "trees": trees},
                            "keyword case / whitespace changed the parse tree")
    for m in meta_p[:3] + meta_p[len(meta_p) // 2: len(meta_p) // 2 + 3]:
        ctx.sample(m)

    hdr = ("From Coq Require Import ZArith List String NArith.\nFrom V Require Import Model.ExprTree Model.Lexer Model.Parser Model.ParserCheck.\n"
           "Import ListNotations.\n"
           "Definition mkl (c : list N) (t : list (string * option string)) (k : list token) (o : obs) := (c, t, k, o).\n"
           "Definition mkr (t : tree) (tb : list (string * string)) (c : list N) := (t, tb, c).\n")
    # lexer + parser on every string; then, in ONE evaluation per case, both printers: lexN(str(tree)) == print tree
    # (token level) and str(tree) == show tree (character for character, Model/ParserShow.v)
    hdr_s = hdr.replace("Model.ParserCheck.", "Model.ParserCheck Model.ParserShow.") + (
        "Definition chk_print_show (c : tree * list (string * string) * list N) : bool := andb (chk_print c) (chk_show c).\n")
    for name, h_, cs_, chk, meta in (("lex_parse", hdr, lex_cases, "chk_lex_parse", meta_l), ("print", hdr_s, print_cases, "chk_print_show", meta_pr)):
        bad = ctx.coq_cases(name, h_, cs_, chk, shard=500)
        for i in (bad or [])[:6]:
            ctx.disagreement(name, meta[i], "model differs from the implementation")
        ctx.log(f"correspondence {name}: {len(cs_)} cases, disagreements {None if bad is None else len(bad)}")
        if name == "print" and bad:
            # say which of the two printers differs (few cases: cheap)
            sub = [cs_[i] for i in bad[:40]]
            for nm, ck in (("print_tokens", "chk_print"), ("show_chars", "chk_show")):
                b2 = ctx.coq_cases(nm, h_, sub, ck, shard=500)
                ctx.log(f"  of the first {len(sub)} differing cases, {nm} differs on {None if b2 is None else len(b2)}")
    # every tree the real parser returned satisfies the `canonical` predicate of the round-trip theorems
    # (theorem parse_canonical proves this for the model; checked here for the real parser's trees)
    hdr_c = hdr.replace("Model.ParserCheck.", "Model.ParserCheck Proofs.ParserProofs.") + (
        "Definition tun_of (tbl : list (string * option string)) (v : string) : string :=\n"
        "  (fix go l := match l with (k, Some v') :: r => if String.eqb v' v then k else go r | _ :: r => go r | [] => \"?\"%string end) tbl.\n"
        "Definition mkc (t : tree) (tb : list (string * option string)) := (t, tb).\n"
        "Definition chk_canon (c : tree * list (string * option string)) := let '(t, tb) := c in canonical (tv_of tb) (tun_of tb) t.\n")
    bad = ctx.coq_cases("canonical", hdr_c, canon_cases, "chk_canon", shard=700)
    for i in (bad or [])[:6]:
        ctx.disagreement("canonical", meta_c[i], "a tree returned by the real parser is not `canonical` (hypothesis of parse_print too strong)")
    ctx.log(f"correspondence canonical: {len(canon_cases)} trees, disagreements {None if bad is None else len(bad)}")

    _conv_stage(ctx, r, cases, hdr, first)
    if first:
        _numlit_stage(ctx, r, hdr)

    # ---- through a real Butler -----------------------------------------------------------------
    pool = [c for c in cases if c["kind"] in ("corpus", "replay")]
    rest = [c for c in cases if c["kind"] not in ("corpus", "replay") and not (c["kind"] == "valid" and c.get("style") != "plain") and c["kind"] != "paren"]
    r.shuffle(rest)
    must = [c for c in rest if c.get("must_reject")]
    other = [c for c in rest if not c.get("must_reject")]
    pool += must[: n_butler // 2] + other[: n_butler - min(len(must), n_butler // 2)]
    seen, wl = set(), []

    trees = {c["s"]: rec.get("tree") for c, rec in zip(cases, recs) if rec is not None}

    def light(c):
        # the conversion to conjunctive normal form is exponential in nested NOT/AND/OR; keep the strings sent through
        # a real Butler small enough that resource exhaustion (a C15/C05 matter) does not dominate the run: at most four
        # AND/OR operators and a conjunctive normal form, computed the way Predicate does, of at most 400 OR-groups at every
        # sub-expression (seed 3 generated NOT ((a AND x IN (4 items)) OR (NOT t IN (2 items) AND b AND c)): 8 groups of sizes
        # 2,2,2,2,5,5,5,5, negated = 10 000 groups; SQLite answers "Expression tree is too large" after 55 s per query)
        if c["kind"] in ("corpus", "replay"):
            return True
        return len(re.findall(r"(?i)\b(and|or)\b", c["s"])) <= 4 and _nf_size(trees.get(c["s"])) <= 400
    for c in pool:
        if c["s"] not in seen and "\x00" not in c["s"] and light(c):
            seen.add(c["s"])
            wl.append(c)
    wl.sort(key=lambda c: (c["kind"] not in ("corpus", "replay"), len(c["s"])))
    bchunk = 60
    # the expensive strings (long, many IN items under NOT: the CNF blow-up) are spread over the chunks round-robin instead of
    # ending up together in the last one, so that no single worker carries the tail of the stage
    nch = max(1, -(-len(wl) // bchunk))
    bown = [wl[k::nch] for k in range(nch)]
    bpay = [{"wheres": [c["s"] for c in own], "bind": {"d": 1, "ids": [1, 2], "names": ["g", "r"], "b": 2, "x": 1}} for own in bown]
    bres = parallel_workers("c14_impl", "butler_batch", bpay, timeout=900)
    slow = []
    parsed = {c["s"]: rec for c, rec in zip(cases, recs) if rec is not None}
    for k, (st, out) in enumerate(bres):
        if st == "hang":
            ctx.oracle_fail("butler-hang", {"wheres": bpay[k]["wheres"]}, "a query with one of these where strings never returned")
            continue
        if st != "ok":
            ctx.tie_broken("harness", "butler_batch", str(out)[-800:])
            continue
        for c, rec in zip(bown[k], out["results"]):
            s = c["s"]
            ctx.count()
            slow.append((rec.get("seconds", 0), s))
            if rec.get("seconds", 0) >= 20:
                ctx.log("slow where string (%s): %r" % (", ".join(f"{a} {rec[a].get('seconds')}s {'ok' if rec[a].get('ok') else rec[a].get('type')}" for a in ("query_data_ids", "query_dimension_records", "legacy")), s))
            prec = parsed.get(s, {})
            for api in ("query_data_ids", "query_dimension_records"):
                o = rec[api]
                ctx.hist(api, "ok" if o["ok"] else ("InvalidQueryError" if o["invalid_query"] else o["type"]))
                if not o["ok"] and not o["invalid_query"] and (
                        o["type"] in ("MemoryError", "RecursionError") or (o["type"] == "OperationalError" and "too large" in o["msg"])):
                    # resource exhaustion while executing a (valid) expression: outside this property's statement
                    ctx.hist("resource_limit", o["type"])
                elif not o["ok"] and not o["invalid_query"]:
                    ctx.oracle_fail(f"butler-exc:{o['type']}@{o['loc']}", {"where": s, "api": api, "error": o},
                                    f"{api}(where=...) raised {o['type']} instead of InvalidQueryError")
                if o["ok"] and c.get("must_reject"):
                    ctx.oracle_fail(f"accepted-invalid:{c.get('family')}", {"where": s, "api": api, "family": c.get("family"), "must_reject": True},
                                    "an invalid where string was accepted (given some other meaning)")
                if o["ok"] and "exc" in prec:
                    ctx.oracle_fail("butler-accepts-unparseable", {"where": s, "api": api}, "Butler accepted a string that parse_expression rejects")
            lg = rec["legacy"]
            ctx.hist("legacy_queryDataIds", "ok" if lg["ok"] else lg["cls"])
            if "exc" in prec and (lg["ok"] or lg["cls"] != "InvalidQuery"):
                ctx.oracle_fail(f"legacy-syntax:{lg.get('type', 'accepted')}", {"where": s, "legacy": lg},
                                "legacy registry.queryDataIds did not report a syntax error as a user expression error")
    slow.sort(reverse=True)
    ctx.log(f"butler: {len(wl)} where strings through 3 query interfaces; total {sum(t for t, _ in slow):.0f} s of queries, slowest "
            + "; ".join(f"{t:.1f}s (cnf {_nf_size(trees.get(s_))}) {s_[:80]!r}" for t, s_ in slow[:3]))


# --------------------------------------------------------------------------------------------------
# conversion stage (O7 + tie K for _ConversionVisitor): convert_expression_string_to_predicate observed directly
# --------------------------------------------------------------------------------------------------

CONV_BIND = {"d": 1, "ids": [1, 2], "names": ["g", "r"], "b": 2, "x": 1,
             "t0": {"time": "2020-01-01T00:00:00", "scale": "tai"}, "f": 1.5, "s": "g", "mixed": [1, "a"], "fs": [1.5, 2.5]}
CONV_EDGE = [
    "", "1", "null", "null = null", "NULL = detector", "detector != Null", "detector < null", "instrument = null", "1 = null",
    "visit.timespan = visit.timespan", "visit.timespan != visit.timespan", "visit.timespan IN (visit.timespan)", "visit.timespan IN (null)",
    "visit.timespan = null", "visit.timespan < visit.timespan", "visit.timespan OVERLAPS visit.timespan", "visit.timespan OVERLAPS T'2020-01-01'",
    "T'2020-01-01' OVERLAPS visit.timespan", "T'2020-01-01' OVERLAPS T'2020-01-02'", "visit.timespan.begin OVERLAPS visit.timespan",
    "(T'2020-01-01', T'2020-01-02') OVERLAPS visit.timespan", "(null, T'2020-01-02') OVERLAPS (T'2020-01-01', NULL)", "(:t0, null) OVERLAPS visit.timespan",
    "((T'2020-01-01'), T'2020-01-02') OVERLAPS visit.timespan", "(+T'2020-01-01', null) OVERLAPS visit.timespan", "(visit.timespan.begin, null) OVERLAPS visit.timespan",
    "(T'2020-01-02', T'2020-01-01') OVERLAPS visit.timespan", "('2020-01-01', null) OVERLAPS visit.timespan", "(1, 2) OVERLAPS visit.timespan", "(:d, null) OVERLAPS visit.timespan",
    "+detector = 1", "+ + detector = 1", "+(detector) = 1", "+instrument = 'a'", "+null = 1", "+:s = 'g'", "+:f < 2", "-:f < 2", "-:s = 'g'", "- -detector = 1", "-null = 1",
    "+T'2020-01-01' = visit.timespan.begin", "-visit.timespan.begin = :t0", "NOT detector", "NOT null", "NOT (detector = 1)", "NOT NOT detector = 1", "NOT :d",
    "detector IN (1)", "detector IN (1.5)", "detector IN ('a')", "detector IN (:ids)", "detector IN (:names)", "detector IN (:fs)", "detector IN (:mixed)", "detector IN (:d, :b)",
    "detector IN (:s)", "detector IN (:t0)", "detector IN (:nobody)", "detector IN (null)", "detector IN (visit)", "detector IN (instrument)", "detector IN (1..5)", "detector IN (5..1)",
    "detector IN (5..4)", "detector IN (5..3)", "detector IN (1..5:2)", "detector IN (0..1:2)", "detector IN (1..10:4)", "detector NOT IN (3..8:3, 5)",
    "detector IN (2..9:5, 20..21:7) OR visit = 1", "NOT (detector IN (1..6:2))", "detector IN (7..7:3)", "detector + 1 IN (10..19:10)", "instrument IN (1..5)", "instrument IN ('a', :names, band)", "instrument IN (:ids)", "visit.exposure_time IN (1..5)",
    "visit.exposure_time IN (1.5, :fs, :f)", "visit.exposure_time IN (1)", "visit.timespan.begin IN (:t0)", "visit.timespan.begin IN (T'2020-01-01')", "visit.timespan IN (:t0)",
    "visit.timespan.begin IN (visit.timespan.end)", "null IN (1)", "(detector = 1) IN (1)", "detector + 1 IN (1, 2)", "detector / 2 IN (1..2)", "-detector IN (-1, +2)", "detector IN (-1..+2)",
    "detector NOT IN (1, :ids)", "1 IN (detector)", "'a' IN (instrument)", ":d IN (1)", ":ids IN (1)", ":ids = 1", "detector = :ids", "detector = :D", "detector = :T0", "visit.timespan.begin < :t0",
    "detector = 1.5", "detector = 1.", "detector = 1e3", "detector = 007", "visit.exposure_time = 1", "visit.exposure_time = 1.5", "visit.exposure_time > .5e1", "visit.exposure_time = '1'",
    "detector % 2 = 1", "visit.exposure_time % 2 = 1", "detector % 2.0 = 1", "detector + 1.5 = 2", "visit.exposure_time + 1.5 > 2.5", "detector / 2 % 2 = 1", "instrument + 'a' = 'b'",
    "detector + visit > exposure", "detector * (visit - 1) / 2 >= 0", "detector = instrument", "instrument < band", "instrument = 'a' = 'b'", "(instrument = 'a') = null",
    "detector = 1 AND 2", "detector OR visit", "detector = 1 OR instrument", "(detector = 1) + 1 = 2", "detector = (1)", "((detector)) = ((1))", "(detector = 1)", "((detector = 1) AND (visit = 2))",
    "foo(1)", "foo()", "foo(1, 2) = 1", "max(detector) = 1", "POINT(1, 2)", "POINT(1) = 1", "POINT(1, 2, 3) = 1", "visit.region OVERLAPS POINT(1, 2)", "visit.region OVERLAPS POINT(-1.5, +2)",
    "visit.region OVERLAPS POINT(detector, 2)", "visit.region OVERLAPS POINT('a', 2)", "visit.region OVERLAPS POINT(:f, :d)", "visit.region OVERLAPS POINT(:s, 1)", "visit.region OVERLAPS POINT(1 + 1, 2)",
    "visit.region OVERLAPS POINT(-(1), (2))", "visit.region OVERLAPS POINT(null, 2)", "visit.region = visit.region", "visit.region OVERLAPS visit.region", "visit.region OVERLAPS visit.timespan",
    "detector = 1..5", "1..5", "NOT 1..5", "(1..5)", "detector IN ((1..5))", "detector = nosuch", "detector.nosuch = 1", "a.b.c = 1", "visit.timespan.middle = 1", "x_y = 1", "ingest_date = 1",
    "seq_num = 1", "exposure_time > 1", "timespan OVERLAPS T'2020-01-01'", "timespan.begin < T'2020-01-01'", "region OVERLAPS POINT(1, 2)", "name = 'a'", "id = 1", "visit.id = 1", "visit.instrument = 'Cam'",
    "Visit.Seq_Num = 1", "DETECTOR = 1", "detector = :X", "htm7 = 1", "detector = 12345678901234567890", "detector = T'2020-01-01'", "visit.timespan.begin = '2020-01-01'",
    "detector = :visit", "instrument = :band", "detector IN (:visit)", "detector = :null", ":detector = 1", "detector = :d.x", "visit.timespan.begin = :T0", "detector IN (:IDS)",
    "detector = 1E3", "visit.exposure_time = 1E3", "visit.exposure_time = 2.E+2", "visit.exposure_time < 1e-3", "detector IN (1E3)", "visit.exposure_time IN (1E3, .5e1)",
    "visit.timespan.begin = T'2020-01-01'", "visit.timespan.end > T'mjd/58938.515'", "visit.timespan.begin = T'garbage'", "detector = 1 #", "detector == 1", "detector = 1 AND", "a b",
]


# the hand-written strings that the DOCUMENTED rules make invalid (queries.rst: boolean expression required, bind names
# must be in the bind map, IN takes a scalar on the left and literals / identifiers / ranges of its type on the right,
# NOT / AND / OR take booleans, unary sign takes a number, NULL only with = / !=): oracle, independent of the model
CONV_EDGE_REJECT = {
    "1", "null", "null = null", "detector < null", "+instrument = 'a'", "+null = 1", "-:s = 'g'", "-null = 1", "NOT detector", "NOT null", "NOT :d",
    "detector IN ('a')", "detector IN (:names)", "detector IN (:mixed)", "detector IN (:nobody)", "detector IN (instrument)", "instrument IN (1..5)",
    "instrument IN (:ids)", "visit.exposure_time IN (1..5)", "null IN (1)", "(detector = 1) IN (1)", ":ids IN (1)", ":ids = 1", "detector = :ids",
    "detector = :visit", "instrument = :band", "detector IN (:visit)", ":detector = 1", "detector = :T0", "detector = instrument",
    "detector = 1 AND 2", "detector OR visit", "detector = 1 OR instrument", "(detector = 1) + 1 = 2", "foo(1)", "foo()", "foo(1, 2) = 1", "max(detector) = 1",
    "POINT(1, 2)", "detector = 1..5", "1..5", "NOT 1..5", "(1..5)", "detector = nosuch", "detector.nosuch = 1", "a.b.c = 1", "visit.timespan.middle = 1",
    "x_y = 1", "instrument + 'a' = 'b'", "(1, 2) OVERLAPS visit.timespan", "('2020-01-01', null) OVERLAPS visit.timespan", "(:d, null) OVERLAPS visit.timespan",
    "visit.region OVERLAPS POINT(detector, 2)", "visit.region OVERLAPS POINT('a', 2)", "visit.region OVERLAPS POINT(:s, 1)", "visit.region OVERLAPS POINT(null, 2)",
    "detector = T'2020-01-01'", "visit.timespan.begin = T'garbage'", "detector = 1 #", "detector == 1", "detector = 1 AND", "a b", "visit.exposure_time = '1'",
}


def cvalue(v) -> str:
    k = v[0]
    if k == "int":
        return f"(VInt {cz(v[1])})"
    if k == "real":
        return f"(VReal {cz(v[1])} {int(v[2])}%positive)"
    if k == "str":
        return f"(VStr {cs(v[1])})"
    if k == "time":
        return f"(VTime {cz(v[1])})"
    if k == "span":
        return f"(VSpan {cz(v[1])} {cz(v[2])})"
    raise ValueError(f"cannot encode value {k}")


def crid(r) -> str:
    if r is None:
        return "None"
    k = r[0]
    if k == "col":
        return f"(Some (RCol {int(r[1])}%N {r[2]}))"
    if k in ("begin", "end"):
        return f"(Some ({'RBegin' if k == 'begin' else 'REnd'} {int(r[1])}%N))"
    if k == "null":
        return "(Some RNull)"
    if k == "lit":
        return f"(Some (RLit {cvalue(r[1])}))"
    if k == "seq":
        return f"(Some (RSeq {clist(cvalue(v) for v in r[1])}))"
    return "(Some ROther)"


def _nf_size(t, cap=400):
    """number of OR-groups of the conjunctive normal form that Predicate.logical_and / logical_or / logical_not build for a
    parse tree (JSON encoding), computed the way the implementation does it (no simplification): a CNF is a list of group
    sizes; AND concatenates, OR takes all pairs, NOT of groups of sizes s1..sk gives s1*...*sk groups of size k; an IN list of
    n items is one group of n leaves.  Returns cap + 1 as soon as any intermediate form exceeds cap groups."""
    class Big(Exception):
        pass

    def chk(g):
        if len(g) > cap:
            raise Big
        return g

    def go(t):
        if not isinstance(t, list) or not t:
            return [1]
        k = t[0]
        if k == "Parens":
            return go(t[1])
        if k == "Unary" and t[1] == "NOT":
            g = go(t[2])
            n = 1
            for x in g:
                n *= x
                if n > cap:
                    raise Big
            return chk([len(g)] * n)
        if k == "IsIn":
            n = max(1, len(t[2]))
            return [1] * n if t[3] else [n]
        if k == "Binary" and t[2] in ("AND", "OR"):
            a, b = go(t[1]), go(t[3])
            if t[2] == "AND":
                return chk(a + b)
            if len(a) * len(b) > cap:
                raise Big
            return chk([x + y for x in a for y in b])
        return [1]
    try:
        return len(go(t))
    except Big:
        return cap + 1


def _range_members(start, stop, step):
    """canonical description of the integers of range(start, stop, step) (stop exclusive; None = unbounded)"""
    if stop is None:
        return (start, None, step)
    n = len(range(start, stop, step)) if step >= 1 else 0
    return ("empty",) if n == 0 else (start, 1, 0) if n == 1 else (start, n, step)


def _conv_stage(ctx: Ctx, r, cases, hdr: str, first: bool):
    """every string of the run (plus CONV_EDGE) through the real convert_expression_string_to_predicate and through the
    model's where_verdict (lexer, parser, of_tree, C05's conv)"""
    # the parser stage above already compares every string; here the interesting strings are the ones that parse, so
    # syntax errors, redundant spellings and garbage are sampled
    keep = {"conv-edge": 1.0, "corpus": 1.0, "replay": 1.0, "illtyped-family": 1.0, "valid": 1.0, "mutant": 1.0, "edge": 1.0,
            "paren": 0.1, "syntax-family": 0.15, "garbage": 0.3}
    seen, todo = set(), []
    assert CONV_EDGE_REJECT <= set(CONV_EDGE)
    for c in ([{"s": s, "kind": "conv-edge", "must_reject": s in CONV_EDGE_REJECT, "family": "edge"} for s in CONV_EDGE] if first else []) + cases:
        if c["s"] in seen or (c["kind"] == "valid" and c.get("style") != "plain") or r.random() >= keep.get(c["kind"], 1.0):
            continue
        # Predicate.logical_or / logical_not multiply the conjunctive normal form out (exponential in nested NOT/AND/OR:
        # MemoryError in Predicate._impl_or, a C15/C05 matter); as in the Butler stage only strings with at most four
        # AND/OR operators are converted for real
        if c["kind"] not in ("corpus", "replay", "conv-edge") and len(re.findall(r"(?i)\b(and|or)\b", c["s"])) > 4:
            continue
        seen.add(c["s"])
        todo.append(c)
    todo = todo[:12000]
    ctxs = [["visit", "detector"], ["exposure"]]
    jobs = []     # (case, dims)
    for c in todo:
        jobs.append((c, 0))
        if c["kind"] in ("conv-edge", "corpus", "replay", "illtyped-family") or r.random() < 0.15:
            jobs.append((c, 1))
    chunk = 500
    payloads, owner = [], []
    for d in (0, 1):
        js = [j for j in jobs if j[1] == d]
        for i in range(0, len(js), chunk):
            payloads.append({"strings": [j[0]["s"] for j in js[i:i + chunk]], "bind": CONV_BIND, "dimensions": ctxs[d]})
            owner.append(js[i:i + chunk])
    res = parallel_workers("c14_impl", "conv_batch", payloads, timeout=600)
    conv_cases, meta = [], []
    for k, (st, out) in enumerate(res):
        if st != "ok":
            ctx.tie_broken("harness", "conv_batch", f"worker {st}: {str(out)[-600:]}")
            continue
        bnd = clist(cs(b) for b in out["bound"])
        for (c, d), rec in zip(owner[k], out["results"]):
            s = c["s"]
            ctx.count()
            ctx.hist("conv_obs", rec["obs"])
            # ---- O7: the conversion raises InvalidQueryError and nothing else
            if rec["obs"] == "other" and rec["fail"]["type"] in ("MemoryError", "RecursionError"):
                ctx.hist("resource_limit", rec["fail"]["type"])      # resource exhaustion: outside this property's statement
            elif rec["obs"] == "other":
                o = rec["fail"]
                ctx.oracle_fail(f"butler-exc:{o['type']}@{o['loc']}", {"where": s, "api": "convert_expression_string_to_predicate", "dimensions": ctxs[d], "error": o},
                                f"convert_expression_string_to_predicate raised {o['type']} instead of InvalidQueryError")
            for n, rr in rec["res"].items():
                if rr is not None and rr[0] == "exc":
                    ctx.oracle_fail(f"resolve-exc:{rr[1]}", {"where": s, "name": n, "dimensions": ctxs[d]}, f"visitIdentifier({n!r}) raised {rr[1]} instead of InvalidQueryError")
            # ---- O4 (range literal values) on the conversion's OUTPUT: `a..b:s` is documented as the sequence of integers
            # a, a+s, ... <= b; the in_range leaves of the Predicate (exclusive stop) must denote exactly those sequences
            if rec.get("ranges"):
                want = {_range_members(a, b + 1, 1 if st is None else st) for a, b, st in rec["ranges"]["tree"]}
                got = {_range_members(a, b, st) for a, b, st in rec["ranges"]["pred"]}
                if want != got:
                    ctx.oracle_fail("range-literal-value:conversion", {"where": s, "api": "convert_expression_string_to_predicate", "dimensions": ctxs[d],
                                                                        "tree_ranges": rec["ranges"]["tree"], "in_range_leaves": rec["ranges"]["pred"]},
                                    "a range literal a..b:s was converted to an in_range test that does not denote the documented sequence a, a+s, ... <= b")
                ctx.hist("conv_ranges", "strided-unaligned" if any(st not in (None, 1) and (b - a) % st for a, b, st in rec["ranges"]["tree"]) else "other")
            if rec["obs"] == "accept" and c.get("must_reject"):
                ctx.oracle_fail(f"accepted-invalid:{c.get('family')}", {"where": s, "api": "convert_expression_string_to_predicate", "family": c.get("family"), "must_reject": True},
                                "an invalid where string was converted to a Predicate (given some other meaning)")
            try:
                conv_cases.append(
                    f"(mkv {ccodes(s)} {ctimes(rec['times'])} {clist(f'({cs(a)}, {cz(b)})' for a, b in rec['tns'].items())} "
                    f"{clist(f'({cs(n)}, {crid(rr)})' for n, rr in rec['res'].items())} {bnd} "
                    f"{ {'accept': 'CAccept', 'invalid': 'CInvalid', 'other': 'COther'}[rec['obs']] })")
                meta.append({"s": s, "dimensions": ctxs[d], "kind": c["kind"], "family": c.get("family"), "real": rec["obs"], "res": rec["res"]})
            except ValueError as e:
                ctx.disagreement("encode", {"s": s}, f"observation not expressible in the model: {e}")
    # the regenerated visitor (Model/ConvCheck.vo) may fail to build when the source changed shape (e.g. a visitor method
    # that no longer takes the bind map): the hand model's correspondence must still run
    from harness.common import COQ
    vo, gen = COQ / "Model" / "ConvCheck.vo", COQ / "Gen" / "ConvGen.v"
    have_gen = vo.exists() and gen.exists() and vo.stat().st_mtime >= gen.stat().st_mtime
    if not have_gen and first:
        ctx.tie_broken("correspondence", "conv_gen", "Model/ConvCheck.vo (regenerated _ConversionVisitor methods) is not built; only the hand model is compared")
    hdr_v = (hdr.replace("Model.ParserCheck.", "Model.ParserCheck Model.Expr Model.SqlExpr Model.ParserConv Model.ParserConvCheck" + (" Model.ConvCheck." if have_gen else "."))
             + "Definition mkv (c : list N) (t : list (string * option string)) (n : list (string * Z)) (r : list (string * option rid)) "
               "(b : list string) (o : cobs) : conv_case := (c, t, n, r, b, o).\n")
    # chk_conv_gen = chk_conv (hand model) && the REGENERATED visitor over the hand-written constructors agrees as well
    bad = ctx.coq_cases("conv", hdr_v, conv_cases, "chk_conv_gen" if have_gen else "chk_conv", shard=700)
    for i in (bad or [])[:6]:
        ctx.disagreement("conv", meta[i], "model verdict (lexer, parser, of_tree, conv; regenerated visitor methods) differs from convert_expression_string_to_predicate")
    # evidence (non-vacuity): on a fixed-size sample, what the model says (Accept / Reject / NoClaim)
    step = max(1, -(-len(conv_cases) // 300))
    sample = list(range(0, len(conv_cases), step))
    nclaim = None
    if sample:
        rc, out = ctx.coq_eval("conv_verdicts", hdr_v + "Definition vcode (c : conv_case) : N := match case_verdict c with Accept => 0%N | Reject => 1%N | NoClaim => 2%N end.\n",
                               "List.map vcode [" + ";\n ".join(conv_cases[i] for i in sample) + "]", timeout=600)
        m_ = re.search(r"=\s*\[(.*?)\]\s*:\s*list N", out, re.S)
        if rc == 0 and m_:
            codes_ = [int(x) for x in re.findall(r"(\d+)%N", m_.group(1))]
            if len(codes_) == len(sample):
                nclaim = 0
                for cde in codes_:
                    ctx.hist("conv_model_sample", ("accept", "reject", "no-claim")[cde])
                    nclaim += cde == 2
        if nclaim is None:
            ctx.log("conv_verdicts: could not evaluate the verdict sample (evidence only): " + out[-300:])
    for m in meta:
        if m["real"] == "invalid" and m["kind"] in ("illtyped-family", "conv-edge", "valid"):
            ctx.nontrivial("conv:" + m["s"])
    ctx.log(f"correspondence conv: {len(conv_cases)} cases, disagreements {None if bad is None else len(bad)}; "
            f"sample of {len(sample)}: model makes no claim on {nclaim}")


def _numlit_stage(ctx: Ctx, r, hdr: str):
    """O4 (literal values) for numeric literals + tie K for Model/ParserConv.num_value: the real visitNumericLiteral, the
    documented value (the decimal number that was written, Python Fraction(text)) and the model agree"""
    import math
    from fractions import Fraction
    texts = set(INT_LITS + FLOAT_LITS + ["0", "00", "1e0", "1E0", "1e+0", "1E-0", "0.", ".0", "0.0e0", "9.99E2", "123456789.987654321", "1e22", "1e-7"])
    for _ in range(120):
        ip = "".join(r.choice("0123456789") for _ in range(r.randint(0, 4)))
        fp = "".join(r.choice("0123456789") for _ in range(r.randint(0, 3)))
        body = r.choice([ip or "0", (ip or "0") + "." + fp, "." + (fp or "5")])
        ex = r.choice(["", "", "e", "E"])
        if ex:
            ex += r.choice(["", "+", "-"]) + str(r.randint(0, 12))
        texts.add(body + ex)
    texts = sorted(texts)
    texts += [sg + t for t in texts[:60] for sg in "+-"]          # signed literals of IN lists
    st, out = run_worker("c14_impl", "numlit_batch", {"texts": texts}, timeout=300)
    if st != "ok":
        ctx.tie_broken("harness", "numlit_batch", str(out)[-600:])
        return
    cases, meta = [], []
    for t, rec in zip(texts, out["results"]):
        ctx.count()
        want = Fraction(t)
        want_int = re.fullmatch(r"[+-]?[0-9]+", t) is not None        # documented: an integer literal is a run of digits
        if "exc" in rec:
            ctx.oracle_fail(f"numeric-literal-exc:{rec['exc']}", {"text": t, "where": f"visit.exposure_time = {t}"}, f"visitNumericLiteral({t!r}) raised {rec['exc']}")
        else:
            ok = (rec["type"] == "int" and want_int and rec["int"] == want) or (
                rec["type"] == "float" and not want_int and rec["float"] is not None and
                (rec["float"] == float(want) or (math.isinf(rec["float"]) and abs(want) > 1e308)))
            if not ok:
                ctx.oracle_fail(f"numeric-literal-value:{'int' if want_int else 'float'}", {"text": t, "got": rec, "want": str(want)},
                                "a numeric literal does not have the value that was written")
        ctx.nontrivial("num:" + t)
        cases.append(f"({ccodes(t)}, {cbool(want_int)}, {cz(want.numerator)}, {want.denominator}%positive)")
        meta.append({"text": t, "want": str(want), "real": rec})
    hdr_n = hdr.replace("Model.ParserCheck.", "Model.ParserCheck Model.Expr Model.SqlExpr Model.ParserConv Model.ParserConvCheck.")
    bad = ctx.coq_cases("numlit", hdr_n, cases, "chk_num", shard=1000)
    for i in (bad or [])[:6]:
        ctx.disagreement("numlit", meta[i], "model num_value differs from the value that was written")
    ctx.log(f"correspondence numlit: {len(cases)} numeric spellings, disagreements {None if bad is None else len(bad)}")


def _shape_sig(G) -> str:
    """coarse, stable signature of an expression: operator skeleton up to depth 2"""
    def go(t, d):
        if not isinstance(t, list) or not t:
            return ""
        k = t[0]
        if k == "Binary":
            return t[2] if d == 0 else f"({go(t[1], d - 1)}{t[2]}{go(t[3], d - 1)})"
        if k == "Unary":
            return "u" + t[1] + (go(t[2], d - 1) if d else "")
        if k == "IsIn":
            return "IN"
        return k[0].lower()
    return go(G, 2)[:40]
