"""C05 -- A where-expression selects exactly the rows for which it is true.

Obligations: coq/Props/C05.v (models coq/Model/Expr.v = documented meaning, coq/Model/SqlExpr.v = what the code does).
Tie T: Gen/TimespanGen.v, Gen/PredGen.v (C11 / C15 translators) and Gen/RangeGen.v = SqlColumnVisitor.visit_in_range regenerated
       by harness/translators/expr_range.py (in_range_correct_gen, range_gen_matches_model are stated over it).
Tie K: a populated real repository per worker (harness/impl/c05_impl.py); generated typed expressions are rendered to
       where-strings, run through Butler.query_data_ids / query_dimension_records / query_datasets and the legacy
       Registry.queryDataIds / queryDimensionRecords / queryDatasets; the rows of the new interfaces are compared with the
       Coq model (conv -> Predicate (C15 py_build) -> SQL -> SQLite semantics) over the table contents dumped from
       SQLite, by vm_compute (chk_case), and the documented meaning is cross-evaluated in Coq as well (chk_doc).
       The legacy interfaces are compared with their own Coq model (coq/Model/ExprLegacy.v: normal form + CheckVisitor,
       PredicateConversionVisitor, daf_relation SQL; chk_legacy_both in Model/ExprLegacyCheck.v): refused/accepted and rows,
       the rows lost to the governor pruning of a dataset search included.
Oracle: an independent three-valued evaluator written from doc/lsst.daf.butler/queries.rst (Fractions, Python ranges,
        half-open time intervals) applied to the same table contents; the new interfaces must return exactly the rows on
        which the expression is true; the legacy interfaces, whenever they accept the expression, the same rows.
"""
from __future__ import annotations

import datetime
import json
from fractions import Fraction
from pathlib import Path

from harness.common import VERIF, Ctx, clist, cstr, cz, parallel_workers

MAXN = 4102444800000000000      # TimeConverter().max_nsec == Gen.TimespanGen.GEN_MAX (checked in run())
T0 = 1_700_000_000

# ------------------------------------------------------------------------------------------------------------
# schema: row key (as used by oracle rows) -> (column id of the Coq model, type)
# ------------------------------------------------------------------------------------------------------------
COLS = {
    "instrument": (0, "str"), "detector": (1, "int"), "detector.full_name": (2, "str"), "detector.name_in_raft": (3, "str"),
    "detector.raft": (4, "str"), "detector.purpose": (5, "str"),
    "visit": (10, "int"), "visit.name": (11, "str"), "physical_filter": (12, "str"), "band": (13, "str"), "day_obs": (14, "int"),
    "visit.seq_num": (15, "int"), "visit.exposure_time": (16, "real"), "visit.target_name": (17, "str"),
    "visit.science_program": (18, "str"), "visit.zenith_angle": (19, "real"), "visit.timespan": (20, "span"),
    "exposure": (30, "int"), "exposure.obs_id": (31, "str"), "exposure.seq_num": (33, "int"), "exposure.exposure_time": (34, "real"),
    "exposure.dark_time": (35, "real"), "exposure.target_name": (36, "str"), "exposure.science_program": (37, "str"),
    "exposure.observation_type": (38, "str"), "exposure.can_see_sky": (39, "bool"), "exposure.has_simulated": (40, "bool"),
    "exposure.timespan": (41, "span"), "group": (42, "str"), "run": (50, "str"),
}
TY = {"int": "TyInt", "real": "TyReal", "str": "TyStr", "time": "TyTime", "span": "TySpan", "bool": "TyBool"}

# identifier spellings accepted for a row key (documented: dimension name, element.field, element.dimension)
SPELL = {k: [k] for k in COLS}
SPELL["detector"] += ["detector.id"]
SPELL["visit"] += ["visit.id"]
SPELL["exposure"] += ["exposure.id"]
SPELL["instrument"] += ["detector.instrument", "visit.instrument", "exposure.instrument"]
SPELL["physical_filter"] += ["visit.physical_filter", "exposure.physical_filter"]
SPELL["band"] += ["physical_filter.band"]
SPELL["day_obs"] += ["visit.day_obs", "exposure.day_obs"]
SPELL["group"] += ["exposure.group"]

SCOPES = {
    # scope -> (row keys usable in expressions, [(target, key columns)])
    "detector": (["instrument", "detector", "detector.full_name", "detector.name_in_raft", "detector.raft", "detector.purpose"],
                 [("data_ids:detector", ["instrument", "detector"]), ("records:detector", ["instrument", "detector"])]),
    "flat": (["instrument", "detector", "detector.full_name", "detector.raft", "detector.purpose"],
             [("datasets:flat", ["run", "instrument", "detector"]), ("dsdata:flat", ["instrument", "detector"])]),
    "visit": (["instrument", "visit", "visit.name", "physical_filter", "band", "day_obs", "visit.seq_num", "visit.exposure_time",
               "visit.target_name", "visit.science_program", "visit.zenith_angle", "visit.timespan"],
              [("data_ids:visit", ["instrument", "visit"]), ("records:visit", ["instrument", "visit"])]),
    "vimg": (["instrument", "visit", "band", "visit.seq_num", "visit.exposure_time", "visit.timespan"],
             [("datasets:vimg", ["run", "instrument", "visit"]), ("dsdata:vimg", ["instrument", "visit"])]),
    "exposure": (["instrument", "exposure", "exposure.obs_id", "physical_filter", "band", "day_obs", "group", "exposure.seq_num",
                  "exposure.exposure_time", "exposure.dark_time", "exposure.target_name", "exposure.science_program",
                  "exposure.observation_type", "exposure.can_see_sky", "exposure.has_simulated", "exposure.timespan"],
                 [("data_ids:exposure", ["instrument", "exposure"]), ("records:exposure", ["instrument", "exposure"])]),
    # no `band` here: with target {instrument, detector} the query is extended by the band dimension alone (all bands of
    # the repository), not through visit - which joins are made is C06's subject
    "visit_detector": (["instrument", "detector", "visit", "detector.raft", "visit.seq_num", "detector.purpose"],
                       [("data_ids:visit_detector", ["instrument", "visit", "detector"]), ("data_ids:visit", ["instrument", "visit"]),
                        ("data_ids:detector", ["instrument", "detector"])]),
}


# ------------------------------------------------------------------------------------------------------------
# candidate tables from the dumped SQLite contents
# ------------------------------------------------------------------------------------------------------------
def _f(x):
    return None if x is None else Fraction(x)


def _b(x):
    return None if x is None else bool(x)


def _span(r):
    return None if r["timespan_begin"] is None else ("span", r["timespan_begin"], r["timespan_end"])


def build_tables(dump, datasets):
    band = {(r["instrument"], r["name"]): r["band"] for r in dump["physical_filter"]}
    det = [{"instrument": r["instrument"], "detector": r["id"], "detector.full_name": r["full_name"],
            "detector.name_in_raft": r["name_in_raft"], "detector.raft": r["raft"], "detector.purpose": r["purpose"]} for r in dump["detector"]]
    vis = [{"instrument": r["instrument"], "visit": r["id"], "visit.name": r["name"], "physical_filter": r["physical_filter"],
            "band": band.get((r["instrument"], r["physical_filter"])), "day_obs": r["day_obs"], "visit.seq_num": r["seq_num"],
            "visit.exposure_time": _f(r["exposure_time"]), "visit.target_name": r["target_name"],
            "visit.science_program": r["science_program"], "visit.zenith_angle": _f(r["zenith_angle"]), "visit.timespan": _span(r)}
           for r in dump["visit"]]
    exp = [{"instrument": r["instrument"], "exposure": r["id"], "exposure.obs_id": r["obs_id"], "physical_filter": r["physical_filter"],
            "band": band.get((r["instrument"], r["physical_filter"])), "day_obs": r["day_obs"], "group": r["group"],
            "exposure.seq_num": r["seq_num"], "exposure.exposure_time": _f(r["exposure_time"]), "exposure.dark_time": _f(r["dark_time"]),
            "exposure.target_name": r["target_name"], "exposure.science_program": r["science_program"],
            "exposure.observation_type": r["observation_type"], "exposure.can_see_sky": _b(r["can_see_sky"]),
            "exposure.has_simulated": _b(r["has_simulated"]), "exposure.timespan": _span(r)} for r in dump["exposure"]]
    vd = [dict(v, **d) for v in vis for d in det if d["instrument"] == v["instrument"]]
    dby = {(d["instrument"], d["detector"]): d for d in det}
    vby = {(v["instrument"], v["visit"]): v for v in vis}
    flat = [dict(dby[(x[2], x[3])], run=x[1]) for x in datasets if x[0] == "flat"]
    vimg = [dict(vby[(x[2], x[3])], run=x[1]) for x in datasets if x[0] == "vimg"]
    return {"detector": det, "visit": vis, "exposure": exp, "visit_detector": vd, "flat": flat, "vimg": vimg}


# ------------------------------------------------------------------------------------------------------------
# expression AST (nested lists, JSON-able):
#   ["lit", V] ["bind", name, V, colon?] ["null"] ["col", key, spelling] ["begin", e] ["end", e] ["neg", e] ["pos", e]
#   ["arith", op, a, b] ["cmp", op, a, b] ["overlaps", a, b] ["in", e, items, neg] ["not", e] ["and", a, b] ["or", a, b]
#   items: ["lit", V] ["col", key, spelling] ["range", a, b, stride|None] ["seq", name, [V...], container, colon?] ["null"]
#   ["tin", e, t1, t2, neg]   `e IN (t1, t2)` with time operands (documented: containment in the time range)
#   V: ["int", z] ["real", num, den] ["str", s] ["time", sec] ["span", b_sec|None, e_sec|None]
# ------------------------------------------------------------------------------------------------------------
def tstr(sec):
    d = datetime.datetime(1970, 1, 1) + datetime.timedelta(seconds=sec)
    return d.strftime("T'%Y-%m-%d %H:%M:%S/tai'")


def rv(v):
    k = v[0]
    if k == "int":
        return str(v[1])
    if k == "real":
        x = Fraction(v[1], v[2])
        return repr(float(x))
    if k == "str":
        return "'" + v[1] + "'"
    if k == "time":
        return tstr(v[1])
    if k == "span":
        return "(" + ("NULL" if v[1] is None else tstr(v[1])) + ", " + ("NULL" if v[2] is None else tstr(v[2])) + ")"
    raise ValueError(v)


def render(e, binds):
    k = e[0]
    if k == "lit":
        return rv(e[1])
    if k == "bind":
        binds[e[1]] = bind_payload(e[2])
        return (":" if e[3] else "") + e[1]
    if k == "null":
        return "NULL"
    if k == "col":
        return e[2]
    if k in ("begin", "end"):
        return render(e[1], binds) + "." + k
    if k == "neg":
        return "-" + _atom(e[1], binds)
    if k == "pos":
        return "+" + _atom(e[1], binds)
    if k == "arith":
        return _atom(e[2], binds) + " " + e[1] + " " + _atom(e[3], binds)
    if k == "cmp":
        return _atom(e[2], binds) + " " + e[1] + " " + _atom(e[3], binds)
    if k == "overlaps":
        return _atom(e[1], binds) + " OVERLAPS " + _atom(e[2], binds)
    if k == "in":
        its = []
        for it in e[2]:
            if it[0] == "range":
                its.append(f"{it[1]}..{it[2]}" + ("" if it[3] is None else f":{it[3]}"))
            elif it[0] == "seq":
                binds[it[1]] = {"t": it[3], "v": [bind_payload(v) for v in it[2]]}
                its.append((":" if it[4] else "") + it[1])
            elif it[0] == "null":
                its.append("NULL")
            else:
                its.append(render(it, binds))
        return _atom(e[1], binds) + (" NOT IN (" if e[3] else " IN (") + ", ".join(its) + ")"
    if k == "tin":
        return _atom(e[1], binds) + (" NOT IN (" if e[4] else " IN (") + render(e[2], binds) + ", " + render(e[3], binds) + ")"
    if k == "not":
        return "NOT (" + render(e[1], binds) + ")"
    if k in ("and", "or"):
        return "(" + render(e[1], binds) + ") " + k.upper() + " (" + render(e[2], binds) + ")"
    raise ValueError(e)


def _atom(e, binds):
    s = render(e, binds)
    if e[0] in ("arith", "cmp", "overlaps", "in", "neg", "pos") or (e[0] == "lit" and e[1][0] in ("int", "real") and s.startswith("-")):
        return "(" + s + ")"
    return s


def bind_payload(v):
    k = v[0]
    if k == "int":
        return {"t": "int", "v": v[1]}
    if k == "real":
        return {"t": "float", "v": float(Fraction(v[1], v[2]))}
    if k == "str":
        return {"t": "str", "v": v[1]}
    if k == "time":
        return {"t": "time", "sec": v[1]}
    if k == "span":
        return {"t": "span", "b": v[1], "e": v[2]}
    raise ValueError(v)


# ------------------------------------------------------------------------------------------------------------
# the oracle: documented meaning, three-valued (None = unknown), written from queries.rst
# ------------------------------------------------------------------------------------------------------------
class IllTyped(Exception):
    pass


# Known deviations of the implementation, as alternative readings used ONLY to name a failure precisely (the verdict
# always comes from the documented reading, QUIRKS empty): a wrong result that one of these readings reproduces gets that
# reading's name in its signature, anything else is "unexplained".
QUIRKS: frozenset = frozenset()
ALL_QUIRKS = ("null-span-bound", "quot-range", "time-in", "legacy-stride", "legacy-null-cmp", "legacy-negated-governor")
RUN_GOVERNORS = {"r1": {"Cam"}, "r2": {"Cam"}, "rO": {"Oth"}, "rm": {"Cam", "Oth"}}   # instruments in each RUN's summary


def negated_governors(e, under_not=False):
    """instrument values v that occur as `instrument = v` under a NOT (or in NOT IN): the legacy interface prunes the
    collections whose summary lacks v, as if the constraint were positive"""
    out = set()
    k = e[0]
    if k == "not":
        return negated_governors(e[1], not under_not)
    if k in ("and", "or"):
        return negated_governors(e[1], under_not) | negated_governors(e[2], under_not)
    def val(x):
        v = x[1] if x[0] == "lit" else x[2] if x[0] == "bind" else None
        return v[1] if v and v[0] == "str" else None
    if k == "cmp" and e[1] == "=" and under_not:
        for a, b in ((e[2], e[3]), (e[3], e[2])):
            if a[0] == "col" and a[1] == "instrument" and val(b) is not None:
                out.add(val(b))
    if k == "in" and e[1][0] == "col" and e[1][1] == "instrument" and (e[3] != under_not):
        for it in e[2]:
            if it[0] in ("lit", "bind") and val(it) is not None:
                out.add(val(it))
    return out



def _tmod(a, b):
    q = abs(a) // abs(b) * (1 if (a >= 0) == (b >= 0) else -1)
    return a - b * q


def o_val(v):
    k = v[0]
    if k == "int":
        return v[1]
    if k == "real":
        return Fraction(v[1], v[2])
    if k == "str":
        return v[1]
    if k == "time":
        return ("time", v[1] * 10**9)
    if k == "span":
        b = 0 if v[1] is None else v[1] * 10**9
        e = MAXN if v[2] is None else v[2] * 10**9
        return ("span", b, e)
    raise ValueError(v)


def _isnum(x):
    return isinstance(x, (int, Fraction)) and not isinstance(x, bool)


def _istime(x):
    return isinstance(x, tuple) and x[0] == "time"


def _isspan(x):
    return isinstance(x, tuple) and x[0] == "span"


def o_cmp(op, a, b):
    if a is None or b is None:
        return None
    if _istime(a) and _istime(b):
        a, b = a[1], b[1]
    elif not ((_isnum(a) and _isnum(b)) or (isinstance(a, str) and isinstance(b, str))):
        raise IllTyped(f"compare {a!r} {b!r}")
    return {"=": a == b, "!=": a != b, "<": a < b, "<=": a <= b, ">": a > b, ">=": a >= b}[op]


def k_not(a):
    return None if a is None else not a


def k_and(a, b):
    if a is False or b is False:
        return False
    if a is None or b is None:
        return None
    return True


def k_or(a, b):
    if a is True or b is True:
        return True
    if a is None or b is None:
        return None
    return False


def span_overlap(a, b):
    # half-open sets of nanoseconds share a point
    return max(a[1], b[1]) < min(a[2], b[2])


def o_eval(e, row):
    k = e[0]
    if k == "lit":
        return o_val(e[1])
    if k == "bind":
        return o_val(e[2])
    if k == "null":
        return None
    if k == "col":
        v = row[e[1]]
        if _isspan(v) or v is None or not isinstance(v, int) or isinstance(v, bool):
            return v
        return v
    if k in ("begin", "end"):
        v = o_eval(e[1], row)
        if v is None:
            return ("time", 0) if "null-span-bound" in QUIRKS else None
        return ("time", v[1] if k == "begin" else v[2])
    if k == "pos":
        return o_eval(e[1], row)
    if k == "neg":
        v = o_eval(e[1], row)
        if v is not None and not _isnum(v):
            raise IllTyped("unary minus on a non-number")
        return None if v is None else -v
    if k == "arith":
        a, b = o_eval(e[2], row), o_eval(e[3], row)
        if a is None or b is None:
            return None
        if not (_isnum(a) and _isnum(b)):
            raise IllTyped("arith")
        op = e[1]
        if op == "+":
            return a + b
        if op == "-":
            return a - b
        if op == "*":
            return a * b
        if op == "/":
            return None if b == 0 else Fraction(a) / Fraction(b)
        if op == "%":
            if not (isinstance(a, int) and isinstance(b, int)):
                raise IllTyped("% on non-integers")
            if b == 0:
                return None
            return _tmod(a, b)     # SQL: quotient truncated towards zero
    if k == "cmp":
        if e[3][0] == "null" or e[2][0] == "null":
            other = e[2] if e[3][0] == "null" else e[3]
            if e[1] not in ("=", "!="):
                raise IllTyped("order comparison with NULL")
            isn = o_eval(other, row) is None
            if "legacy-null-cmp" in QUIRKS:
                return None
            return isn if e[1] == "=" else not isn
        return o_cmp(e[1], o_eval(e[2], row), o_eval(e[3], row))
    if k == "overlaps":
        a, b = o_eval(e[1], row), o_eval(e[2], row)
        if a is None or b is None:
            return None
        if _isspan(a) and _isspan(b):
            return span_overlap(a, b)
        if _isspan(a) and _istime(b):
            return a[1] <= b[1] < a[2]
        if _istime(a) and _isspan(b):
            return b[1] <= a[1] < b[2]
        raise IllTyped("overlaps")
    if k == "in":
        x = o_eval(e[1], row)
        res = False
        for it in e[2]:
            if it[0] == "range":
                if x is None:
                    t = None
                else:
                    if not _isnum(x):
                        raise IllTyped("range on non-number")
                    seq = range(it[1], it[2] + 1, it[3] or 1)     # "equivalent to a sequence of integers"
                    t = (Fraction(x).denominator == 1) and (int(x) in seq)
                    st = it[3] or 1
                    if "quot-range" in QUIRKS and Fraction(x).denominator != 1:
                        t = it[1] <= x <= it[2] and (st == 1 or it[1] == it[2] or _tmod(int(x - it[1]), st) == 0)
                    if "legacy-stride" in QUIRKS and Fraction(x).denominator == 1 and st != 1 and it[1] != it[2]:
                        t = it[1] <= x <= it[2] and _tmod(int(x), st) == it[1] % st
            elif it[0] == "seq":
                t = False
                for v in it[2]:
                    t = k_or(t, o_cmp("=", x, o_val(v)))
            elif it[0] == "null":
                t = x is None
            else:
                t = o_cmp("=", x, o_eval(it, row))
            res = k_or(res, t)
        return k_not(res) if e[3] else res
    if k == "tin":
        # "checking whether a timestamp or a time range is contained wholly in other time range"
        x, lo, hi = o_eval(e[1], row), o_eval(e[2], row), o_eval(e[3], row)
        if x is None or lo is None or hi is None:
            return None
        if "time-in" in QUIRKS:
            t = x == lo or x == hi
        elif _istime(x):
            t = lo[1] <= x[1] < hi[1]
        else:
            t = lo[1] <= x[1] and x[2] <= hi[1]
        return (not t) if e[4] else t
    if k == "not":
        return k_not(_bool(o_eval(e[1], row)))
    if k == "and":
        return k_and(_bool(o_eval(e[1], row)), _bool(o_eval(e[2], row)))
    if k == "or":
        return k_or(_bool(o_eval(e[1], row)), _bool(o_eval(e[2], row)))
    raise ValueError(e)


def _bool(v):
    if v is None or isinstance(v, bool):
        return v
    raise IllTyped("boolean expected")


# ------------------------------------------------------------------------------------------------------------
# Coq literals
# ------------------------------------------------------------------------------------------------------------
def cval_py(v):
    """python row value -> Gallina value"""
    if isinstance(v, bool):
        return f"VBool {'true' if v else 'false'}"
    if isinstance(v, int):
        return f"VInt {cz(v)}"
    if isinstance(v, Fraction):
        return f"VReal {cz(v.numerator)} {v.denominator}%positive"
    if isinstance(v, str):
        return f"VStr {cstr(v)}"
    if _isspan(v):
        return f"VSpan {cz(v[1])} {cz(v[2])}"
    if _istime(v):
        return f"VTime {cz(v[1])}"
    raise ValueError(v)


def cval(v):
    """AST value -> Gallina value (literal spans are canonicalised as Timespan.__init__ does)"""
    x = o_val(v)
    if _isspan(x) and x[1] >= x[2]:
        x = ("span", MAXN, 0)
    if v[0] == "real":
        f = Fraction(v[1], v[2])
        return f"VReal {cz(f.numerator)} {f.denominator}%positive"
    return cval_py(x)


COP = {"=": "CEq", "!=": "CNe", "<": "CLt", "<=": "CLe", ">": "CGt", ">=": "CGe"}
AOP = {"+": "OAdd", "-": "OSub", "*": "OMul", "/": "ODiv", "%": "OMod"}


def ccol(key):
    cid, t = COLS[key]
    return f"{cid}%N {TY[t]}"


def cexpr(e):
    k = e[0]
    if k == "lit":
        v = e[1]
        if v[0] in ("int", "real") and v[1] < 0:
            # a negative numeric literal in expression position is a unary minus applied to a literal in the parse tree
            return f"(ENeg (ELit ({cval([v[0], -v[1]] + v[2:])})))"
        return f"(ELit ({cval(e[1])}))"
    if k == "bind":
        return f"(ELit ({cval(e[2])}))"
    if k == "null":
        return "ENull"
    if k == "col":
        return f"(ECol {ccol(e[1])})"
    if k == "begin":
        return f"(EBegin {cexpr(e[1])})"
    if k == "end":
        return f"(EEnd {cexpr(e[1])})"
    if k == "pos":
        return cexpr(e[1])
    if k == "neg":
        return f"(ENeg {cexpr(e[1])})"
    if k == "arith":
        return f"(EArith {AOP[e[1]]} {cexpr(e[2])} {cexpr(e[3])})"
    if k == "cmp":
        return f"(ECmp {COP[e[1]]} {cexpr(e[2])} {cexpr(e[3])})"
    if k == "overlaps":
        return f"(EOverlaps {cexpr(e[1])} {cexpr(e[2])})"
    if k == "in":
        its = []
        for it in e[2]:
            if it[0] == "range":
                its.append(f"IRange {cz(it[1])} {cz(it[2])} " + ("None" if it[3] is None else f"(Some {cz(it[3])})"))
            elif it[0] == "seq":
                its.append("ISeq " + clist(cval(v) for v in it[2]))
            elif it[0] == "null":
                its.append("INull")
            elif it[0] == "col":
                its.append(f"ICol {ccol(it[1])}")
            elif it[0] in ("lit", "bind"):
                its.append(f"ILit ({cval(it[1] if it[0] == 'lit' else it[2])})")
            else:
                raise ValueError(it)
        return f"(EIn {cexpr(e[1])} {clist(its)} {'true' if e[3] else 'false'})"
    if k == "tin":
        def as_item(x):
            return f"ICol {ccol(x[1])}" if x[0] == "col" else f"ILit ({cval(x[1] if x[0] == 'lit' else x[2])})"
        return f"(EIn {cexpr(e[1])} {clist([as_item(e[2]), as_item(e[3])])} {'true' if e[4] else 'false'})"
    if k == "not":
        return f"(ENot {cexpr(e[1])})"
    if k == "and":
        return f"(EAnd {cexpr(e[1])} {cexpr(e[2])})"
    if k == "or":
        return f"(EOr {cexpr(e[1])} {cexpr(e[2])})"
    raise ValueError(e)


def crow(r):
    return clist(f"({COLS[k][0]}%N, {cval_py(v)})" for k, v in r.items() if v is not None)


def ckey(vals):
    return clist("None" if v is None else f"Some ({cval_py(v)})" for v in vals)


# ------------------------------------------------------------------------------------------------------------
# generator: typed expressions over a scope
# ------------------------------------------------------------------------------------------------------------
class Gen:
    def __init__(self, rng, scope, tables):
        self.r = rng
        self.scope = scope
        self.keys = SCOPES[scope][0]
        self.rows = tables[scope]
        self.nb = 0

    def cols(self, t):
        return [k for k in self.keys if COLS[k][1] == t and k != "instrument"]

    def col(self, key):
        return ["col", key, self.r.choice(SPELL[key])]

    def some_value(self, key):
        vals = [row[key] for row in self.rows if row[key] is not None]
        return self.r.choice(vals) if vals else None

    def maybe_bind(self, v):
        if self.r.random() < 0.15:
            self.nb += 1
            return ["bind", f"b{self.nb}", v, self.r.random() < 0.7]
        return ["lit", v]

    def vlit(self, t, key=None):
        r = self.r
        if t == "int":
            base = self.some_value(key) if key and r.random() < 0.6 else r.randint(-6, 45)
            return ["int", int(base) + r.choice([0, 0, 0, 1, -1])]
        if t == "real":
            base = self.some_value(key) if key and r.random() < 0.6 else Fraction(r.randint(-8, 64), 4)
            f = Fraction(base) + r.choice([0, 0, Fraction(1, 4), Fraction(-1, 2)])
            return ["real", f.numerator, f.denominator]
        if t == "str":
            if key and r.random() < 0.8:
                return ["str", self.some_value(key) or "x"]
            return ["str", r.choice(["", "R1", "T0", "g", "zz", "det20", "P0"])]
        if t == "time":
            return ["time", T0 + r.choice([0, 20, 50, 100, 130, 200, 230, 330, 500, 530, 620, 1000, 1230, 5000])]
        if t == "span":
            b = T0 + r.choice([0, 50, 100, 130, 200, 330, 500, 620, 1000])
            e = b + r.choice([1, 20, 30, 100, 470, 2000])
            m = r.random()
            if m < 0.1:
                return ["span", None, e]
            if m < 0.2:
                return ["span", b, None]
            if m < 0.25:
                return ["span", e, b]          # inverted = empty
            return ["span", b, e]
        raise ValueError(t)

    def scalar(self, t, depth, allow_div=True):
        """typed column expression; t in int / real / str / time"""
        r = self.r
        cs = self.cols(t)
        if t in ("int", "real") and depth > 0 and r.random() < 0.55:
            m = r.random()
            if m < 0.15:
                return ["neg", self.scalar(t, depth - 1, allow_div)]
            if m < 0.2:
                return ["pos", self.scalar(t, depth - 1, allow_div)]
            ops = ["+", "-", "*"] + (["%"] if t == "int" else []) + (["/"] if allow_div else [])
            op = r.choice(ops)
            if op == "/":
                # one division, not under * or another / (keeps double arithmetic on the exact side, see design.d/C05.md)
                return ["arith", "/", self.scalar(t, depth - 1, False), self.scalar(t, 0, False)]
            if op == "%":
                return ["arith", "%", self.scalar(t, depth - 1, False), self.scalar(t, depth - 1, False)]
            if op == "*":
                return ["arith", "*", self.scalar(t, depth - 1, False), self.scalar(t, 0, False)]
            return ["arith", op, self.scalar(t, depth - 1, allow_div), self.scalar(t, depth - 1, allow_div)]
        if t == "time":
            spans = self.cols("span")
            if spans and r.random() < 0.7:
                return [r.choice(["begin", "end"]), self.col(r.choice(spans))]
            return self.maybe_bind(self.vlit("time"))
        if cs and r.random() < 0.65:
            return self.col(r.choice(cs))
        return self.maybe_bind(self.vlit(t, r.choice(cs) if cs else None))

    def has_div(self, e):
        return isinstance(e, list) and ((e[0] == "arith" and e[1] == "/") or any(self.has_div(x) for x in e[1:] if isinstance(x, list)))

    def leaf(self):
        r = self.r
        m = r.random()
        types = [t for t in ("int", "real", "str") if self.cols(t)]
        if m < 0.38:          # comparison
            t = r.choice(types + (["time"] if self.cols("span") else []))
            op = r.choice(["=", "!=", "<", "<=", ">", ">="])
            a = self.scalar(t, 2)
            b = self.scalar(t, 1)
            if a[0] in ("lit", "bind") and b[0] in ("lit", "bind") and self.cols(t):
                a = self.col(r.choice(self.cols(t)))
            return ["cmp", op, a, b]
        if m < 0.56 and self.cols("int") and r.random() < 0.8:
            return self.boundary_in()
        if m < 0.68:          # IN
            t = r.choice(types)
            member = self.scalar(t, 2, allow_div=False) if t == "int" else self.scalar(t, 1)
            key = next((x[1] for x in _walk(member) if x[0] == "col"), None)
            items = []
            for _ in range(r.randint(1, 4)):
                q = r.random()
                if t == "int" and q < 0.5:
                    a = r.randint(-8, 40)
                    b = a + r.choice([0, 0, 1, 2, 5, 9, 20, -1])
                    st = r.choice([None, None, 1, 2, 3, 4, 7])
                    items.append(["range", a, b, st])
                elif q < 0.65:
                    self.nb += 1
                    n = r.randint(0, 4)
                    items.append(["seq", f"s{self.nb}", [self.vlit(t, key) for _ in range(n)], r.choice(["list", "tuple", "set"]), r.random() < 0.7])
                elif q < 0.72:
                    items.append(["null"])
                elif q < 0.82 and self.cols(t):
                    items.append(self.col(r.choice(self.cols(t))))
                else:
                    it = self.maybe_bind(self.vlit(t, key))
                    if it[0] == "lit" and it[1][0] in ("int", "real") and it[1][1] < 0:
                        self.nb += 1
                        it = ["bind", f"b{self.nb}", it[1], True]     # signed literals of an IN list go through a bind
                    items.append(it)
            return ["in", member, items, r.random() < 0.3]
        if m < 0.82:          # NULL tests
            ks = [k for k in self.keys if k != "instrument"]
            k = r.choice(ks)
            e = self.col(k)
            if COLS[k][1] in ("int", "real") and r.random() < 0.3:
                e = self.scalar(COLS[k][1], 1)
            op = r.choice(["=", "!="])
            return ["cmp", op, e, ["null"]] if r.random() < 0.8 else ["cmp", op, ["null"], e]
        if m < 0.92 and self.cols("span"):
            sp = self.col(r.choice(self.cols("span")))
            q = r.random()
            other = self.maybe_bind(self.vlit("span")) if q < 0.6 else self.maybe_bind(self.vlit("time"))
            return ["overlaps", sp, other] if r.random() < 0.6 else ["overlaps", other, sp]
        if self.cols("bool"):
            return self.col(r.choice(self.cols("bool")))
        return ["cmp", r.choice(["=", "<", ">="]), self.col(r.choice(self.cols("int"))), ["lit", self.vlit("int", self.cols("int")[0])]]

    def boundary_in(self):
        """IN / NOT IN whose range endpoints and list members sit on {-2..2} and whose member reaches those values
        (`col - k` with k next to a stored value, unary minus): upper bound -1 (exclusive stop 0), 0, 1; lower bound
        -1, 0; degenerate a..a and empty a..a-1; strides 1..3"""
        r = self.r
        B = [-2, -1, -1, 0, 0, 1, 2]
        key = r.choice(self.cols("int"))
        v = self.some_value(key)
        v = 0 if v is None else int(v)
        q = r.random()
        if q < 0.15:
            member = ["neg", self.col(key)]
        elif q < 0.25 and key.endswith("seq_num"):
            member = self.col(key)                       # seq_num itself is -2..3
        else:
            k = v - r.choice(B)
            member = ["arith", "-", self.col(key), ["lit", ["int", k]]] if k >= 0 else ["arith", "+", self.col(key), ["lit", ["int", -k]]]
        items = []
        for _ in range(r.choice([1, 1, 2, 3])):
            z = r.random()
            if z < 0.75:
                b = r.choice(B)
                a = b - r.choice([0, 0, 1, 2, 3, 4, -1])         # -1: the empty range a..a-1
                if r.random() < 0.3:
                    a = r.choice(B)
                    b = max(b, a - 1)
                items.append(["range", a, b, r.choice([None, None, 1, 2, 3])])
            elif z < 0.9:
                self.nb += 1
                items.append(["bind", f"b{self.nb}", ["int", r.choice(B)], True])
            else:
                self.nb += 1
                items.append(["seq", f"s{self.nb}", [["int", r.choice(B)] for _ in range(r.randint(0, 3))], r.choice(["list", "tuple", "set"]), True])
        return ["in", member, items, r.random() < 0.4]

    def boolean(self, depth):
        r = self.r
        if depth <= 0 or r.random() < 0.3:
            return self.leaf()
        m = r.random()
        if m < 0.25:
            return ["not", self.boolean(depth - 1)]
        return [r.choice(["and", "or"]), self.boolean(depth - 1), self.boolean(depth - 1)]


def _walk(e):
    if isinstance(e, list):
        yield e
        for x in e[1:]:
            if isinstance(x, list):
                yield from _walk(x)


def expected(e, rows, keycols, quirks=frozenset()):
    global QUIRKS
    QUIRKS = frozenset(quirks)
    try:
        if "legacy-negated-governor" in QUIRKS:
            g = negated_governors(e)
            rows = [r for r in rows if "run" not in r or g <= RUN_GOVERNORS.get(r["run"], set())]
        return sorted({tuple(r[k] for k in keycols) for r in rows if o_eval(e, r) is True}, key=_sk)
    finally:
        QUIRKS = frozenset()


def explain(e, rows, keycols, got, api):
    """smallest set of known deviations under which the documented evaluator reproduces `got` ('unexplained' if none)"""
    import itertools
    cand = [q for q in ALL_QUIRKS if api == "legacy" or not q.startswith("legacy")]
    for n in range(1, len(cand) + 1):
        for qs in itertools.combinations(cand, n):
            try:
                if expected(e, rows, keycols, qs) == got:
                    return "+".join(qs)
            except Exception:  # noqa: BLE001
                continue
    return "unexplained"


class TooBig(Exception):
    pass


def cnf_shape(e):
    """sizes of the OR-groups of Predicate.operands for this expression (Predicate keeps conjunctive normal form, so
    logical_not / logical_or multiply out); raises TooBig beyond what the implementation evaluates in reasonable time"""
    k = e[0]
    if k == "and":
        out = cnf_shape(e[1]) + cnf_shape(e[2])
    elif k == "or":
        a, b = cnf_shape(e[1]), cnf_shape(e[2])
        if len(a) * len(b) > 200:
            raise TooBig
        out = [x + y for x in a for y in b]
    elif k == "not":
        a = cnf_shape(e[1])
        n = 1
        for x in a:
            n *= max(x, 1)
            if n > 200:
                raise TooBig
        out = [len(a)] * n
    elif k == "in":
        out = [1] * len(e[2]) if e[3] else [len(e[2])]
    elif k == "tin":
        out = [1, 1] if e[4] else [2]
    else:
        out = [1]
    if len(out) > 200 or sum(out) > 1500:
        raise TooBig
    return out


def with_instrument(r, e, scope):
    """governor constraint + expression.  The dataset scopes (and sometimes the others) also get NEGATED governor
    constraints (NOT (instrument = v), NOT IN, !=, literal or bind, alone or under NOT (.. OR ..)): the constraint summary
    that prunes the collections of a dataset search must not read them as positive constraints"""
    m = r.random()
    I = ["col", "instrument", r.choice(SPELL["instrument"][:1])]
    two = scope in ("detector", "visit", "flat", "vimg")          # candidate sets with rows of both instruments
    pneg = 0.6 if scope in ("flat", "vimg") else 0.12
    if two and m < pneg:
        v = r.choice(["Cam", "Oth", "Oth", "Zzz"])
        lit = ["lit", ["str", v]] if r.random() < 0.7 else ["bind", f"g{r.randrange(1000)}", ["str", v], r.random() < 0.7]
        q = r.randrange(6)
        if q == 0:
            pre = ["not", ["cmp", "=", I, lit]]
        elif q == 1:
            pre = ["in", I, [lit], True]
        elif q == 2:
            pre = ["cmp", "!=", I, lit]
        elif q == 3:
            return ["not", ["or", ["cmp", "=", I, lit], e]], True       # NOT (instrument = v OR e)
        elif q == 4:
            pre = ["not", ["cmp", "=", lit, I]]
        else:
            pre = ["in", I, [["lit", ["str", v]], ["lit", ["str", "Zzz"]]], True]
        return (pre, True) if r.random() < 0.25 else (["and", pre, e], True)
    if two and m < pneg + 0.1:
        pre, legacy_ok = ["cmp", "=", I, ["lit", ["str", "Oth"]]], True
    elif m > 0.9 and scope in ("detector", "visit", "exposure", "flat", "vimg"):
        pre = ["in", I, [["lit", ["str", "Cam"]], ["lit", ["str", "Oth"]]], False]
        legacy_ok = True
    else:
        pre, legacy_ok = ["cmp", "=", I, ["lit", ["str", "Cam"]]], True
    return ["and", pre, e], legacy_ok


# fixed cases: every construct the property names at least once, the repaired defect, the known findings in isolation
def fixed_cases():
    D = lambda: ["col", "detector", "detector"]
    out = []

    def add(scope, e, name, wt=True):
        out.append({"scope": scope, "expr": ["and", ["cmp", "=", ["col", "instrument", "instrument"], ["lit", ["str", "Cam"]]], e],
                    "name": name, "wt": wt, "legacy": True})
    # repaired by d6d8862 (negative member of a strided range)
    add("detector", ["in", ["arith", "-", D(), ["lit", ["int", 10]]], [["range", -3, 3, 2]], False], "stride-negative-member")
    add("detector", ["in", ["neg", D()], [["range", -7, -1, 3]], False], "stride-negated-member")
    add("detector", ["in", ["arith", "-", D(), ["lit", ["int", 20]]], [["range", -9, 9, 4], ["range", -2, -2, 3]], True], "stride-negative-not-in")
    add("visit", ["in", ["col", "visit.seq_num", "visit.seq_num"], [["range", -1, 1, 2]], False], "stride-negative-column")
    add("detector", ["cmp", "=", ["arith", "/", D(), ["lit", ["int", 2]]], ["lit", ["int", 1]]], "true-division")
    add("detector", ["cmp", "=", ["arith", "%", ["arith", "-", D(), ["lit", ["int", 5]]], ["lit", ["int", 3]]], ["lit", ["int", -1]]], "truncated-mod")
    add("detector", ["not", ["cmp", "=", ["arith", "/", D(), ["lit", ["int", 0]]], ["lit", ["int", 1]]]], "division-by-zero-is-null")
    add("detector", ["in", ["col", "detector.raft", "detector.raft"], [["lit", ["str", "R1"]], ["null"]], False], "in-with-null-item")
    add("detector", ["in", ["col", "detector.raft", "detector.raft"], [["lit", ["str", "R1"]]], True], "not-in-null-member")
    add("detector", ["in", D(), [["range", 5, 4, None]], False], "empty-range")
    add("exposure", ["cmp", "=", ["col", "exposure.can_see_sky", "exposure.can_see_sky"], ["null"]], "bool-is-null")
    add("exposure", ["or", ["not", ["col", "exposure.can_see_sky", "exposure.can_see_sky"]], ["col", "exposure.has_simulated", "exposure.has_simulated"]], "bool-columns")
    add("visit", ["overlaps", ["col", "visit.timespan", "visit.timespan"], ["lit", ["span", T0 + 100, T0 + 300]]], "overlaps-span")
    add("visit", ["overlaps", ["lit", ["time", T0 + 110]], ["col", "visit.timespan", "visit.timespan"]], "overlaps-instant")
    add("visit", ["cmp", "=", ["col", "visit.timespan", "visit.timespan"], ["null"]], "span-is-null")
    add("visit", ["not", ["cmp", "<", ["begin", ["col", "visit.timespan", "visit.timespan"]], ["lit", ["time", T0 + 300]]]], "not-null-comparison")
    add("visit_detector", ["cmp", "=", ["arith", "*", ["col", "visit", "visit"], ["lit", ["int", 3]]], D()], "two-dimension-arithmetic")
    # range bounds around zero: the visitor receives the EXCLUSIVE stop (upper bound -1 -> stop 0); seeded change C05b
    S = lambda: ["col", "visit.seq_num", "visit.seq_num"]
    Dm = lambda k: ["arith", "-", D(), ["lit", ["int", k]]]
    add("detector", ["in", Dm(6), [["range", -3, -1, None]], False], "range-upper-minus-one")
    add("detector", ["in", Dm(6), [["range", -3, -1, None]], True], "range-upper-minus-one-not-in")
    add("detector", ["in", Dm(6), [["range", -5, -1, 2]], False], "range-upper-minus-one-stride")
    add("detector", ["in", Dm(6), [["range", -3, 0, None]], False], "range-upper-zero")
    add("detector", ["in", Dm(6), [["range", -3, 1, 3]], False], "range-upper-one")
    add("detector", ["in", Dm(3), [["range", -1, -1, None]], False], "range-degenerate-minus-one")
    add("detector", ["in", Dm(3), [["range", 0, -1, None]], False], "range-empty-zero-minus-one")
    add("detector", ["in", Dm(3), [["range", -1, 2, 2]], True], "range-lower-minus-one")
    add("detector", ["in", Dm(3), [["range", 0, 2, None], ["range", -2, -1, None]], False], "range-lower-zero")
    add("visit", ["in", S(), [["range", -2, -1, None]], False], "range-upper-minus-one-column")
    add("visit", ["in", ["neg", S()], [["range", -2, -1, None], ["range", 0, 0, None]], True], "range-upper-minus-one-negated-member")
    add("visit", ["in", ["arith", "-", ["col", "visit", "visit"], ["lit", ["int", 6]]], [["range", -3, -1, None]], False], "range-visit-minus-six")
    # known findings, in isolation
    add("detector", ["in", ["arith", "/", D(), ["lit", ["int", 2]]], [["range", 1, 2, None]], False], "quot-range")
    add("visit", ["tin", ["begin", ["col", "visit.timespan", "visit.timespan"]], ["lit", ["time", T0 + 100]], ["lit", ["time", T0 + 300]], False], "time-in")
    # negated governor constraints in dataset searches over per-instrument RUNs (seeded change C05a)
    Ic = ["col", "instrument", "instrument"]

    def raw(scope, e, name):
        out.append({"scope": scope, "expr": e, "name": name, "wt": True, "legacy": True})
    raw("flat", ["not", ["cmp", "=", Ic, ["lit", ["str", "Cam"]]]], "not-governor-eq")
    raw("flat", ["in", Ic, [["lit", ["str", "Cam"]]], True], "governor-not-in")
    raw("flat", ["cmp", "!=", Ic, ["lit", ["str", "Cam"]]], "governor-ne")
    raw("flat", ["not", ["or", ["cmp", "=", Ic, ["lit", ["str", "Cam"]]], ["cmp", "=", D(), ["lit", ["int", 2]]]]], "not-governor-or")
    raw("flat", ["and", ["not", ["cmp", "=", Ic, ["bind", "inst", ["str", "Oth"], False]]], ["cmp", ">", D(), ["lit", ["int", 0]]]], "not-governor-bind")
    raw("vimg", ["and", ["not", ["cmp", "=", Ic, ["lit", ["str", "Oth"]]]], ["cmp", "<", ["col", "visit.seq_num", "visit.seq_num"], ["lit", ["int", 1]]]], "not-governor-vimg")
    raw("vimg", ["not", ["cmp", "!=", Ic, ["lit", ["str", "Oth"]]]], "not-governor-ne")
    # ill-typed: must be rejected cleanly, and the model must agree on that
    add("detector", ["cmp", "=", D(), ["lit", ["real", 5, 2]]], "int-vs-float", wt=False)
    add("detector", ["in", D(), [["range", 5, 3, None]], False], "inverted-range", wt=False)
    add("detector", ["in", Dm(3), [["range", 1, -1, None]], False], "inverted-range-minus-one", wt=False)
    add("visit", ["in", ["col", "visit.exposure_time", "visit.exposure_time"], [["range", 0, 8, None]], False], "range-on-float", wt=False)
    add("exposure", ["cmp", "=", ["col", "exposure.can_see_sky", "exposure.can_see_sky"], ["col", "exposure.has_simulated", "exposure.has_simulated"]], "bool-equals-bool", wt=False)
    return out


ILL = [  # (scope, expr) deliberately ill-typed variants generated on top of a well-typed leaf
]


def make_cases(ctx, tables, n_expr):
    r = ctx.rng
    cases = fixed_cases()
    scopes = ["detector"] * 4 + ["visit"] * 4 + ["exposure"] * 3 + ["visit_detector"] * 2 + ["flat"] * 3 + ["vimg"] * 2
    while len(cases) < n_expr:
        scope = r.choice(scopes)
        g = Gen(r, scope, tables)
        e = g.boolean(r.choice([0, 1, 1, 2, 2, 3]))
        try:
            cnf_shape(e)
        except TooBig:
            # NOT over nested OR/IN multiplies the conjunctive normal form out: the implementation then needs minutes and
            # gigabytes (observed; not a statement about the rows returned), so such expressions are not generated
            continue
        full, legacy_ok = with_instrument(r, e, scope)
        try:
            cnf_shape(full)          # the governor prefix may put the whole expression under a NOT
        except TooBig:
            continue
        cases.append({"scope": scope, "expr": full, "name": "gen", "wt": True, "legacy": legacy_ok})
    # ill-typed mutants (type confusion the validators must refuse)
    for _ in range(max(6, n_expr // 15)):
        scope = r.choice(["detector", "visit", "exposure"])
        g = Gen(r, scope, tables)
        ints, strs = g.cols("int"), g.cols("str")
        m = r.randrange(5)
        if m == 0:
            e = ["cmp", r.choice(["=", "<"]), g.col(r.choice(ints)), ["lit", g.vlit("str")]]
        elif m == 1:
            e = ["cmp", "=", ["arith", "+", g.col(r.choice(ints)), ["lit", ["real", 1, 2]]], ["lit", ["int", 1]]]
        elif m == 2:
            e = ["in", g.col(r.choice(strs)), [["range", 1, 5, None]], False]
        elif m == 3:
            e = ["cmp", "<", g.col(r.choice(strs)), ["null"]]
        else:
            e = ["not", ["cmp", "=", ["neg", g.col(r.choice(strs))], ["lit", ["str", "a"]]]]
        full, legacy_ok = with_instrument(r, e, scope)
        cases.append({"scope": scope, "expr": full, "name": "ill", "wt": False, "legacy": True})
    return cases


# ------------------------------------------------------------------------------------------------------------
# run
# ------------------------------------------------------------------------------------------------------------
HDR = ("From Coq Require Import ZArith List String.\nFrom V Require Import Base.Tri Model.Expr Model.SqlExpr Model.ExprCheck "
       "Model.ExprLegacy Model.ExprLegacyCheck.\n"
       "Import ListNotations.\nOpen Scope string_scope.\n")


def expand(cases):
    """one implementation query per (case, target, api)"""
    qs = []
    for ci, c in enumerate(cases):
        binds = {}
        where = render(c["expr"], binds)
        c["where"], c["bind"] = where, binds
        for target, keycols in SCOPES[c["scope"]][1]:
            for api in ("new", "legacy"):
                if api == "legacy" and not c.get("legacy", True):
                    continue
                qs.append({"ci": ci, "target": target, "api": api, "where": where, "bind": binds, "keycols": keycols})
    return qs


def run(ctx: Ctx):
    frag = VERIF / "known_findings.d" / "C05.json"
    if frag.exists():
        # the fragment is this property's source of truth (known_findings.json is assembled from the fragments and may lag)
        mine = [k for k in json.loads(frag.read_text()) if k.get("property") == "C05"]
        ids = {k["id"] for k in mine}
        ctx.known = [k for k in ctx.known if k["id"] not in ids] + mine
    ctx.assumptions += [
        "SQLite's expression semantics (NULL propagation, Kleene AND/OR/NOT, BETWEEN, IN, CAST-to-integer truncated %, "
        "NULL for a zero divisor, BINARY string collation) are modelled in Model/SqlExpr.v seval and compared with the real "
        "engine on every case of every run; PostgreSQL is not modelled",
        "real numbers are exact rationals in the model; the generator keeps double arithmetic exact or far from a rounding "
        "boundary (binary-fraction column values, at most one division per operand, never under a product)",
        "identifier resolution (interpret_identifier) and bind substitution happen in the harness: the model sees resolved "
        "columns; the oracle resolves identifiers independently by documented name",
        "joins that build the candidate set are C06's subject: the harness joins the dumped tables itself",
        "Gen/TimespanGen.v (C11 translator) supplies the SQL form of timespan overlaps/contains used by seval",
        "legacy path: lsst.daf.relation (outside /repo) renders the Predicate tree to SQL; its rendering is modelled in "
        "Model/ExprLegacy.v lsql and compared on every legacy query of every run; only refused/accepted is compared for "
        "refusals, not the error class; unary plus is not representable in the model's expression type and such cases are "
        "not sent to the legacy model",
    ]
    ctx.cov["rule"] = (
        "a case = one generated where-expression (boolean structure depth 0-3 over comparisons, arithmetic with negative "
        "values, IN lists / ranges / strides / bound containers / NULL items, NULL tests, bind values, time literals, timespan "
        "overlap, boolean columns) x one target (data IDs / dimension records / datasets; 6 candidate sets incl. a "
        "two-dimension join with projection). Non-trivial: the implementation accepted it and it keeps at least one row and "
        "rejects at least one row of the candidate set"
    )
    from harness.translators import timespan as ttr
    ctx.regen("timespan", ttr.translate)
    from harness.translators import predicate as ptr
    ctx.regen("predicate", ptr.translate)
    from harness.translators import expr_range as rtr
    ctx.regen("range", rtr.translate)       # Gen/RangeGen.v <- SqlColumnVisitor.visit_in_range
    props_ok = ctx.build_props(extra_targets=["Model/ExprCheck.vo", "Model/ExprLegacyCheck.vo"])
    if not props_ok:
        from harness.common import coq_make
        coq_make(["Model/ExprCheck.vo", "Model/ExprLegacyCheck.vo"])

    n_expr = 275 if ctx.quick else 2400
    ok = run_batch(ctx, n_expr)
    if (ctx.broken and not ctx.oracle_failures) and ctx.quick:
        # something no longer checks but the oracle held: search deeper on the implementation
        ctx.log("tie/obligation broken without an oracle failure: thorough-size search")
        run_batch(ctx, 900, tag="search")
        ctx.cov["search"] = "thorough-size generation (900 further expressions, all targets, both interfaces): oracle held on every one"


def run_batch(ctx: Ctx, n_expr, tag="gen"):
    from harness.impl import c05_impl as I
    # table contents: one worker call with no cases
    st, res = parallel_workers("c05_impl", "run_cases", [{"cases": []}], timeout=300)[0]
    if st != "ok":
        ctx.tie_broken("harness", "fixture", f"could not build/dump the fixture repository: {st} {str(res)[:500]}")
        return False
    tables = build_tables(res["tables"], res["datasets"])
    if tag == "gen":
        for k, v in tables.items():
            ctx.hist("candidate_rows", k, len(v))
    cases = []
    if tag == "gen":
        for f in sorted((VERIF / "corpus" / "C05").glob("*.json")):
            for c in json.loads(f.read_text())["cases"]:
                cases.append(dict(c, name="corpus:" + c.get("name", f.stem)))
        if ctx.replay_obj and ctx.replay_obj.get("case"):
            cases = [dict(ctx.replay_obj["case"], name="replay")] + cases
    ncorp = len(cases)
    cases += make_cases(ctx, tables, n_expr)
    qs = expand(cases)
    chunk = 400
    payloads = [{"cases": qs[i:i + chunk], "want_datasets": False} for i in range(0, len(qs), chunk)]
    outs = parallel_workers("c05_impl", "run_cases", payloads, timeout=900)
    results = []
    for (st, res), pl in zip(outs, payloads):
        if st != "ok":
            ctx.tie_broken("harness", "worker", f"{st}: {str(res)[:600]}")
            results += [{"err": "Worker", "msg": st}] * len(pl["cases"])
        else:
            results += res["results"]
    ctx.log(f"{tag}: {len(cases)} expressions ({ncorp} corpus), {len(qs)} implementation queries")

    coq_cases, coq_meta = [], []
    leg_cases, leg_meta = [], []
    sum_cases, sum_meta = [], []
    DIMCOL = {"instrument": 0, "detector": 1, "visit": 10, "physical_filter": 12, "band": 13, "day_obs": 14, "exposure": 30, "group": 42}
    for q, res in zip(qs, results):
        c = cases[q["ci"]]
        rows = tables[c["scope"]]
        ctx.count()
        kind, api = q["target"].split(":")[0], q["api"]
        ctx.hist("target", f"{api}:{q['target']}")
        feat = "-"
        replay = {"case": {"scope": c["scope"], "expr": c["expr"], "wt": c["wt"], "legacy": c.get("legacy", True)},
                  "where": q["where"], "bind": q["bind"], "target": q["target"], "api": api}
        # oracle expectation
        try:
            exp_keys = expected(c["expr"], rows, q["keycols"])
            o_wt = True
        except (IllTyped, TypeError):
            exp_keys, o_wt = None, False
        if c["wt"] and not o_wt:
            ctx.tie_broken("harness", "generator", f"generator/oracle disagree on typing of {q['where']}")
        if "err" in res:
            ctx.hist("outcome", f"{api}:{res['err']}")
            if res["err"] in ("Worker", "Harness"):
                ctx.tie_broken("harness", "case", res.get("msg", "")[:300])
                continue
            if api == "new":
                if res["err"] != "InvalidQuery":
                    ctx.oracle_fail(f"new:{kind}:internal-error:{res['err']}:{feat}", dict(replay, got=res),
                                    f"where-expression raised {res['err']} instead of returning rows or InvalidQueryError: {q['where']}")
                elif o_wt and c["wt"]:
                    ctx.oracle_fail(f"new:{kind}:rejected-well-typed:{feat}", dict(replay, got=res),
                                    f"well-typed expression rejected: {q['where']} ({res.get('msg', '')[:120]})")
                coq_cases.append(f"(({_tname(c['scope'])}, {clist(str(COLS[k][0]) + '%N' for k in q['keycols'])}, {cexpr(c['expr'])}, None) : case)")
                coq_meta.append(replay)
            # legacy: "whenever they accept an expression" - a rejection is not judged by the oracle (C14); the model of the
            # legacy path (Model/ExprLegacy.v) must refuse exactly these
            if api == "legacy":
                if _legacy_modelled(c["expr"]):
                    leg_cases.append(f"(({_tname(c['scope'])}, {clist(str(COLS[k][0]) + '%N' for k in q['keycols'])}, {cexpr(c['expr'])}, None) : case)")
                    leg_meta.append(dict(replay, got=res))
                else:
                    ctx.hist("outcome", "legacy:not-modelled(unary plus)")
            continue
        got = sorted({tuple(r) for r in res["rows"]}, key=_sk)
        ctx.hist("outcome", f"{api}:rows")
        if res.get("dups") and api == "legacy":
            ctx.hist("outcome", "legacy:duplicate-rows-ignored")   # legacy results are not de-duplicated after a projection (set semantics judged)
        if res.get("dups") and api == "new":
            ctx.oracle_fail(f"{api}:{kind}:duplicate-rows:{feat}", dict(replay, got=res), "duplicate rows returned")
        if o_wt:
            if 0 < len(exp_keys) and len({tuple(r[k] for k in q["keycols"]) for r in rows}) > len(exp_keys):
                ctx.nontrivial({"where": q["where"], "target": q["target"], "api": api, "bind": q["bind"]})
            if got != exp_keys:
                gs, es = set(got), set(exp_keys)
                feat = explain(c["expr"], rows, q["keycols"], got, api)
                ctx.hist("deviation", f"{api}:{feat}")
                ctx.oracle_fail(f"{api}:{kind}:wrong-rows:{feat}",
                                dict(replay, got=got[:60], expected=exp_keys[:60], extra=sorted(gs - es, key=_sk)[:10], missing=sorted(es - gs, key=_sk)[:10]),
                                f"{api} {q['target']} where={q['where']!r}: returned rows differ from the rows on which the expression is true "
                                f"(extra {sorted(gs - es, key=_sk)[:5]}, missing {sorted(es - gs, key=_sk)[:5]})")
        elif api == "new" and not c["wt"]:
            # ill-typed but accepted: nothing the property states; the model must still agree on acceptance + rows
            ctx.hist("outcome", "new:ill-typed-accepted")
        if api == "new" and "cdi_err" in res:
            ctx.tie_broken("correspondence", "constraint-summary", f"{q['where']}: {res['cdi_err']}")
        if api == "new" and "cdi" in res:
            if all(k in DIMCOL for k, _ in res["cdi"]):
                obs = clist(f"({DIMCOL[k]}%N, {cval_py(v)})" for k, v in res["cdi"])
                sum_cases.append(f"(({cexpr(c['expr'])}, {obs}) : expr * list (col * value))")
                sum_meta.append(dict(replay, constraint_data_id=res["cdi"]))
                ctx.hist("constraint_keys", len(res["cdi"]))
            else:
                ctx.tie_broken("correspondence", "constraint-summary", f"unknown key in constraint_data_id {res['cdi']} for {q['where']}")
        if api == "legacy":
            if _legacy_modelled(c["expr"]):
                keys = clist(ckey(k) for k in got)
                leg_cases.append(f"(({_tname(c['scope'])}, {clist(str(COLS[k][0]) + '%N' for k in q['keycols'])}, {cexpr(c['expr'])}, Some {keys}) : case)")
                leg_meta.append(dict(replay, got=got[:60]))
            else:
                ctx.hist("outcome", "legacy:not-modelled(unary plus)")
        if api == "new":
            keys = clist(ckey(k) for k in got)
            coq_cases.append(f"(({_tname(c['scope'])}, {clist(str(COLS[k][0]) + '%N' for k in q['keycols'])}, {cexpr(c['expr'])}, Some {keys}) : case)")
            coq_meta.append(replay)
        if len(ctx.cov["samples"]) < 6 and c["name"] == "gen" and api == "new" and o_wt and 0 < len(got) < 12:
            ctx.sample({"where": q["where"], "bind": q["bind"], "target": q["target"], "rows": got, "coq": cexpr(c["expr"])})
    for c in cases:
        for n in _walk(c["expr"]):
            if n and isinstance(n[0], str):
                ctx.hist("construct", n[0] + (":" + n[1] if n[0] in ("arith", "cmp") else ""))

    # the candidate tables are compiled once per run; every shard of cases imports them
    from harness.common import COQ, sh
    tdir = COQ / "Cases" / "C05"
    tdir.mkdir(parents=True, exist_ok=True)
    rungov = {}
    for scope in ("flat", "vimg"):
        for r in tables[scope]:
            rungov.setdefault(r["run"], set()).add(r["instrument"])
    if tag == "gen" and {k: set(v) for k, v in RUN_GOVERNORS.items()} != rungov:
        ctx.tie_broken("harness", "fixture", f"RUN governors of the fixture {rungov} differ from the table the oracle's explanation uses")
    runs_v = clist(f"({cstr(r)}, {clist('VStr ' + cstr(g) for g in sorted(gs))})" for r, gs in sorted(rungov.items()))
    (tdir / "Tables.v").write_text(HDR + "".join(f"Definition {_tname(s)} : list row := {clist(crow(r) for r in rows)}.\n" for s, rows in tables.items())
                                   + f"Definition T_runs : list (string * list value) := {runs_v}.\n")
    rc, out = sh(["timeout", "300", "coqc", "-Q", str(COQ), "V", "-w", "-notation-overridden,-deprecated", str(tdir / "Tables.v")], cwd=tdir, timeout=320)
    if rc != 0:
        ctx.tie_broken("correspondence", "tables", out[-600:])
        return False
    hdr = HDR + "From V Require Import Cases.C05.Tables.\n"
    bad_all = ctx.coq_cases(f"{tag}_both", hdr, coq_cases, "chk_both", shard=250, timeout=900)
    if bad_all:
        sub = [coq_cases[i] for i in bad_all[:40]]
        bad_model = ctx.coq_cases(f"{tag}_model", hdr, sub, "chk_case", shard=250, timeout=900) or []
        ctx.cov["programs"] -= len(sub)
    for name, chk, idxs in ((f"{tag}_model", "chk_case", [bad_all[j] for j in bad_model] if bad_all else []),
                            (f"{tag}_doc", "chk_doc", [i for j, i in enumerate(bad_all[:40]) if j not in bad_model] if bad_all else [])):
        for i in idxs[:5]:
            m = coq_meta[i]
            ctx.disagreement(name, {"where": m["where"], "bind": m["bind"], "target": m["target"], "coq": coq_cases[i][:300]},
                             "model (conv -> Predicate -> SQL) and implementation return different rows" if chk == "chk_case"
                             else "SQL path and documented meaning differ on an expression Coq types as well-typed")
    # legacy interfaces against the model of the legacy path (accept/refuse + rows incl. governor pruning), and the
    # hypotheses of legacy_agrees re-evaluated on the concrete case
    bad_leg = ctx.coq_cases(f"{tag}_legacy", hdr, leg_cases, "chk_legacy_both T_runs", shard=250, timeout=900)
    if bad_leg:
        sub = [leg_cases[i] for i in bad_leg[:40]]
        bad_lm = ctx.coq_cases(f"{tag}_legacy_model", hdr, sub, "chk_legacy T_runs", shard=250, timeout=900) or []
        ctx.cov["programs"] -= len(sub)
        for j, i in enumerate(bad_leg[:8]):
            m = leg_meta[i]
            ctx.disagreement(f"{tag}_legacy_model" if j in bad_lm else f"{tag}_legacy_doc",
                             {"where": m["where"], "bind": m["bind"], "target": m["target"], "got": m.get("got"), "coq": leg_cases[i][-400:]},
                             "model of the legacy path (normal form + CheckVisitor + PredicateConversionVisitor + daf_relation SQL) and "
                             "the legacy interface differ (accepted/refused or rows)" if j in bad_lm
                             else "legacy SQL and documented meaning differ on a case inside the fragment of legacy_agrees")
    bad_sum = ctx.coq_cases(f"{tag}_summary", hdr, sum_cases, "chk_summary", shard=400, timeout=900)
    for i in (bad_sum or [])[:5]:
        m = sum_meta[i]
        ctx.disagreement(f"{tag}_summary", {"where": m["where"], "bind": m["bind"], "target": m["target"],
                                            "constraint_data_id": m["constraint_data_id"]},
                         "PredicateConstraintsSummary.constraint_data_id differs from the model's summary of the same predicate")
    return True


def _legacy_modelled(e):
    """unary plus is transparent in the model's expression type but not on the legacy path (it yields an untyped node)"""
    return not any(n[0] == "pos" for n in _walk(e) if n and isinstance(n[0], str))


def _tname(scope):
    return "T_" + scope


def _sk(t):
    return tuple((0, "") if x is None else (1, str(x).zfill(12)) if isinstance(x, int) else (2, str(x)) for x in t)
