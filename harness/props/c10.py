"""C10 -- Removal is complete and precise, and existence reports tell the truth.

Obligations: coq/Props/C10.v (theorems over Model/Removal.v for every state / every history).
Tie K: random histories (puts with chosen ids incl. re-puts of unstored / purged ids, TWO-REF INGESTS of one file (shared
       artifacts), tagging, certification, chains, every pruneDatasets flag combination, removeRuns with and without unstore,
       registry.removeDatasets, the two halves of an unstore run separately (Datastore.trash with a list AND with a single
       ref), EXTERNAL deletion of artifacts, invalid arguments) on a real Butler
       (SQLite + POSIX file datastore) in worker subprocesses; after EVERY step the outcome class and, for EVERY
       dataset id of the universe and EVERY collection, Butler.exists (full_check on/off, plain ref and a ref carrying
       datastore records), _exists_many, stored, stored_many, get, get_dataset, getDatasetLocations, query_datasets,
       queryDatasets, queryDatasetAssociations, the root listing and the raw dataset / dataset_location(_trash) /
       file_datastore_records rows are recorded and compared with the Coq model (vm_compute) -- Model/RemovalCheck.v
       (15 fields per step, incl. _exists_many / stored_many over all ids in ONE call and query_datasets over every chain).
Known findings: known_findings.d/C10.json (the refused re-ingest that destroyed the stored artifact is FIXED in /repo 2da36a1: no
       attribution is left for it, corpus 10 is a regression case).  Attribution to K-C10-stale-trash-row is deliberately narrow (see `stale` /
       `victims` in check_history and design.d/C10.md); the bulk-existence defect is FIXED (245923d) and is reported as an
       ordinary violation if it returns.
Oracle (from the property text, independent of the Coq model): `check_history` below.  It never simulates the
       datastore: the truth about "registry knows / datastore knows / artifact present" is read from the raw tables and
       the root listing of the SAME step, and "nothing else changed" compares the per-dataset observation vector with
       the previous step's.
"""
from __future__ import annotations

import glob
import json
import os
import random
import re
import time

from harness.common import VERIF, Ctx, parallel_workers

NCOLL, NDS, NKEY = 8, 8, 6
HDR = ("From Coq Require Import NArith List.\nFrom V Require Import Model.Removal Model.RemovalCheck.\n"
       "Import ListNotations.\nOpen Scope N_scope.\n")
UNIV = "[" + ";".join(str(i) for i in range(NDS)) + "]"
ERRCODE = {"Ok": 0, "Err:Conflict": 2, "Err:MissingCollection": 3, "Err:CollectionTypeErr": 5, "Err:TypeError": 7,
           "Err:Orphaned": 8, "Err:SqlError": 9, "Err:Cycle": 10}
KINDN = {"RUN": "Run", "TAGGED": "Tagged", "CHAIN": "Chain", "CALIB": "Calib"}
KCODE = {"RUN": 1, "TAGGED": 2, "CHAIN": 3, "CALIB": 4}
FLAG = ("RECORDED", "DATASTORE", "_ARTIFACT")
NDATA = 3                      # data IDs per dataset type (harness/impl/c10_impl.py NDATA, Model/Removal.v `sib`)


def sib(k):
    return NDATA * (k // NDATA) + (k + 1) % NDATA


# =================================================================================================
# generator (a light abstract state only to make most operations meaningful; never used for verdicts)
# =================================================================================================
class Gen:
    def __init__(self):
        self.colls, self.chain, self.ds, self.stored, self.pending, self.tags = {}, {}, {}, set(), set(), set()
        self.dead: dict[int, tuple] = {}

    def note(self, op):
        k = op[0]
        if k == "RegColl" and op[1] not in self.colls:
            self.colls[op[1]] = op[2]
        elif k == "SetChain" and self.colls.get(op[1]) == "CHAIN" and all(c in self.colls for c in op[2]) and op[1] not in op[2]:
            self.chain[op[1]] = list(op[2])
        elif k == "Put":
            _, d, r, key = op
            if self.colls.get(r) == "RUN" and d not in self.stored and d not in self.pending:
                if d in self.ds:
                    if self.ds[d] == (r, key):
                        self.stored.add(d)
                elif (r, key) not in self.ds.values():
                    self.ds[d] = (r, key)
                    self.stored.add(d)
        elif k == "Tag" and self.colls.get(op[1]) == "TAGGED":
            for d in op[2]:
                if d in self.ds:
                    self.tags.add((op[1], d))
        elif k == "Prune":
            _, l, dis, uns, pur, tg = op
            if pur and not (dis and uns):
                return
            if not pur and dis and (not tg or any(self.colls.get(c) != "TAGGED" for c in tg)):
                return
            if uns:
                self.stored -= set(l)
                self.pending.clear()
            if pur:
                self._forget_ds(set(l))
        elif k == "RemoveRuns":
            rs = op[1]
            if len(set(rs)) != len(rs) or any(self.colls.get(r) != "RUN" for r in rs) or \
                    any(r in ch for r in rs for ch in self.chain.values()):
                return
            gone = {d for d, (r, _) in self.ds.items() if r in rs}
            self.stored -= gone
            if op[2]:
                self.pending.clear()
            self._forget_ds(gone)
            for r in rs:
                del self.colls[r]
        elif k == "Xfer":
            _, d, r, key = op
            if self.colls.get(r, "RUN") != "RUN":
                return
            if d in self.ds:
                if self.ds[d] != (r, key):
                    return
            elif (r, key) in self.ds.values():
                return
            self.colls[r] = "RUN"
            self.ds[d] = (r, key)
            if d not in self.pending:
                self.stored.add(d)
        elif k in ("Trash", "Trash1"):
            mv = (set(op[1]) if k == "Trash" else {op[1]}) & self.stored
            self.stored -= mv
            self.pending |= mv
        elif k == "Ingest":
            _, d1, d2, r, key = op
            if self.colls.get(r) != "RUN" or d1 == d2 or ({d1, d2} & (self.stored | self.pending)):
                return
            for d, kk in ((d1, key), (d2, sib(key))):
                if d in self.ds:
                    if self.ds[d] != (r, kk):
                        return
                elif (r, kk) in self.ds.values():
                    return
            self.ds[d1], self.ds[d2] = (r, key), (r, sib(key))
            self.stored |= {d1, d2}
        elif k == "EmptyTrash":
            self.pending.clear()
        elif k == "RegRemove":
            if not (set(op[1]) & self.stored):
                self._forget_ds(set(op[1]))

    def _forget_ds(self, gone):
        for d in gone:
            if d in self.ds:
                self.dead[d] = self.ds.pop(d)
        self.tags = {(c, d) for c, d in self.tags if d not in gone}


def gen_history(rng: random.Random, length: int):
    g = Gen()
    hist = []
    prefix = [["RegColl", 0, "RUN"], ["RegColl", 1, "RUN"], ["RegColl", 2, "TAGGED"], ["RegColl", 3, "TAGGED"],
              ["RegColl", 4, "CALIB"], ["RegColl", 5, "CHAIN"]]
    rng.shuffle(prefix)
    npre = rng.choice([4, 5, 6, 6, 6])

    def of_kind(kind, bad=0.1):
        good = [c for c, k in g.colls.items() if k == kind]
        if good and rng.random() > bad:
            return rng.choice(good)
        return rng.randrange(NCOLL)

    def some_ds(n, live=0.8):
        out = []
        for _ in range(n):
            if g.ds and rng.random() < live:
                out.append(rng.choice(sorted(g.ds)))
            else:
                out.append(rng.randrange(NDS))
        return out

    while len(hist) < length:
        x = rng.random()
        if len(hist) < npre:
            op = prefix[len(hist)]
        elif x < 0.03:
            c = rng.randrange(NCOLL)
            op = ["RegColl", c, rng.choice(["RUN", "RUN", "TAGGED", "CALIB", "CHAIN"])]
        elif x < 0.07:
            c = of_kind("CHAIN")
            kids = [k for k, kd in g.colls.items() if kd != "CHAIN"]
            ch = rng.sample(kids, min(len(kids), rng.choice([0, 1, 2, 2, 3]))) if kids else []
            if rng.random() < 0.07:
                ch.append(rng.randrange(NCOLL))
            op = ["SetChain", c, ch]
        elif x < 0.095:
            # transfer_from a second repository: mostly an id the registry still has (restores an unstored dataset, skipped for a
            # stored one) or a free id; sometimes into a run that does not exist yet (transfer_from registers it)
            if g.ds and rng.random() < 0.5:
                d = rng.choice(sorted(g.ds))
                r, key = g.ds[d]
                if rng.random() < 0.12:
                    key = rng.randrange(NKEY)
            else:
                free = [i for i in range(NDS) if i not in g.ds]
                d = rng.choice(free) if free and rng.random() < 0.9 else rng.randrange(NDS)
                r, key = of_kind("RUN", bad=0.2), rng.randrange(NKEY)
            op = ["Xfer", d, r, key]
        elif x < 0.29 or (len(g.ds) < 2 and x < 0.55):
            y = rng.random()
            if y < 0.2 and g.ds:                          # re-put of an existing id (restores an unstored one / conflicts)
                d = rng.choice(sorted(g.ds))
                r, key = g.ds[d]
                if rng.random() < 0.2:
                    key = rng.randrange(NKEY)
                if rng.random() < 0.1:
                    r = of_kind("RUN")
            elif y < 0.3 and g.dead:                      # an id that existed before and was purged
                d = rng.choice(sorted(g.dead))
                r, key = g.dead[d]
                if rng.random() < 0.5:
                    r, key = of_kind("RUN"), rng.randrange(NKEY)
            else:
                free = [i for i in range(NDS) if i not in g.ds]
                d = rng.choice(free) if free and rng.random() < 0.9 else rng.randrange(NDS)
                r, key = of_kind("RUN"), rng.randrange(NKEY)
            op = ["Put", d, r, key]
        elif x < 0.335:
            # one file ingested for two refs (a shared artifact); mostly two free ids and two free data IDs of one type,
            # sometimes an id the registry still has (re-ingest of an unstored dataset) or one the datastore holds (refused)
            r = of_kind("RUN", bad=0.05)
            keys = [kk for kk in range(NKEY) if (r, kk) not in g.ds.values() and (r, sib(kk)) not in g.ds.values()]
            key = rng.choice(keys) if keys and rng.random() < 0.9 else rng.randrange(NKEY)
            free = [i for i in range(NDS) if i not in g.ds]
            pair = rng.sample(free, 2) if len(free) >= 2 and rng.random() < 0.85 else [rng.randrange(NDS), rng.randrange(NDS)]
            y = rng.random()
            if y < 0.2 and g.ds:
                d = rng.choice(sorted(g.ds))
                if g.ds[d][0] == r or rng.random() < 0.7:
                    r, key = g.ds[d]
                pair[0] = d
                if pair[1] == d and free:
                    pair[1] = free[0]
            op = ["Ingest", pair[0], pair[1], r, key]
        elif x < 0.42:
            op = ["Tag", of_kind("TAGGED"), some_ds(rng.choice([1, 1, 2, 3]), live=0.93)]
        elif x < 0.455:
            b = rng.randrange(0, 8)
            op = ["Certify", of_kind("CALIB"), some_ds(1, live=0.95)[0], b, b + rng.randrange(1, 5)]
        elif x < 0.74:
            l = some_ds(rng.choice([0, 1, 1, 1, 2, 2, 3]))
            if l and rng.random() < 0.08:
                l.append(l[0])
            y = rng.random()
            if y < 0.32:
                flags = (1, 1, 1)                         # purge
            elif y < 0.57:
                flags = (0, 1, 0)                         # unstore only
            elif y < 0.78:
                flags = (1, 0, 0)                         # disassociate only
            elif y < 0.88:
                flags = (1, 1, 0)                         # disassociate + unstore
            elif y < 0.92:
                flags = (0, 0, 0)
            else:
                flags = rng.choice([(0, 1, 1), (1, 0, 1), (0, 0, 1)])   # invalid purge combinations
            tags = []
            if flags[0] and not flags[2] or rng.random() < 0.1:
                tags = [of_kind("TAGGED", bad=0.08) for _ in range(rng.choice([0, 1, 1, 1, 2]))]
                if g.tags and rng.random() < 0.75:
                    c, d = rng.choice(sorted(g.tags))
                    tags = [c]
                    if rng.random() < 0.8:
                        l = [d] + l[:1]
            op = ["Prune", l, flags[0], flags[1], flags[2], tags]
        elif x < 0.79:
            n = rng.choice([1, 1, 1, 2])
            rs = [of_kind("RUN", bad=0.12) for _ in range(n)]
            if n == 2 and rs[0] == rs[1] and rng.random() < 0.7:
                rs = rs[:1]
            op = ["RemoveRuns", rs, 1 if rng.random() < 0.75 else 0]
        elif x < 0.865:
            if g.ds and rng.random() < 0.85:
                r, key = g.ds[rng.choice(sorted(g.ds))]
            else:
                r, key = rng.randrange(NCOLL), rng.randrange(NKEY)
            op = ["ExtDelete", r, key]
        elif x < 0.895:
            op = ["Trash", some_ds(rng.choice([1, 1, 2]))]
        elif x < 0.92:
            op = ["Trash1", some_ds(1, live=0.9)[0]]
        elif x < 0.945:
            op = ["EmptyTrash"]
        else:
            op = ["RegRemove", some_ds(rng.choice([1, 1, 2]))]
        hist.append(op)
        g.note(op)
    return hist


# =================================================================================================
# oracle on one executed history (written from the property statement)
# =================================================================================================
def _vec(obs, d):
    """Everything the interfaces report about dataset d in one observation."""
    rec = [r for r in obs["raw_recs"] if r[0] == d]
    art = [[r[1], r[2]] in obs["files"] for r in rec]
    return {
        "exists": obs["exists"][d], "exists_fast": obs["exists_fast"][d], "many": obs["many"][d],
        "many_fast": obs["many_fast"][d], "stored": obs["stored"][d], "stored_many": obs["stored_many"][d],
        "locations": obs["locations"][d], "get_dataset": obs["get_dataset"][d], "readable": obs.get("readable", [None] * NDS)[d],
        "member_of": [r[0] for r in obs["qd"] if r[1] == d], "assoc": [r for r in obs["assoc"] if r[1] == d],
        "row": [r for r in obs["raw_ds"] if r[0] == d], "loc": d in obs["raw_loc"], "trash": d in obs["raw_trash"],
        "recs": rec, "artifact": art,
    }


def _snapshot(obs):
    return json.dumps({k: v for k, v in obs.items() if k != "probe_errors"}, sort_keys=True)


def _registry_view(obs):
    return json.dumps([obs["colls"], obs["chains"], obs["raw_ds"], obs["qd"], obs["assoc"], obs["get_dataset"]], sort_keys=True)


def _datastore_view(obs):
    return json.dumps([obs["raw_loc"], obs["raw_trash"], obs["raw_recs"], obs["files"], obs["stored"], obs["locations"]], sort_keys=True)


def prune_mode(op):
    _, l, dis, uns, pur, tg = op
    if pur:
        return "purge" if dis and uns else "invalid"
    return {(1, 1): "disassociate+unstore", (1, 0): "disassociate", (0, 1): "unstore", (0, 0): "noop"}[(int(bool(dis)), int(bool(uns)))]


def opkind(op):
    return "Prune:" + prune_mode(op) if op[0] == "Prune" else (f"RemoveRuns:{'unstore' if op[2] else 'forget'}" if op[0] == "RemoveRuns" else op[0])


def check_history(ctx: Ctx, hist, steps, origin):
    failed = False
    prev = None
    stale: set[int] = set()
    victims_prev: set[int] = set()
    victims: set[int] = set()       # datasets hit by the stale-trash-row defect; their later inconsistencies are its consequences
    orphans: set[int] = set()       # ids whose records a removeRuns(unstore=False) deleted while their location row was pending in the
    #                                 trash: the trash row is the stale row itself (no records, no location row) and no emptyTrash can
    #                                 ever remove it (the join needs records) -- until the id is stored again (then `stale` above)

    def fail(kind, i, what, extra=None, d=None):
        nonlocal failed
        n0 = len(ctx.oracle_failures)
        if d is not None and kind == "target-still-stored" and d in orphans and not (d in victims or d in victims_prev):
            kind = "stale-trash-row-orphan:" + kind
            what = (f"dataset {d}'s records were deleted by removeRuns(unstore=False) while its location row was pending in "
                    f"dataset_location_trash; that row can never be removed again: ") + what
        elif d is not None and (d in victims or d in victims_prev):
            kind = "stale-trash-row-victim:" + kind
            what = (f"dataset {d} had a stale row in dataset_location_trash while it was stored again and an emptyTrash "
                    f"deleted its records: ") + what
        ctx.oracle_fail(f"{kind}:{opkind(hist[i])}", {"history": hist[: i + 1], "step": i, "op": hist[i], "outcome": steps[i]["out"],
                                                      "origin": origin, "detail": extra}, what)
        if len(ctx.oracle_failures) > n0:
            failed = True           # a known finding does not end the examination of the history

    for i, (op, st) in enumerate(zip(hist, steps)):
        out, obs = st["out"], st["obs"]
        ok = out == "Ok"
        ctx.count()
        ctx.hist("ops", opkind(op))
        ctx.hist("outcomes", out)
        for k_, v in obs["probe_errors"].items():
            if not k_.startswith("getCollectionType:MissingCollection"):
                ctx.hist("probe_errors", k_, v)
        colls = {c: k for c, k in obs["colls"]}
        ids_reg = {r[0] for r in obs["raw_ds"]}
        pending = set(obs["raw_trash"])
        # the stale-trash-row situation (known finding): an id that was PENDING (trash row, no location row) gets a location
        # row again while its trash row is still there (`stale`); when that trash row then disappears an emptyTrash has
        # deleted the records of the re-stored dataset (`victims`).  An id that merely sits in both tables without having
        # been pending first (e.g. a trash() that copies instead of moving) is NOT attributed to the known finding.
        victims_prev = set(victims)
        if prev is not None:
            stale |= {d for d in obs["raw_trash"] if d in obs["raw_loc"] and d in prev["raw_trash"] and d not in prev["raw_loc"]}
            victims |= {d for d in stale if d in prev["raw_trash"] and d in prev["raw_loc"] and d not in obs["raw_trash"]}
        stale = {d for d in stale if d in obs["raw_trash"] and d in obs["raw_loc"]}
        victims = {d for d in victims if d in obs["raw_loc"]}
        has_recs = {r[0] for r in obs["raw_recs"]}
        if prev is not None and op[0] == "RemoveRuns" and not op[2] and ok:
            orphans |= {d for d in obs["raw_trash"] if d in prev["raw_trash"] and d not in prev["raw_loc"]
                        and any(r[0] == d for r in prev["raw_recs"]) and d not in has_recs}
        orphans = {d for d in orphans if d in obs["raw_trash"] and d not in obs["raw_loc"] and d not in has_recs}

        # ---- (1) existence reports tell the truth, for every dataset id, at every step
        for d in range(NDS):
            rec = [r for r in obs["raw_recs"] if r[0] == d]
            truth = [int(d in ids_reg), int(bool(rec)), int(bool(rec) and all([r[1], r[2]] in obs["files"] for r in rec))]
            ex, fast, many, mfast = obs["exists"][d], obs["exists_fast"][d], obs["many"][d], obs["many_fast"][d]
            for nm, got in (("exists", ex), ("_exists_many", many)):
                for f in range(3):
                    if d in pending and f > 0:
                        continue        # between trash and emptyTrash "the datastore knows it" is not decided by the text
                    if got[f] != truth[f]:
                        fail(f"flags:{nm}:{FLAG[f]}:{got[f]}-truth-{truth[f]}", i,
                             f"Butler.{nm} reports {FLAG[f]}={got[f]} for dataset {d} but the "
                             f"{'registry' if f == 0 else 'datastore'} says {truth[f]} (raw tables / root listing of the same step)",
                             {"dataset": d, "reported": got, "truth": truth}, d=d)
                if got[3] != 0:
                    fail(f"flags:{nm}:assumed-with-full-check", i, "_ASSUMED set although full_check=True")
            if d not in pending:
                if obs["locations"][d] != int(d in obs["raw_loc"]) or obs["locations"][d] != truth[1]:
                    fail("locations-vs-records", i, f"getDatasetLocations / dataset_location / datastore records disagree for dataset {d}",
                         {"getDatasetLocations": obs["locations"][d], "in dataset_location": d in obs["raw_loc"], "records": rec}, d=d)
                if obs["stored"][d] != truth[2] or obs["stored_many"][d] != truth[2]:
                    fail("stored-vs-artifact", i, f"Butler.stored / stored_many disagree with the presence of dataset {d}'s artifact",
                         {"stored": obs["stored"][d], "stored_many": obs["stored_many"][d], "truth": truth}, d=d)
                for nm, got in (("exists", fast), ("_exists_many", mfast)):
                    want = truth[:2] + [0, int(bool(truth[0] or truth[1]))]
                    if got != want:
                        fail(f"flags-fast:{nm}", i, f"Butler.{nm}(full_check=False) reports {got} for dataset {d}, expected {want}", d=d)
            if obs["get_dataset"][d] != truth[0]:
                fail("get_dataset-vs-registry", i, f"get_dataset disagrees with the dataset table for dataset {d}")
            if "readable" in obs and d not in pending:
                rd = obs["readable"][d]
                # (the second ref of a two-ref ingest has records naming the artifact of the FIRST ref; when that one is put again
                # the shared file is rewritten and the size recorded for the second ref no longer matches: get() refuses.  Whether
                # a put may rewrite a shared artifact is C09's subject; here readability is demanded of a dataset's own artifact)
                own = any([d] + r[1:] in obs.get("defs", [[d] + r[1:]]) for r in rec)
                if truth == [1, 1, 1] and rd != 1 and own:
                    fail("exists-but-unreadable", i, f"dataset {d} is reported RECORDED|DATASTORE|_ARTIFACT but get() {'returned another payload' if rd == 2 else 'failed'}")
                if truth[2] == 0 and rd != 0:
                    fail("readable-but-absent", i, f"dataset {d} has no artifact according to the reports but get() returned something")
        for row in obs["carried"]:
            d, got = row[0], row[1:]
            rec = [r for r in obs["raw_recs"] if r[0] == d]
            truth = [int(d in ids_reg), int(bool(rec)), int(bool(rec) and all([r[1], r[2]] in obs["files"] for r in rec))]
            if d in pending:
                continue
            for f in range(3):
                if got[f] != truth[f]:
                    fail(f"flags:exists-carried-ref:{FLAG[f]}:{got[f]}-truth-{truth[f]}", i,
                         f"Butler.exists(ref carrying datastore records) reports {FLAG[f]}={got[f]} for dataset {d} but the truth is {truth[f]}",
                         {"dataset": d, "reported": got, "truth": truth}, d=d)
        if obs["unknown_files"]:
            fail("unknown-file", i, "a file appeared in the datastore root that no put wrote", obs["unknown_files"][:4])

        # ---- (2) every interface reports the same collection contents; chains are the union of their children
        chain_ids = {c for c, k in colls.items() if k == 3}
        flat = sorted(r for r in obs["qd"] if r[0] not in chain_ids)
        if obs["qd_dups"]:
            fail("duplicate-rows", i, "query_datasets over a single non-chain collection returned a dataset twice")
        if "qleg" in obs and sorted(r for r in obs["qleg"] if r[0] not in chain_ids) != flat:
            fail("views-differ:queryDatasets", i, "Butler.query_datasets and registry.queryDatasets disagree")
        if sorted(map(list, {tuple(r[:2]) for r in obs["assoc"]})) != flat:
            fail("views-differ:associations", i, "Butler.query_datasets and queryDatasetAssociations disagree",
                 {"assoc": obs["assoc"], "query_datasets": flat})
        if any(r[1] not in ids_reg for r in obs["qd"]):
            fail("dangling-membership", i, "a collection lists a dataset the registry does not have")
        run_rows = sorted([r[1], r[0]] for r in flat if colls.get(r[0]) == 1)
        if run_rows != sorted(obs["raw_ds"]):
            fail("run-membership", i, "RUN contents differ from the dataset table")
        cdef = {c: kids for c, kids in obs["chains"]}

        def leaves(c, seen=()):
            out = set()
            for k_ in cdef.get(c, []):
                if k_ in cdef:
                    if k_ not in seen:
                        out |= leaves(k_, seen + (c,))
                else:
                    out.add(k_)
            return out
        for c, kids in obs["chains"]:
            lv = leaves(c)
            want = sorted({r[1] for r in flat if r[0] in lv})
            got = sorted({r[1] for r in obs["qd"] if r[0] == c})
            if want != got:
                fail("chain-view", i, f"query_datasets over chain {c} is not the union of its children", {"want": want, "got": got})

        # ---- (3) removal is complete and precise
        if prev is not None:
            pcolls = {c: k for c, k in prev["colls"]}
            if not ok:
                if _snapshot(prev) != _snapshot(obs):
                    diff = [k for k in obs if k != "probe_errors" and obs[k] != prev.get(k)]
                    # (a refused re-ingest that deletes the stored artifact -- fixed in /repo 2da36a1 -- is reported here like any other)
                    fail("refused-op-changed-state", i, f"{opkind(op)} was refused with {out} but an observable changed", diff,
                         d=op[1] if op[0] == "Put" and diff == ["files"] else None)
            k = op[0]
            targets = None
            mode = None
            if k == "Prune":
                mode = prune_mode(op)
                _, l, dis, uns, pur, tg = op
                valid = mode in ("purge", "unstore", "noop") or (mode.startswith("disassociate") and tg and all(pcolls.get(c) == 2 for c in tg))
                if mode == "invalid" and ok:
                    fail("invalid-op-accepted", i, "pruneDatasets accepted purge=True without disassociate / unstore")
                if mode.startswith("disassociate") and not valid and ok:
                    fail("invalid-op-accepted", i, "pruneDatasets(disassociate=True) accepted missing / non-TAGGED tags")
                if valid and not ok:
                    fail("valid-removal-refused", i, f"a valid pruneDatasets({mode}) was refused with {out}")
                if ok:
                    targets = set(l)
            elif k == "RemoveRuns":
                rs = op[1]
                in_chain = any(r in kids for r in rs for _, kids in prev["chains"])
                valid = len(set(rs)) == len(rs) and all(pcolls.get(r) == 1 for r in rs)
                if not valid and ok:
                    fail("invalid-op-accepted", i, "removeRuns accepted a missing / non-RUN / repeated name")
                if valid and not in_chain and not ok:
                    fail("valid-removal-refused", i, f"a valid removeRuns was refused with {out}")
                if ok:
                    targets = {r[0] for r in prev["raw_ds"] if r[1] in rs}
                    mode = "removeRuns"
                    left = sorted(c for c in colls if c in rs)
                    if left:
                        fail("run-survived", i, f"removeRuns returned but collection(s) {left} still exist")
                    if sorted(c for c in pcolls if c not in rs) != sorted(colls):
                        fail("other-collection-changed", i, "removeRuns changed the set of other collections")
            elif k == "RegRemove":
                held = [d for d in op[1] if prev["locations"][d] == 1 or d in prev["raw_loc"]]
                if held and (out != "Err:Orphaned"):
                    fail("orphan-not-refused", i, f"registry.removeDatasets of dataset(s) {held} that a datastore still holds "
                                                  f"was not refused with OrphanedRecordError: {out}")
                if not held and not ok:
                    fail("valid-removal-refused", i, f"registry.removeDatasets of datasets no datastore holds was refused with {out}")
                if ok:
                    targets, mode = set(op[1]), "regremove"
                    if _datastore_view(prev) != _datastore_view(obs):
                        fail("registry-removal-touched-datastore", i, "registry.removeDatasets changed datastore tables / artifacts")
            elif k == "EmptyTrash" and ok:
                targets, mode = set(prev["raw_trash"]), "emptytrash"      # only datasets pending in the trash may be touched
            elif k == "Trash" and ok:
                targets, mode = set(op[1]), "trash"
            elif k == "Trash1" and ok:
                targets, mode = {op[1]}, "trash"
            if ok and k not in ("Prune", "RemoveRuns", "RegRemove", "RegColl", "Xfer") and sorted(pcolls.items()) != sorted(colls.items()):
                fail("collections-changed", i, f"{k} changed the set of collections")
            if targets is not None:
                whole = mode in ("purge", "removeRuns", "regremove")       # the dataset itself is to be forgotten
                unstore = mode in ("purge", "unstore", "disassociate+unstore") or (mode == "removeRuns")
                for d in sorted(targets):
                    v, pv = _vec(obs, d), _vec(prev, d)
                    if whole:
                        left = {kk: v[kk] for kk in ("exists", "many", "locations", "get_dataset", "member_of", "assoc", "row", "loc") if v[kk] not in ([0, 0, 0, 0], 0, [], False)}
                        if mode == "regremove":
                            left = {kk: vv for kk, vv in left.items() if kk in ("get_dataset", "member_of", "assoc", "row")}
                            if v["exists"][0]:
                                left["exists"] = v["exists"]
                        if mode == "removeRuns" and not op[2]:
                            pass
                        if left:
                            fail(f"target-survived:{'+'.join(sorted(left))}", i, f"after {opkind(op)} dataset {d} is still reported", left)
                    if mode != "regremove" and unstore and not (mode == "removeRuns" and not op[2]):
                        if v["loc"] or v["trash"] or v["recs"] or v["stored"] or v["locations"] or v["exists"][1] or v["exists"][2]:
                            fail("target-still-stored", i, f"after {opkind(op)} the datastore still knows dataset {d}",
                                 {kk: v[kk] for kk in ("loc", "trash", "recs", "stored", "locations", "exists")},
                                 d=d if (v["trash"] and not (v["loc"] or v["recs"] or v["stored"] or v["locations"] or v["exists"][1] or v["exists"][2])) else None)
                        for r in pv["recs"]:
                            p = [r[1], r[2]]
                            shared = any(q[0] not in targets and [q[1], q[2]] == p for q in obs["raw_recs"])
                            if p in obs["files"] and not shared:
                                fail("artifact-survived", i, f"after {opkind(op)} the artifact of dataset {d} is still in the datastore root", p)
                    if mode == "removeRuns" and not op[2]:
                        if v["loc"] or v["recs"] or v["locations"]:
                            fail("target-still-stored", i, f"after removeRuns(unstore=False) the datastore still has records of dataset {d}")
                    if mode in ("unstore",):
                        for kk in ("row", "member_of", "assoc", "get_dataset"):
                            if v[kk] != pv[kk]:
                                fail(f"unstore-changed-registry:{kk}", i, f"unstore-only prune changed what the registry reports about dataset {d}")
                    if mode.startswith("disassociate"):
                        tg = set(op[5])
                        want = [c for c in pv["member_of"] if c not in tg and not any(c == cc and (set(kids) & tg) for cc, kids in prev["chains"])]
                        wantc = [c for c in pv["member_of"] if c not in tg]
                        # chain views are re-derived in (2); compare the direct memberships only
                        direct = [c for c in v["member_of"] if c not in chain_ids]
                        pdirect = [c for c in wantc if c not in chain_ids]
                        if direct != pdirect:
                            fail("disassociate-imprecise", i, f"after disassociate from {sorted(tg)} dataset {d} is in {direct}, expected {pdirect}")
                        if mode == "disassociate":
                            for kk in ("exists", "stored", "locations", "loc", "recs", "artifact", "row", "get_dataset", "readable"):
                                if v[kk] != pv[kk]:
                                    fail(f"disassociate-changed:{kk}", i, f"disassociate-only prune changed {kk} of dataset {d}")
                # everything else: the per-dataset observation vector is unchanged
                for d in range(NDS):
                    if d in targets or (d in prev["raw_trash"] and d not in prev["raw_loc"]):
                        continue        # a dataset pending in the trash is already marked for deletion
                    v, pv = _vec(obs, d), _vec(prev, d)
                    if v != pv:
                        ch = sorted(kk for kk in v if v[kk] != pv[kk] and kk != "trash")
                        if ch:
                            fail(f"bystander-changed:{'+'.join(ch)}", i, f"{opkind(op)} of {sorted(targets)} changed what is reported about dataset {d}",
                                 {kk: [pv[kk], v[kk]] for kk in ch}, d=d)
                if mode in ("unstore", "disassociate", "disassociate+unstore", "noop") and sorted(pcolls.items()) != sorted(colls.items()):
                    fail("collections-changed", i, "pruneDatasets changed the set of collections")
                if mode == "disassociate" and _datastore_view(prev) != _datastore_view(obs):
                    fail("disassociate-touched-datastore", i, "disassociate-only prune changed datastore tables / artifacts")
                if mode == "unstore" and _registry_view(prev) != _registry_view(obs):
                    fail("unstore-touched-registry", i, "unstore-only prune changed registry contents")
            if ok and k == "ExtDelete":
                if _registry_view(prev) != _registry_view(obs) or [prev["raw_loc"], prev["raw_trash"], prev["raw_recs"]] != [obs["raw_loc"], obs["raw_trash"], obs["raw_recs"]]:
                    fail("harness:extdelete", i, "external deletion changed tables (harness error)")
            if ok and k == "Put":
                d = op[1]
                if obs["exists"][d][:3] != [1, 1, 1]:
                    fail("put-not-visible", i, f"after a successful put dataset {d} is reported {obs['exists'][d]}")
            if ok and k == "Xfer":
                d = op[1]
                if sorted(c for c in colls if c != op[2]) != sorted(c for c in pcolls if c != op[2]) or colls.get(op[2]) != 1:
                    fail("collections-changed", i, "transfer_from changed collections other than registering its run")
                if not any(r[0] == d for r in prev["raw_recs"]) and (obs["exists"][d][:3] != [1, 1, 1] or obs["many"][d][:3] != [1, 1, 1]):
                    fail("transfer-not-visible", i, f"after a successful transfer_from dataset {d} is reported {obs['exists'][d]} / {obs['many'][d]}")
            if k == "Ingest" and ok and any(d in prev["raw_loc"] or any(r[0] == d for r in prev["raw_recs"]) for d in op[1:3]):
                fail("reingest-of-held-accepted", i, "Butler.ingest accepted a dataset the datastore already holds")
            if ok and k == "Ingest":
                for d in op[1:3]:
                    if obs["exists"][d][:3] != [1, 1, 1] or obs["many"][d][:3] != [1, 1, 1]:
                        fail("ingest-not-visible", i, f"after a successful two-ref ingest dataset {d} is reported {obs['exists'][d]} / {obs['many'][d]}")
        prev = obs
        if failed:
            break
    return failed


def nontrivial_rule(hist, steps):
    """A history counts when it contains: a successful purge or removeRuns that deleted at least one stored dataset
    while another stored dataset survived; a successful unstore-only or disassociate-only prune that changed something;
    a step where some dataset is RECORDED|DATASTORE without _ARTIFACT (externally deleted) ; and a refused operation."""
    big = frame = ext = refused = False
    prev = None
    for op, s in zip(hist, steps):
        o = s["obs"]
        if s["out"] != "Ok":
            refused = True
        if prev is not None and s["out"] == "Ok":
            if (op[0] == "Prune" and prune_mode(op) == "purge") or op[0] == "RemoveRuns":
                if len(o["raw_loc"]) < len(prev["raw_loc"]) and o["raw_loc"]:
                    big = True
            if op[0] == "Prune" and prune_mode(op) in ("unstore", "disassociate") and _snapshot(o) != _snapshot(prev):
                frame = True
        if any(e[:3] == [1, 1, 0] for e in o["exists"]):
            ext = True
        prev = o
    return {'exact-removal-with-survivor': big, 'frame-prune': frame, 'external-deletion-visible': ext, 'refusal': refused}


# =================================================================================================
# Coq literals
# =================================================================================================
def nl(xs):
    return "[" + ";".join(str(x) if x >= 0 else "999999" for x in xs) + "]"


def cll(rows):
    return "[" + ";".join(nl(r) for r in rows) + "]"


def cb(x):
    return "true" if x else "false"


def cop(op):
    k = op[0]
    if k == "RegColl":
        return f"RegColl {op[1]} {KINDN[op[2]]}"
    if k == "SetChain":
        return f"SetChain {op[1]} {nl(op[2])}"
    if k == "Put":
        return f"Put {op[1]} {op[2]} {op[3]}"
    if k == "Tag":
        return f"Tag {op[1]} {nl(op[2])}"
    if k == "Certify":
        return f"Certify {op[1]} {op[2]} {op[3]} {op[4]}"
    if k == "Prune":
        return f"Prune {nl(op[1])} {cb(op[2])} {cb(op[3])} {cb(op[4])} {nl(op[5])}"
    if k == "RemoveRuns":
        return f"RemoveRuns {nl(op[1])} {cb(op[2])}"
    if k == "ExtDelete":
        return f"ExtDelete {op[1]} {op[2]}"
    if k == "Trash":
        return f"Trash {nl(op[1])}"
    if k == "EmptyTrash":
        return "EmptyTrash"
    if k == "RegRemove":
        return f"RegRemove {nl(op[1])}"
    if k == "Trash1":
        return f"Trash1 {op[1]}"
    if k == "Xfer":
        return f"Xfer {op[1]} {op[2]} {op[3]}"
    if k == "Ingest":
        return f"Ingest {op[1]} {op[2]} {op[3]} {op[4]}"
    raise ValueError(op)


def cobs(out, obs):
    code = ERRCODE.get(out, 99)
    chain_ids = {c for c, k in obs["colls"] if k == 3}
    members = [r for r in obs["qd"] if r[0] not in chain_ids]
    calibs = [r for r in obs["assoc"] if len(r) == 4]
    flags = [[d] + obs["exists"][d][:3] for d in range(NDS)]
    located = [[d, obs["locations"][d]] for d in range(NDS)]
    many = [[d] + obs["many"][d][:3] for d in range(NDS)]
    stored_many = [[d, obs["stored_many"][d]] for d in range(NDS)]
    chainview = [r for r in obs["qd"] if r[0] in chain_ids]
    return "(Obs %d %s %s %s %s %s %s %s %s %s %s %s %s %s %s)" % (
        code, cll(obs["colls"]), cll(obs["raw_ds"]), cll(members), cll(calibs), cll([[d] for d in obs["raw_loc"]]),
        cll([[d] for d in obs["raw_trash"]]), cll(obs["raw_recs"]), cll(obs["files"]), cll(flags), cll(located), cll(obs["carried"]),
        cll(many), cll(stored_many), cll(chainview))


def ccase(hist, steps):
    return "[" + ";\n   ".join(f"({cop(op)}, {cobs(s['out'], s['obs'])})" for op, s in zip(hist, steps)) + "]"


FIELDS = {1: "outcome", 2: "collections", 3: "dataset table", 4: "collection contents", 5: "calibration rows", 6: "dataset_location",
          7: "dataset_location_trash", 8: "file_datastore_records", 9: "root listing", 10: "Butler.exists flags",
          11: "getDatasetLocations", 12: "Butler.exists flags of refs carrying records", 13: "Butler._exists_many flags (one call, all ids)",
          14: "Butler.stored_many (one call, all ids)", 15: "query_datasets over CHAINED collections"}


# =================================================================================================
def execute(ctx: Ctx, hists, chunk=2, timeout=900):
    payloads = [{"histories": hists[i:i + chunk], "ncoll": NCOLL, "nds": NDS, "full": True} for i in range(0, len(hists), chunk)]
    res = parallel_workers("c10_impl", "run_histories", payloads, timeout=timeout)
    out = []
    for pl, (status, r) in zip(payloads, res):
        if status != "ok":
            for h in pl["histories"]:
                out.append(None)
                ctx.oracle_fail(f"worker-{status}", {"history": h, "detail": (r or "")[-1500:] if isinstance(r, str) else None},
                                f"running the history on the implementation ended in a {status}")
        else:
            out.extend(x["steps"] for x in r)
    return out


# =================================================================================================
# replay shrinker: greedy removal of operations, every candidate re-run on the IMPLEMENTATION and re-judged by the oracle
# =================================================================================================
class _Probe:
    """Just enough of Ctx for check_history: collects oracle failures and applies the same known-finding filter."""

    def __init__(self, known):
        self.known, self.oracle_failures = known, []

    def count(self, n=1):
        pass

    def hist(self, *a, **k):
        pass

    def oracle_fail(self, signature, replay, what=""):
        for k in self.known:
            if k.get("status", "known") == "known" and re.fullmatch(k["signature"], signature):
                return
        self.oracle_failures.append((signature, dict(replay, what=what, signature=signature)))


def _still_fails(known, sig, hists, timeout=600):
    """Run the candidate histories on the implementation; per candidate the replay dict of an oracle failure with exactly the
    signature `sig` (its history truncated at the failing step) or None."""
    payloads = [{"histories": [h], "ncoll": NCOLL, "nds": NDS, "full": True} for h in hists]
    res = parallel_workers("c10_impl", "run_histories", payloads, timeout=timeout) if hists else []
    out = []
    for h, (status, r) in zip(hists, res):
        hit = None
        if status == "ok":
            p = _Probe(known)
            check_history(p, h, r[0]["steps"], "shrink")
            hit = next((rep for s_, rep in p.oracle_failures if s_ == sig), None)
        out.append(hit)
    return out


def shrink_history(known, sig, hist, budget=150.0, log=lambda m: None):
    """Greedy one-operation removal.  Round: every single removal is tried (in parallel); all operations that are removable on
    their own are removed together when the failure survives that, otherwise one at a time from the end.  Stops at a history
    from which no single operation can be removed (1-minimal) or when the wall budget is used up.
    -> (replay dict of the smallest failing history found or None, number of implementation runs)"""
    t0, cur, best, runs = time.time(), list(hist), None, 0
    while len(cur) > 1 and time.time() - t0 < budget:
        cands = [cur[:j] + cur[j + 1:] for j in range(len(cur) - 1)]          # the last operation is the failing one: kept
        hits = _still_fails(known, sig, cands)
        runs += len(cands)
        rem = [j for j, h in enumerate(hits) if h is not None]
        if not rem:
            break
        hit = hits[rem[0]]
        if len(rem) > 1:
            both = _still_fails(known, sig, [[op for j, op in enumerate(cur) if j not in rem]])[0]
            runs += 1
            if both is not None:
                hit = both
            else:
                for j in sorted(rem[1:], reverse=True):                        # not together: one at a time, from the end
                    if time.time() - t0 >= budget:
                        break
                    h1 = hit["history"]
                    if j - 1 >= len(h1) - 1:
                        continue
                    # `hit` is cur without rem[0] (truncated); index j of cur is index j - 1 there
                    nxt = _still_fails(known, sig, [h1[:j - 1] + h1[j:]])[0]
                    runs += 1
                    if nxt is not None:
                        hit = nxt
        best, cur = hit, hit["history"]
        log(f"shrink {sig}: {len(hist)} -> {len(cur)} ops after {runs} runs")
    return best, runs


def shrink_failures(ctx: Ctx, budget):
    done = set()
    t0 = time.time()
    for sig, rep in ctx.oracle_failures:
        if sig in done or sig.startswith("worker-") or not isinstance(rep.get("history"), list) or len(done) >= 2:
            continue
        done.add(sig)
        left = budget - (time.time() - t0)
        if left <= 5:
            break
        n0 = len(rep["history"])
        best, runs = shrink_history(ctx.known, sig, rep["history"], left, ctx.log)
        if best is not None and len(best["history"]) < n0:
            for k_ in ("history", "step", "op", "outcome", "detail", "what"):
                rep[k_] = best[k_]
        rep["shrunk"] = {"from_ops": n0, "to_ops": len(rep["history"]), "implementation_runs": runs,
                         "one_minimal": bool(time.time() - t0 < budget)}
    if done:
        ctx.cov["shrinker"] = f"{len(done)} failing histories shrunk by greedy operation removal on the implementation"


def load_own_known(ctx: Ctx):
    """known_findings.json is assembled by the maintainer from known_findings.d/; until this property is listed there
    read the fragment directly so that the check is quiet on the unchanged tree."""
    p = VERIF / "known_findings.d" / "C10.json"
    if p.exists():
        have = {k["id"] for k in ctx.known}
        ctx.known += [k for k in json.loads(p.read_text()) if k["id"] not in have and k["property"] == "C10"]


def run(ctx: Ctx):
    load_own_known(ctx)
    ctx.assumptions += [
        "SQLite enforces the dataset_location -> dataset FOREIGN KEY (no cascade) and ON DELETE CASCADE on the tag / calib tables "
        "as the model's reg_remove / remove_run do (exercised by the correspondence on every run)",
        "one POSIX file datastore with the default file template (artifact named by run, dataset type, data ID), one artifact "
        "per dataset, trust_get_request off; chained / in-memory datastores, disassembled composites, ingest of shared files "
        "(property C09), PostgreSQL are outside the model",
        "refs handed to prune / trash / removeDatasets are the registry's own ref for the id when it has one, else the last "
        "definition the id was put with",
        "between Datastore.trash and Datastore.emptyTrash (pending rows in dataset_location_trash) the statement does not decide "
        "whether 'the datastore knows' a dataset: the oracle skips DATASTORE/_ARTIFACT for pending ids, the model is compared there too",
    ]
    ctx.cov["rule"] = (
        "a history (28 ops quick / 60 thorough over 8 collection names, 8 dataset ids, 6 (type, data ID) keys) is non-trivial when "
        "it contains a successful purge or removeRuns that deleted a stored dataset while another stored dataset survived, a "
        "successful unstore-only or disassociate-only prune that changed something, a step at which some dataset is "
        "RECORDED|DATASTORE without _ARTIFACT (artifact deleted behind the Butler's back) and a refused operation; every step "
        "of every history probes all 8 dataset ids through 12 interfaces (single-ref and bulk) and all collections, chains "
        "included, through 3; the model is compared on 15 fields per step"
    )
    props_ok = ctx.build_props(extra_targets=["Model/RemovalCheck.vo"])
    if not props_ok:
        from harness.common import coq_make
        coq_make(["Model/RemovalCheck.vo"])

    hists, origins = [], []
    for f in sorted(glob.glob(str(VERIF / "corpus" / "C10" / "*.json"))):
        j = json.load(open(f))
        hists.append(j["history"])
        origins.append("corpus/" + os.path.basename(f))
    ncorpus = len(hists)
    if ctx.replay:
        j = json.load(open(ctx.replay))
        hists, origins, ncorpus = [j["history"]], ["replay"], 1
    else:
        nh, ln = (40, 28) if ctx.quick else (240, 60)
        if os.environ.get("VERIF_C10_CASES"):
            nh = int(os.environ["VERIF_C10_CASES"])         # builder / mutation trials only
        for k in range(nh):
            hists.append(gen_history(ctx.rng, ln if k % 4 else ln // 2))
            origins.append(f"seed{ctx.seed}/{k}")
    results = execute(ctx, hists, chunk=2 if ctx.quick else 3)

    cases, meta = [], []
    for h, steps, org in zip(hists, results, origins):
        if steps is None:
            continue
        check_history(ctx, h, steps, org)
        parts = nontrivial_rule(h, steps)
        for nm, v in parts.items():
            ctx.hist("nontrivial_parts", nm, int(v))
        if all(parts.values()):
            ctx.nontrivial(h)
        ctx.hist("history_length", len(h))
        cases.append(ccase(h, steps))
        meta.append((h, steps, org))
    if meta:
        h, steps, org = meta[min(len(meta) - 1, ncorpus)]
        ctx.sample({"origin": org, "history_prefix": h[:14], "outcomes": [s["out"] for s in steps[:14]],
                    "exists_after_14": steps[min(13, len(steps) - 1)]["obs"]["exists"]})
        ctx.sample({"coq_case_prefix": cases[min(len(meta) - 1, ncorpus)][:1500]})

    bad = ctx.coq_cases("hist", HDR, cases, f"chk_hist {UNIV}", shard=6 if ctx.quick else 8, timeout=900)
    for i in (bad or [])[:5]:
        h, steps, org = meta[i]
        rc, txt = ctx.coq_eval("where", HDR, f"chk_where {UNIV} {cases[i]}")
        m = re.search(r"=\s*\[(\d+);\s*(\d+)\]", txt)
        if m:
            stp, fld = int(m.group(1)), int(m.group(2))
            o = steps[stp]["obs"]
            brief = {"out": steps[stp]["out"], "raw_ds": o["raw_ds"], "raw_loc": o["raw_loc"], "raw_trash": o["raw_trash"], "raw_recs": o["raw_recs"],
                     "files": o["files"], "exists": o["exists"], "carried": o["carried"], "colls": o["colls"], "qd": o["qd"], "assoc": o["assoc"]}
            ctx.disagreement("hist", {"origin": org, "history": h[: stp + 1], "observed": brief},
                             f"step {stp} ({h[stp]} -> {steps[stp]['out']}): model differs on {FIELDS.get(fld, fld)}")
        else:
            ctx.disagreement("hist", {"origin": org, "history": h}, "model differs (position not recovered): " + txt[-300:])

    if ctx.broken and not ctx.oracle_failures and not ctx.replay:
        ctx.log("obligation/tie broken without oracle failure: searching deeper on the implementation")
        extra = [gen_history(ctx.rng, 40) for _ in range(40 if ctx.quick else 200)]
        res = execute(ctx, extra, chunk=3)
        for k, (h, steps) in enumerate(zip(extra, res)):
            if steps is not None:
                check_history(ctx, h, steps, f"search/{k}")
        ctx.cov["search"] = f"{len(extra)} further histories of 40 ops on the implementation; oracle failures found: {len(ctx.oracle_failures)}"

    if ctx.oracle_failures and not ctx.replay:
        shrink_failures(ctx, 150.0 if ctx.quick else 600.0)
