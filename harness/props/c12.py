"""C12 -- Dimension groups are dependency-closed sets obeying lattice laws.

Tie T: Gen/Universes.v is regenerated from configs/dimensions.yaml and configs/old_dimensions/*.yaml; Props/C12.v
       re-proves well-formedness and the exhaustive lookup-order theorem over it.
       Gen/GroupGen.v is regenerated from the bodies of DimensionGroup.__new__ / lookup_order / union / intersection /
       __eq__ / __le__ / issubset / isdisjoint / __hash__ and DimensionUniverse.sorted (harness/translators/group_algo.py);
       Props/C12.v proves that the generated algorithms agree with the hand model in every well-formed universe.
Tie K: (a) universe construction: real DimensionUniverse(elements, kinds, required, implied, always_join,
           populated_by, topology) vs Model/Group.v:build on the regenerated raw configuration;
       (b) groups: every subset of the non-skypix dimensions (exhaustive) + random subsets with skypix dimensions,
           join-table names and unknown names + conform("name"): names, required, implied, elements, governors,
           skypix, data_coordinate_keys, lookup_order vs Model/Universe.v:mkgroup;
       (c) pairs of distinct groups: | & <= == hash isdisjoint vs gunion / ginter / gsubset / geqb / ghash
           (compact cases -- operand = table index, result = bit mask over the universe order: Model/GroupXCheck.v);
       (d) the GENERATED algorithms vs the implementation: a sample of constructor cases (chk_gen_group, incl.
           data_coordinate_keys) and n-ary union / intersection with 0..4 other operands + comparisons (chk_nary).
Oracle: the property statement evaluated on the implementation's observations with an independent fixpoint
        computation over the universe's own required / implied sets (no model, no DimensionGroup code).
"""
from __future__ import annotations

import json
import re
from pathlib import Path

from harness.common import VERIF, Ctx, cbool, clist, coq_make, cstr, parallel_workers, run_worker
from harness.translators import group_algo as ga
from harness.translators import universe as tr

CUSTOM = {"deadlock"}
RAW: dict = {}      # ident -> raw configuration read from the YAML (filled by payloads_for)
IDENT = re.compile(r"[A-Za-z_][A-Za-z0-9_]*\Z")
KIND = {"governor": "KGovernor", "skypix": "KSkyPix", "dimension": "KDimension", "combination": "KCombination"}


# ------------------------------------------------------------------------------------------------
# Coq rendering
# ------------------------------------------------------------------------------------------------
class Names:
    """Name constants so that case files parse fast: n_<name> := "<name>"."""

    def __init__(self, names):
        self.known = {n for n in names if IDENT.match(n)}

    def header(self):
        return "".join(f"Definition n_{n} := {cstr(n)}.\n" for n in sorted(self.known))

    def __call__(self, n):
        return f"n_{n}" if n in self.known else cstr(n)

    def lst(self, l):
        return clist(self(x) for x in l)


def c_gobs(N: Names, o) -> str:
    if o.get("err"):
        return "None"
    ls = clist(N.lst(o[k]) for k in ("names", "required", "implied", "elements", "governors", "skypix", "dck"))
    lk = "None" if o["lookup"] is None else f"(Some {N.lst(o['lookup'])})"
    return f"(Some ({ls}, {lk}))"


def c_elem(e) -> str:
    def opt(x):
        return "None" if x is None else f"(Some {cstr(x)})"
    return (f"mkElem {cstr(e['name'])} {KIND[e['kind']]} {clist(cstr(x) for x in e['required'])} "
            f"{clist(cstr(x) for x in e['implied'])} {cbool(e['always_join'])} {opt(e['populated_by'])} "
            f"{opt(e['spatial'])} {opt(e['temporal'])}")


HDR = ("From Coq Require Import String List Bool NArith.\n"
       "From V Require Import Model.Universe Model.Group Model.GroupCheck Gen.Universes.\n"
       "Import ListNotations.\n")
# checkers that evaluate the generated algorithms / use the group tables
HDRX = ("From Coq Require Import String List Bool NArith.\n"
        "From V Require Import Model.Universe Model.Group Model.GroupX Model.GroupCheck Gen.Universes Gen.GroupGen Model.GroupXGenCheck.\n"
        "Import ListNotations.\n")
# compact pair cases + group tables: hand model only (still evaluated when Gen/GroupGen.v cannot be regenerated)
HDRT = ("From Coq Require Import String List Bool NArith Uint63.\n"
        "From V Require Import Model.Universe Model.Group Model.GroupCheck Gen.Universes Model.GroupXCheck.\n"
        "Import ListNotations.\n")
CHUNK = 64          # Model/GroupXCheck.v: lk


# ------------------------------------------------------------------------------------------------
# the property oracle (written from the statement)
# ------------------------------------------------------------------------------------------------
class Spec:
    def __init__(self, universe_desc):
        self.req = {e["name"]: [x for x in e["required"] if x != e["name"]] for e in universe_desc}
        self.imp = {e["name"]: list(e["implied"]) for e in universe_desc}
        self.kind = {e["name"]: e["kind"] for e in universe_desc}
        self.order = [e["name"] for e in universe_desc]
        self._lfp = {}
        self._gcs = {}

    def deps(self, d):
        return self.req[d] + self.imp[d]

    def lfp(self, s: frozenset) -> frozenset:
        """least superset closed under required and implied dependencies"""
        r = self._lfp.get(s)
        if r is None:
            cur = set(s)
            changed = True
            while changed:
                changed = False
                for d in list(cur):
                    for x in self.deps(d):
                        if x not in cur:
                            cur.add(x)
                            changed = True
            r = self._lfp[s] = frozenset(cur)
        return r

    def gcs(self, s: frozenset) -> frozenset:
        """greatest closed subset"""
        r = self._gcs.get(s)
        if r is None:
            cur = set(s)
            changed = True
            while changed:
                changed = False
                for d in list(cur):
                    if any(x not in cur for x in self.deps(d)):
                        cur.discard(d)
                        changed = True
            r = self._gcs[s] = frozenset(cur)
        return r


def oracle_group(ctx: Ctx, sp: Spec, tag: str, o, kind="conform"):
    """Every clause of the statement that concerns one group.  Returns True when all hold."""
    S = o["in"] if isinstance(o["in"], list) else None
    rep = {"universe": tag, "op": kind, "in": o["in"]}
    ok = True

    def fail(sig, what, **kw):
        nonlocal ok
        ok = False
        ctx.oracle_fail(f"{sig}", dict(rep, observed={k: o.get(k) for k in ("names", "required", "implied", "lookup", "spell")}, **kw), what)

    names = o["names"]
    nset = frozenset(names)
    if len(nset) != len(names):
        fail("names:duplicates", "group names contain duplicates")
    if S is not None:
        if not set(S) <= nset:
            fail("closure:not-superset", "the group does not contain every requested dimension")
        want = sp.lfp(frozenset(S))
    else:
        want = None
    missing = [(d, x) for d in names for x in sp.deps(d) if x not in nset]
    if missing:
        fail("closure:missing-dependency", "the group is not closed under required/implied dependencies", missing=missing[:3])
    if want is not None and not missing and nset != want:
        fail("closure:not-minimal", "the group is not the SMALLEST closed superset of the requested dimensions",
             extra=sorted(nset - want))
    if o.get("spell"):
        fail(f"canonical:{o['spell'][0].split(':')[0]}", "a different spelling of the same set gave a different object / unequal group")
    req, imp = o["required"], o["implied"]
    if set(req) | set(imp) != nset or set(req) & set(imp) or len(req) + len(imp) != len(names):
        fail("partition", "required and implied do not partition the names")
    want_req = [d for d in names if not any(d in sp.imp.get(d2, ()) for d2 in names)]
    if sorted(req) != sorted(want_req):
        fail("required-char", "required is not exactly the members that no other member implies", want=want_req)
    elif not missing and all(d in sp.req for d in req) and sp.lfp(frozenset(req)) != nset:
        fail("required-generates", "the closure of the required part is not the whole group")
    pos = {d: i for i, d in enumerate(names)}
    for d in names:
        for x in sp.deps(d):
            if x in pos and pos[x] >= pos[d]:
                fail("names-order", "names does not list a dependency before its dependent", pair=[x, d])
                break
    if o["dck"] != req + imp:
        fail("data-coordinate-keys", "data_coordinate_keys is not required followed by implied")
    if o["len"] != len(names):
        fail("len", "len(group) differs from the number of names")
    lk = o["lookup"]
    if lk is None:
        fail("lookup:hang", "lookup_order did not return")
    else:
        lp = {d: i for i, d in enumerate(lk)}
        if len(lp) != len(lk) or set(lk) != set(o["elements"]):
            fail("lookup:not-a-permutation", "lookup_order is not a permutation of the group's elements")
        else:
            for x in lk:
                if any(p not in lp or lp[p] >= lp[x] for p in sp.req[x]):
                    fail("lookup:required-order", "lookup_order lists an element before one of its required dimensions", element=x)
                    break
            for d in imp:
                if d in lp and not any(d in sp.imp[a] and lp[a] < lp[d] for a in names if a in lp):
                    fail("lookup:implied-order", "lookup_order lists an implied dimension before every member that implies it", element=d)
                    break
    if not nset <= set(o["elements"]):
        fail("elements:names", "elements does not contain every dimension of the group")
    return ok


def oracle_pairs(ctx: Ctx, sp: Spec, tag: str, res):
    tbl = [frozenset(t) for t in res["table"]]
    treq = res["table_required"]
    for i, j, what in res["pair_inconsistencies"]:
        ctx.oracle_fail(f"operators:{what[0].split(':')[0]}", {"universe": tag, "a": res["table"][i], "b": res["table"][j], "what": what},
                        "comparison operators / methods of DimensionGroup disagree with each other")
    nfail = 0
    for i, j, ui, ii, le, eq, heq, dj in sorted(res["pairs"], key=lambda r: len(tbl[r[0]]) + len(tbl[r[1]])):
        A, B = tbl[i], tbl[j]
        ctx.count()
        rep = {"universe": tag, "op": "pair", "a": res["table"][i], "b": res["table"][j]}
        if tbl[ui] != sp.lfp(A | B):
            nfail += 1
            ctx.oracle_fail("union:not-lub", dict(rep, got=res["table"][ui]), "a | b is not the least group containing both")
        if tbl[ii] != sp.gcs(A & B):
            nfail += 1
            ctx.oracle_fail("intersection:not-glb", dict(rep, got=res["table"][ii]), "a & b is not the greatest group contained in both")
        if le != (A <= B):
            ctx.oracle_fail("subset", dict(rep, got=le), "a <= b disagrees with the name sets")
        if eq != (A == B):
            ctx.oracle_fail("equality", dict(rep, got=eq), "a == b disagrees with the name sets")
        if eq and not heq:
            ctx.oracle_fail("hash", rep, "equal groups with different hashes")
        if heq != (treq[i] == treq[j]) and eq:
            ctx.oracle_fail("hash", rep, "equal groups with different hashed tuples")
        if dj != (not (A & B)):
            ctx.oracle_fail("isdisjoint", dict(rep, got=dj), "isdisjoint disagrees with the name sets")
        if nfail > 20:
            break
    for row in res["triples"]:
        ctx.count()
        if isinstance(row[3], str):
            ctx.oracle_fail("triple:raised", {"universe": tag, "row": row}, "n-ary union / intersection raised")
            continue
        i, j, k, u3, ul, ur, i3, il, ir, dl, dr, ab1, ab2 = row[:13]
        A, B, C = tbl[i], tbl[j], tbl[k]
        rep = {"universe": tag, "op": "triple", "a": res["table"][i], "b": res["table"][j], "c": res["table"][k]}
        if not (u3 == ul == ur and tbl[u3] == sp.lfp(A | B | C)):
            ctx.oracle_fail("triple:union", rep, "n-ary union differs from nested unions / least upper bound")
        if not (i3 == il == ir and tbl[i3] == sp.gcs(A & B & C)):
            ctx.oracle_fail("triple:intersection", rep, "n-ary intersection differs from nested intersections / greatest lower bound")
        if ab1 != i or ab2 != i:
            ctx.oracle_fail("triple:absorption", rep, "a | (a & b) or a & (a | b) is not a")
        if not tbl[dr] <= tbl[dl]:
            ctx.oracle_fail("triple:semidistributive", rep, "(a & b) | (a & c) is not below a & (b | c)")
    for row in res.get("nary", []):
        ctx.count()
        i, js = row[0], row[1]
        rep = {"universe": tag, "op": "nary", "a": res["table"][i], "others": [res["table"][j] for j in js]}
        if isinstance(row[2], str):
            ctx.oracle_fail("nary:raised", dict(rep, error=row[2]), "n-ary union / intersection raised")
            continue
        un, it, bools = row[2], row[3], row[4]
        A = tbl[i]
        U = sp.lfp(A.union(*[tbl[j] for j in js]))
        I = sp.gcs(A.intersection(*[tbl[j] for j in js]))
        if tbl[un] != U:
            ctx.oracle_fail("nary:union", dict(rep, got=res["table"][un]), "a.union(*others) is not the least group containing every operand")
        if tbl[it] != I:
            ctx.oracle_fail("nary:intersection", dict(rep, got=res["table"][it]), "a.intersection(*others) is not the greatest group contained in every operand")
        if js:
            B = tbl[js[0]]
            want = [A == B, A <= B, A <= B, not (A & B)]
            if bools[:4] != want or (A == B and not bools[4]):
                ctx.oracle_fail("nary:comparisons", dict(rep, got=bools), "== / <= / issubset / isdisjoint / hash disagree with the name sets")


# ------------------------------------------------------------------------------------------------
def random_subsets(rng, desc, n, with_unknown=True):
    names = [e["name"] for e in desc]
    dims = [e["name"] for e in desc if e["kind"] != "combination"]
    nonsky = [e["name"] for e in desc if e["kind"] in ("governor", "dimension")]
    sky = [e["name"] for e in desc if e["kind"] == "skypix"]
    combos = [e["name"] for e in desc if e["kind"] == "combination"]
    out = []
    for _ in range(n):
        s = rng.sample(nonsky, rng.randrange(0, min(6, len(nonsky)) + 1))
        if sky:
            s += rng.sample(sky, rng.choice([1, 1, 2, 3]))
        r = rng.random()
        if combos and r < 0.08:
            s.append(rng.choice(combos))
        elif with_unknown and r < 0.14:
            s.append(rng.choice(["no_such_dimension", "Visit", "htm25", "healpix0", "htm", ""]))
        elif r < 0.2:
            s = s + s[:2]
        rng.shuffle(s)
        out.append(s)
    return out


def corpus_subsets():
    out = []
    for f in sorted((VERIF / "corpus" / "C12").glob("*.json")):
        d = json.loads(f.read_text())
        for c in d.get("cases", []):
            if "in" in c:
                out.append((c.get("universe", "current"), list(c["in"])))
    return out


def corpus_nary():
    """[(universe, [names of a], [[names of other] ...])] from corpus/C12/*.json cases with an "others" key"""
    out = []
    for f in sorted((VERIF / "corpus" / "C12").glob("*.json")):
        d = json.loads(f.read_text())
        for c in d.get("cases", []):
            if "others" in c and "a" in c:
                out.append((c.get("universe", "current"), list(c["a"]), [list(o) for o in c["others"]]))
    return out


def check_universe(ctx: Ctx, ident: str, res, cases_univ):
    """(a) construction: model build vs real universe"""
    if "universe_error" in res:
        cases_univ.append((f"(raw_{ident}, None)", {"universe": ident, "error": res["universe_error"]}))
        return None
    desc = res["universe"]
    cases_univ.append((f"(raw_{ident}, Some {clist(c_elem(e) for e in desc)})", {"universe": ident, "n": len(desc)}))
    ctx.count(len(desc))
    ctx.hist("universe_elements", ident, len(desc))
    # statement-level sanity of the universe order itself: dependencies precede dependents
    pos = {e["name"]: i for i, e in enumerate(desc)}
    if len(pos) != len(desc):
        ctx.oracle_fail("universe:duplicate-names", {"universe": ident}, "two elements share a name")
    for e in desc:
        for x in e["required"] + e["implied"]:
            if x != e["name"] and (x not in pos or pos[x] >= pos[e["name"]]):
                ctx.oracle_fail("universe:order", {"universe": ident, "element": e["name"], "dependency": x},
                                "universe order does not put a dependency before its dependent")
    # the dependencies of the built universe are the ones the configuration declares
    raw = RAW.get(ident)
    if raw is not None:
        built = {e["name"]: e for e in desc}
        for r in raw["elements"]:
            b = built.get(r["name"])
            if b is None:
                ctx.oracle_fail("universe:element-lost", {"universe": ident, "element": r["name"]}, "a configured element is missing from the universe")
                continue
            if set(b["implied"]) != set(r["implies"]) or not set(r["requires"]) <= set(b["required"]):
                ctx.oracle_fail("universe:declared-dependency", {"universe": ident, "element": r["name"], "declared": {"requires": r["requires"], "implies": r["implies"]},
                                                                 "built": {"required": b["required"], "implied": b["implied"]}},
                                "the built universe does not carry the dependencies that the configuration declares")
    if not res.get("empty_ok", True):
        ctx.oracle_fail("canonical:empty", {"universe": ident}, "universe.empty is not the group of no dimensions")
    return Spec(desc)


class Acc:
    """cases of all universes, evaluated together so that the shards run in parallel"""

    def __init__(self):
        self.names = set()
        self.g, self.c, self.p, self.u = [], [], [], []     # (render(N) -> str, meta)
        self.gg, self.n = [], []                            # generated algorithms: constructor sample, n-ary operators
        self.tables = {}                                    # universe ident -> (uvar, [names of group k])
        self.pos = {}                                       # universe ident -> {names tuple: index in the table}


def run_universe(ctx: Ctx, ident: str, uvar: str, results: list, acc: Acc):
    """results: worker outputs for this universe (the first carries groups, all may carry pairs)"""
    res0 = results[0]
    cases_univ = []
    sp = check_universe(ctx, ident, res0, cases_univ)
    acc.u.extend(cases_univ)
    if sp is None:
        return
    acc.names.update(sp.order)
    custom = ident in CUSTOM     # hand-made universe: outside the statement's quantifier, model comparison only
    dom = set() if custom else {n for n, k in sp.kind.items() if k != "combination"}      # the property speaks about dimension names
    for o in res0["groups"]:
        ctx.count()
        in_domain = all(n in dom for n in o["in"]) and not custom
        if custom:
            ctx.hist("custom_universe_lookup", "did not return" if (not o.get("err") and o["lookup"] is None) else "returned")
        if o.get("err"):
            ctx.hist("group_outcome", o["err"])
            if in_domain:
                ctx.oracle_fail(f"conform:raised:{o['err']}", {"universe": ident, "in": o["in"], "error": o["err"]},
                                "constructing a group from valid dimension names raised")
        else:
            ctx.hist("group_outcome", "ok" if in_domain else "ok (input names a join table: outside the property's domain, model compared only)")
            ctx.hist("group_size", len(o["names"]))
            if in_domain:
                oracle_group(ctx, sp, ident, o)
                if len(o["names"]) > len(set(o["in"])) or o["implied"]:
                    ctx.nontrivial({"u": ident, "in": sorted(set(o["in"]))})
        case = (lambda N, o=o: f"({uvar}, {N.lst(o['in'])}, {c_gobs(N, o)})",
                {"universe": ident, "in": o["in"], "observed": {k: o.get(k) for k in ("err", "names", "required", "implied", "lookup")}})
        acc.g.append(case)
        # the generated constructor on a sample: every error case, the hand-made universe, every 23rd other case
        if custom or o.get("err") or len(acc.g) % 23 == 0:
            acc.gg.append(case)
    for o in res0.get("conform", []):
        ctx.count()
        if not o.get("err") and not custom:
            oracle_group(ctx, sp, ident, dict(o, spell=[] if o.get("same_as_minimal", True) else ["minimal_group"]), kind="conform-str")
            # conform("x") is the least group holding x's own dimensions
            want = sp.lfp(frozenset(sp.req[o["in"]] + sp.imp[o["in"]] + ([o["in"]] if sp.kind[o["in"]] != "combination" else [])))
            if frozenset(o["names"]) != want:
                ctx.oracle_fail("conform-str", {"universe": ident, "in": o["in"], "names": o["names"]},
                                "conform(name) is not the smallest group containing the element's dimensions")
        acc.c.append((lambda N, o=o: f"({uvar}, {N(o['in'])}, {c_gobs(N, o)})", {"universe": ident, "conform": o["in"]}))
    for res in results:
        if "universe_error" in res or not res.get("pairs"):
            continue
        if not custom:
            oracle_pairs(ctx, sp, ident, res)
        tbl = res["table"]
        for i, j, *_ in ([] if custom else res["pairs"][:: max(1, len(res["pairs"]) // 20000)]):
            A, B = set(tbl[i]), set(tbl[j])
            if not (A <= B or B <= A):
                ctx.nontrivial({"u": ident, "a": tbl[i], "b": tbl[j]})
        # compact pair cases: operands = index into ONE table of operand groups per universe (Cases/C12/tables.v),
        # results = bit masks over the universe's element order (Model/GroupXCheck.v: chk_pair_ix)
        uv, gtab = acc.tables.setdefault(ident, (uvar, []))
        pos = acc.pos.setdefault(ident, {})
        bit = {n: k for k, n in enumerate(sp.order)}

        def ix(names, gtab=gtab, pos=pos):
            key = tuple(names)
            k = pos.get(key)
            if k is None:
                k = pos[key] = len(gtab)
                gtab.append(list(names))
            return k

        masks = {}

        def mask(gid, tbl=tbl, bit=bit, masks=masks):
            m = masks.get(gid)
            if m is None:
                names = tbl[gid]
                if any(n not in bit for n in names):
                    return None
                m = sum(1 << bit[n] for n in set(names))
                if m >> 120:
                    return None         # more than 120 elements: not representable (fail closed below)
                if [n for n in sp.order if n in set(names)] != list(names):
                    # the mask would hide it: names of a result group not in universe order / with duplicates
                    if not custom:
                        ctx.oracle_fail("names-order", {"universe": ident, "op": "pair-result", "names": names},
                                        "the names of a union / intersection result are not in universe order")
                    return None
                masks[gid] = m
            return m
        lo60 = (1 << 60) - 1
        for r in res["pairs"]:
            mu, mi = mask(r[2]), mask(r[3])
            if mu is None or mi is None:
                ctx.tie_broken("correspondence", "pairs", f"result group of {tbl[r[0]]} , {tbl[r[1]]} cannot be encoded: {tbl[r[2]]} / {tbl[r[3]]}")
                continue
            bits = sum(1 << k for k, x in enumerate(r[4:8]) if x)
            acc.p.append((f"mk63 T_{ident} {ix(tbl[r[0]])} {ix(tbl[r[1]])} {hex(mu & lo60)} {hex(mu >> 60)} {hex(mi & lo60)} {hex(mi >> 60)} {bits}",
                          (ident, tbl, r)))
        ctx.hist("pairs", ident, len(res["pairs"]))
        for row in res.get("nary", []):
            if isinstance(row[2], str):
                continue
            acc.n.append((lambda N, row=row, tbl=tbl: f"({uvar}, {N.lst(tbl[row[0]])}, {clist(N.lst(tbl[j]) for j in row[1])}, "
                                                       f"({N.lst(tbl[row[2]])}, {N.lst(tbl[row[3]])}), {clist(cbool(x) for x in row[4])})",
                          {"universe": ident, "a": tbl[row[0]], "others": [tbl[j] for j in row[1]],
                           "union": tbl[row[2]], "intersection": tbl[row[3]], "eq,le,issubset,isdisjoint,hash": row[4]}))
        ctx.hist("nary", ident, len(res.get("nary", [])))


def write_tables(ctx: Ctx, acc: Acc, N: Names) -> bool:
    """Cases/C12/tables.v: per universe the table of distinct groups (two-level list) and, computed once by the model,
    `required_of` of each; compiled once, the pair shards only `Require` it."""
    body = [N.header(), "Open Scope list_scope."]
    for ident, (uvar, gtab) in acc.tables.items():
        chunks = [gtab[i:i + CHUNK] for i in range(0, len(gtab), CHUNK)]
        body.append(f"Definition tbl_{ident} : table :=\n  " + clist(clist(N.lst(g) for g in ch) for ch in chunks) + ".")
        body.append(f"Definition tblr_{ident} : table := Eval vm_compute in required_table {uvar} tbl_{ident}.")
        body.append(f"Definition T_{ident} := ({uvar}, tbl_{ident}, tblr_{ident}).")
    rc, out = ctx.coq_eval("tables", HDRT + "\n".join(body), "true", timeout=600)
    if rc != 0:
        ctx.tie_broken("correspondence", "tables", f"the group tables could not be compiled: {out[-800:]}")
        return False
    return True


def evaluate_model(ctx: Ctx, acc: Acc):
    N = Names(acc.names)
    hdr = HDR + N.header()
    hdrx = HDRX + N.header()
    tables_ok = write_tables(ctx, acc, N) if acc.p else False
    hdrp = HDRT + "From V Require Import Cases.C12.tables.\n"
    chk_ix = "chk_pair_t"
    for name, items, chk, shard, h in (("universes", acc.u, "chk_universe", 1, HDR), ("groups", acc.g, "chk_group", 900, hdr),
                                       ("conform", acc.c, "chk_conform", 200, hdr), ("pairs", acc.p, chk_ix, 8000, hdrp),
                                       ("gen_groups", acc.gg, "chk_gen_group", 300, hdrx), ("gen_nary", acc.n, "chk_nary", 400, hdrx)):
        if not items or (name == "pairs" and not tables_ok):
            continue
        cases = [c if isinstance(c, str) else c(N) for c, _ in items]
        bad = ctx.coq_cases(name, h, cases, chk, shard=shard)
        for i in (bad or [])[:5]:
            meta = items[i][1]
            if name == "pairs":
                ident, tbl, r = meta
                meta = {"universe": ident, "a": tbl[r[0]], "b": tbl[r[1]], "union": tbl[r[2]], "inter": tbl[r[3]], "le,eq,hash,disjoint": r[4:]}
            ctx.disagreement(name, meta, "the model differs from the implementation on this case"
                             if not name.startswith("gen_") else
                             "the algorithm regenerated from the source (Gen/GroupGen.v) differs from the implementation on this case")
        k = len(cases) // 2
        meta = items[k][1]
        if name == "pairs":
            ident, tbl, r = meta
            meta = {"universe": ident, "a": tbl[r[0]], "b": tbl[r[1]], "a|b": tbl[r[2]], "a&b": tbl[r[3]], "le,eq,hash,disjoint": r[4:]}
        ctx.sample({name: meta, "coq": cases[k][:400]})


def payloads_for(ctx: Ctx, ident: str, path: Path, *, exhaustive: bool, nrandom: int, pairs, triples: int, slices: int,
                 extra_subsets=(), nary: int = 0):
    base = {"path": str(path), "default": ident == "current", "seed": ctx.seed}
    # descriptions are needed to generate random subsets -> read them from the raw YAML (names only)
    raw = tr.read_raw(path)
    RAW[ident] = raw
    names = []
    for s in raw["systems"]:
        names += [{"name": f"{s['name']}{lv}", "kind": "skypix"} for lv in range(s["min"], s["max"] + 1)]
    names += [{"name": e["name"], "kind": "governor" if e["governor"] else ("dimension" if e["keys"] else "combination")}
              for e in raw["elements"]]
    subs = list(extra_subsets) + random_subsets(ctx.rng, names, nrandom)
    out = [dict(base, exhaustive=exhaustive, subsets=subs, conform_names=True, pairs=0 if slices else pairs, triples=triples, nary=nary,
                     nary_cases=[[a, o] for (uu, a, o) in corpus_nary() if uu == ident], slice=0)]
    for k in range(slices):
        out.append(dict(base, exhaustive=exhaustive, subsets=[], light=True, pairs=pairs, pair_slice=[k, slices], triples=0, slice=k + 1))
    return out


def run(ctx: Ctx):
    ctx.assumptions += [
        "the YAML -> Gallina translator harness/translators/universe.py is trusted (its output, built by the model of "
        "DimensionConstructionBuilder, is compared element by element with the real DimensionUniverse on every run)",
        "the group algorithm (Model/Universe.v) is a hand model of DimensionGroup.__new__ / lookup_order, tied by the exhaustive correspondence "
        "AND by theorem gen_new_agrees to Gen/GroupGen.v, which harness/translators/group_algo.py regenerates from the source on every run",
        "the Python -> Gallina compiler harness/translators/group_algo.py and the meaning of the primitives in Model/GroupX.v are trusted "
        "(the generated constructor / n-ary operators are compared with the real implementation on a sample of every run)",
        "Python set iteration order (to_expand.pop()) is modelled by list order; the theorems show the result does not depend on it",
    ]
    ctx.cov["rule"] = (
        "universe construction: every element of every shipped universe (9 YAML files); groups: EVERY subset of the "
        "non-skypix dimensions of the current universe (2^13) + random subsets containing skypix dimensions, join-table "
        "names, unknown names, duplicates + conform(name) for every element; pairs: every ordered pair of the distinct "
        "groups (thorough; a slice in quick) + random triples; older universes exhaustively in the thorough tier. "
        "n-ary union / intersection with 0..4 other operands; a sample of the constructor cases and all n-ary cases also "
        "through the algorithms regenerated from the source. "
        "A group case is non-trivial when the closure added a dimension or the group has an implied part; a pair is "
        "non-trivial when the two groups are incomparable"
    )
    gen_ok = ctx.regen("universe", tr.translate)
    algo_ok = ctx.regen("group_algo", ga.translate)
    props_ok = ctx.build_props(extra_targets=["Model/GroupCheck.vo", "Model/GroupXCheck.vo", "Model/GroupXGenCheck.vo"])
    if not props_ok:
        coq_make(["Model/GroupCheck.vo", "Gen/Universes.vo", "Model/GroupXCheck.vo", "Model/GroupXGenCheck.vo"])
    try:
        srcs = tr.sources()
    except Exception as e:  # noqa: BLE001
        ctx.tie_broken("translator", "universe-sources", repr(e))
        srcs = [("raw_current", tr.PKG / "configs" / "dimensions.yaml")]
    if ctx.replay:
        return _replay(ctx, srcs)
    _main(ctx, srcs, quick=ctx.quick)
    if ctx.broken and not ctx.oracle_failures and ctx.quick:
        ctx.log("something no longer checks and the oracle held: running the thorough-size search")
        ctx.cov["search"] = ("thorough-size generation (all universes exhaustively, all pairs) was run on the implementation; "
                             "the property oracle held on every case")
        _main(ctx, srcs, quick=False, model=False)


def _main(ctx: Ctx, srcs, quick: bool, model: bool = True):
    corpus = corpus_subsets()
    jobs = []   # (ident, uvar, [payload...])
    for ident_raw, path in srcs:
        ident = ident_raw[4:]           # current | old0 ...
        uvar = f"u_{ident}"
        extra = [s for (u, s) in corpus if u == ident or (u == "current" and ident == "current")]
        if ident == "current":
            pl = payloads_for(ctx, ident, path, exhaustive=True, nrandom=2000 if quick else 6000,
                              pairs=40000 if quick else "all", triples=20000 if quick else 200000,
                              slices=0 if quick else 3, extra_subsets=extra, nary=800 if quick else 6000)
        elif quick:
            pl = payloads_for(ctx, ident, path, exhaustive=False, nrandom=150, pairs=2000, triples=1000, slices=0, extra_subsets=extra, nary=40)
        else:
            pl = payloads_for(ctx, ident, path, exhaustive=True, nrandom=1500, pairs="all", triples=20000, slices=2, extra_subsets=extra, nary=600)
        jobs.append((ident, uvar, pl))
    if model:
        for ident_raw, path in tr.custom_sources():
            jobs.append((ident_raw[4:], f"u_{ident_raw[4:]}",
                         payloads_for(ctx, ident_raw[4:], path, exhaustive=True, nrandom=10, pairs=300, triples=0, slices=0)))
    flat = [p for _, _, pl in jobs for p in pl]
    ctx.log(f"running {len(flat)} implementation workers")
    outs = parallel_workers("c12_impl", "observe", flat, timeout=900)
    ctx.log("implementation done; oracle + case generation")
    k = 0
    acc = Acc()
    for ident, uvar, pl in jobs:
        results = []
        for p in pl:
            st, r = outs[k]
            k += 1
            if st == "hang":
                ctx.oracle_fail("worker:hang", {"universe": ident, "payload": {kk: v for kk, v in p.items() if kk != "subsets"}},
                                "the implementation did not finish enumerating groups (a constructor or operator never returned)")
                continue
            if st != "ok":
                ctx.tie_broken("harness", f"worker-{ident}", str(r)[-1500:])
                continue
            r["slice"] = p.get("slice", 0)
            results.append(r)
        if not results:
            continue
        if model:
            run_universe(ctx, ident, uvar, results, acc)
        else:
            _oracle_only(ctx, ident, results)
    if model:
        ctx.log(f"evaluating the model on {len(acc.g)} group, {len(acc.c)} conform, {len(acc.p)} pair, {len(acc.u)} universe, "
                f"{len(acc.gg)} generated-constructor, {len(acc.n)} n-ary cases")
        evaluate_model(ctx, acc)


def _oracle_only(ctx: Ctx, ident, results):
    res0 = results[0]
    if "universe_error" in res0:
        return
    sp = Spec(res0["universe"])
    dom = {n for n, k in sp.kind.items() if k != "combination"}
    for o in res0["groups"]:
        ctx.count()
        if not all(n in dom for n in o["in"]):
            continue
        if not o.get("err"):
            oracle_group(ctx, sp, ident, o)
        elif all(n in sp.req for n in o["in"]):
            ctx.oracle_fail(f"conform:raised:{o['err']}", {"universe": ident, "in": o["in"]}, "constructing a group from valid names raised")
    for res in results:
        if res.get("pairs"):
            oracle_pairs(ctx, sp, ident, res)


def _replay(ctx: Ctx, srcs):
    rep = json.loads(Path(ctx.replay).read_text())
    ident = rep.get("universe", "current")
    path = dict((i[4:], p) for i, p in srcs).get(ident)
    if path is None:
        ctx.tie_broken("harness", "replay", f"unknown universe {ident}")
        return
    subs = [rep[k] for k in ("in", "a", "b", "c") if isinstance(rep.get(k), list)]
    subs += [x for x in rep.get("others", []) if isinstance(x, list)]
    st, r = run_worker("c12_impl", "observe", {"path": str(path), "default": ident == "current", "subsets": subs,
                                                "conform_names": isinstance(rep.get("in"), str), "pairs": "all", "triples": 30, "nary": 30,
                                                "nary_cases": [[rep["a"], rep["others"]]] if isinstance(rep.get("others"), list) and isinstance(rep.get("a"), list) else [],
                                                "seed": ctx.seed}, timeout=300)
    if st == "hang":
        ctx.oracle_fail("worker:hang", rep, "the implementation did not return")
        return
    if st != "ok":
        ctx.tie_broken("harness", "replay-worker", str(r)[-800:])
        return
    r["slice"] = 0
    acc = Acc()
    run_universe(ctx, ident, f"u_{ident}", [r], acc)
    evaluate_model(ctx, acc)
