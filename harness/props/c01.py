"""C01 -- A stored dataset always reads back as exactly what was stored under it.

Tie T: Gen/TemplateGen.v (default file templates, sanitising tables, formatter extensions) regenerated from the
       working tree; Props/C01.v is re-proved over it.
Tie K: histories of put / ingest(copy, move, re-ingest) / transfer_from between two repositories / associate /
       disassociate / removal of other datasets on file, in-memory and chained datastores with yaml, json and
       pickle formatters; after EVERY step: get of every dataset ever created (through the live Butler and
       through a freshly opened one), getURI, registry identity, tag lookups, listing of the datastore root --
       all compared with Model/Datastore.v evaluated by vm_compute.  Template-only cases compare
       FileTemplate.format + formatter extension with the model's `format` on hostile strings.
Oracle: the property's statement on the implementation's observations (independent of the model).
"""
from __future__ import annotations

import json
import os
import re
from pathlib import Path

from harness.common import VERIF, Ctx, cbool, clist, cn, coq_make, copt, cstr, cz, parallel_workers, run_worker
from harness.translators import c01_ingest as tr_ingest
from harness.translators import template as tr

FMT_ID = {"yaml": 0, "json": 1, "pickle": 2}
KIND = {"file": "KFile", "memory": "KMem", "chained": "KChained"}
ERR_CODE = {"ok": 0, "Conflict": 1, "NotFound": 2, "FileIntegrityError": 3, "DimensionName": 5, "KeyError": 5,
            "ValueError": 6, "NotImplementedError": 7, "TypeError": 8}
DT_DIMS = {"dtD": ("instrument", "detector"), "dtL": ("instrument",), "dtF": ("instrument", "physical_filter")}
UNKNOWN = 999999

# ---------------------------------------------------------------------------------------------------------
# generators
# ---------------------------------------------------------------------------------------------------------
EDGE_STR = ["yes", "no", "on", "off", "1e3", "~", "0123", "", "null", "true", "True", "1_000", "0x10", "1:30", "2001-01-01",
            "=", "<<", "ünïcödé ✓", "line\nbreak", " lead", "trail ", "#nocomment", "key: value", "- item",
            "'q'", '"dq"', "\t", "1.0", ".5", "+1", "-", "?", "|", ">", "{a}", "[b]", "&x", "*x", "!t", "%d", "@", "`",
            "日本語", "\U0001f600", "a\\b", "NaN", ".inf", "0o17", "1e+16", "\r\n"]
EDGE_INT = [0, 1, -1, 2**31, 2**63, 2**64 + 1, -2**70, 10**30, 123, 8, 17]
EDGE_FLT = [0.1, 1e-7, 1.5e300, -0.0, 1e16, 5e-324, 2.5, 1 / 3, 1e22, 123456789.123456789, 6.02214076e23]


def gen_scalar(r):
    c = r.random()
    if c < 0.35:
        return r.choice(EDGE_STR)
    if c < 0.55:
        return r.choice(EDGE_INT)
    if c < 0.75:
        return {"__f": float(r.choice(EDGE_FLT)).hex()}
    if c < 0.85:
        return r.choice([True, False, None])
    if c < 0.93:
        return "".join(r.choice("abcXYZ019 _-./:#") for _ in range(r.randint(1, 8)))
    return r.randint(-10**6, 10**6)


def gen_value(r, depth):
    if depth <= 0 or r.random() < 0.45:
        return gen_scalar(r)
    if r.random() < 0.5:
        return [gen_value(r, depth - 1) for _ in range(r.randint(0, 4))]
    return gen_dict(r, depth - 1)


def gen_dict(r, depth):
    d = {}
    for _ in range(r.randint(0, 4)):
        k = r.choice(EDGE_STR) if r.random() < 0.4 else "k" + str(r.randint(0, 20))
        if k == "__f":
            continue
        d[k] = gen_value(r, depth)
    return d


def gen_payload(r, top):
    if top == "list":
        return [gen_value(r, 2) for _ in range(r.randint(0, 5))] + [r.randint(0, 10**9)]   # last element: uid
    d = gen_dict(r, 2)
    d["uid"] = r.randint(0, 10**9)      # makes payloads pairwise distinct so that a swap is visible
    return d


COLLIDING_INST = [["Cam A", "Cam_A", "Cam/A", "Cam.A", "CamA"], ["A_B", "A"], ["x y.z", "x_y_z", "x/y z"]]
PLAIN_INST = ["CamB", "HSC", "L-1", "X#1", "q+r", "m,n", "Z9"]
RUNS_COLLIDING = [["r 1", "r_1"], ["u/w x", "u/w_x"]]
RUNS_PLAIN = ["r1", "u/r2", "u_r2", "r.1", "r_1x", "p/q/s"]
DET_NAMES = [["C", "B_C"], ["d 1", "d_1"], ["d.1", "d/1"], ["S0", "S1"], ["R 01", "R.01"]]
FILTERS = [("g 1", "g"), ("g_1", "g"), ("g.1", "g"), ("r", "r b"), ("HSC-R", "r_b")]


def gen_setup(r, collide: bool):
    insts = []
    names = r.sample(PLAIN_INST, r.randint(1, 2))
    if collide:
        fam = r.choice(COLLIDING_INST)
        names += r.sample(fam, min(len(fam), r.randint(2, 3)))
    else:
        names += [r.choice(r.choice(COLLIDING_INST))]       # one member only: hostile but alone
    for nm in names:
        dn = r.choice(DET_NAMES) if collide or r.random() < 0.3 else ["S0", "S1"]
        if not collide and dn in (DET_NAMES[1], DET_NAMES[2], DET_NAMES[4]):
            dn = [dn[0], "S1"]
        fl = r.sample(FILTERS, 2)
        if not collide and {fl[0][0], fl[1][0]} == {"g 1", "g_1"}:
            fl = [fl[0], FILTERS[3]]
        insts.append({"name": nm, "detectors": [{"id": i + 1, "full_name": n} for i, n in enumerate(dn)],
                      "filters": [{"name": f, "band": b} for f, b in fl]})
    if collide and any(i["name"] == "A_B" for i in insts):
        for i in insts:
            if i["name"] == "A_B":
                i["detectors"] = [{"id": 1, "full_name": "C"}, {"id": 2, "full_name": "S1"}]
            if i["name"] == "A":
                i["detectors"] = [{"id": 1, "full_name": "B_C"}, {"id": 2, "full_name": "S1"}]
    runs = r.sample(RUNS_PLAIN, 2)
    if collide and r.random() < 0.5:
        runs += r.choice(RUNS_COLLIDING)
    return {"instruments": insts, "runs": runs}


def gen_history(r, nops, collide, cfgs):
    """History generated against a shadow of what is registered / stored (kept by the generator, not the model).
    ingest(record_validation_info=False) (recorded size -1: the read skips the size check) is generated only in
    histories without deliberately colliding names: the model records the true size, so it is faithful only while
    the artifact of such a dataset is not overwritten by another dataset."""
    setup = gen_setup(r, collide)
    cfgA, cfgB = cfgs
    payloads, ops = [], []
    sh = {"A": {"reg": {}, "stored": set()}, "B": {"reg": {}, "stored": set()}}   # k -> ident tuple
    nextk = [1]

    def new_payload(dt):
        payloads.append(gen_payload(r, "list" if dt == "dtL" else "dict"))
        return len(payloads) - 1

    def rand_ident():
        dt = r.choices(["dtD", "dtL", "dtF"], [5, 3, 2])[0]
        inst = r.choice(setup["instruments"])
        op = {"dt": dt, "inst": inst["name"], "det": None, "pf": None, "run": r.choice(setup["runs"])}
        if dt == "dtD":
            op["det"] = r.choice(inst["detectors"])["id"]
        if dt == "dtF":
            op["pf"] = r.choice(inst["filters"])["name"]
        return op

    def key(op):
        return (op["dt"], op["inst"], op["det"], op["pf"], op["run"])

    def can_file(repo):
        return (cfgA if repo == "A" else cfgB)["ds"] != "memory"

    for n in range(nops):
        repo = "A" if r.random() < 0.7 else "B"
        S = sh[repo]
        c = r.random()
        op = None
        if c < 0.42 or not S["reg"]:
            idn = rand_ident()
            if r.random() < 0.08 and S["reg"]:
                idn = dict(zip(("dt", "inst", "det", "pf", "run"), r.choice(list(S["reg"].values()))))   # conflict on purpose
            elif r.random() < 0.2 and S.get("purged"):
                idn = dict(zip(("dt", "inst", "det", "pf", "run"), r.choice(S["purged"])))               # same path as a purged dataset
            k = nextk[0]
            nextk[0] += 1
            op = dict(idn, op="put", repo=repo, k=k, payload=new_payload(idn["dt"]))
            if key(idn) not in S["reg"].values():
                S["reg"][k] = key(idn)
                S["stored"].add(k)
        elif c < 0.57:
            if r.random() < 0.25 and S["reg"]:
                k = r.choice(list(S["reg"]))
                dt = S["reg"][k][0]
                op = {"op": "ingest", "repo": repo, "k": k, "reuse": k, "move": r.random() < 0.5, "payload": new_payload(dt), "noval": (r.random() < 0.3) and not collide}
                if can_file(repo) and k not in S["stored"]:
                    S["stored"].add(k)
            else:
                idn = rand_ident()
                k = nextk[0]
                nextk[0] += 1
                op = dict(idn, op="ingest", repo=repo, k=k, reuse=None, move=r.random() < 0.5, payload=new_payload(idn["dt"]),
                          noval=(r.random() < 0.3) and not collide)          # noval: ingest(record_validation_info=False), recorded size -1
                if key(idn) not in S["reg"].values() and can_file(repo):
                    S["reg"][k] = key(idn)
                    S["stored"].add(k)
        elif c < 0.69:
            src = "B" if repo == "A" else "A"
            if sh[src]["reg"]:
                # every pair of datastore kinds: pairs the code refuses (TypeError) are part of the comparison
                k = r.choice(list(sh[src]["reg"]))
                op = {"op": "xfer", "from": src, "to": repo, "k": k}
                kd, ks = (cfgA if repo == "A" else cfgB)["ds"], (cfgA if src == "A" else cfgB)["ds"]
                if ((kd, ks) in XFER_OK and k in sh[src]["stored"]
                        and sh[src]["reg"][k] not in [v for kk, v in S["reg"].items() if kk != k]):
                    S["reg"][k] = sh[src]["reg"][k]
                    S["stored"].add(k)
        elif c < 0.79:
            k = r.choice(list(S["reg"]))
            op = {"op": "assoc", "repo": repo, "tag": r.choice(["tagA", "tagB"]), "k": k}
        elif c < 0.83:
            k = r.choice(list(S["reg"]))
            op = {"op": "disassoc", "repo": repo, "tag": r.choice(["tagA", "tagB"]), "k": k}
        else:
            ks = r.sample(list(S["reg"]), min(len(S["reg"]), r.choice([1, 1, 1, 2, 3])))
            purge = r.random() < 0.6
            op = {"op": "remove", "repo": repo, "purge": purge, "ks": ks}
            for k in ks:
                S["stored"].discard(k)
                if purge and k in S["reg"]:
                    S.setdefault("purged", []).append(S["reg"].pop(k))
        if op is None:
            idn = rand_ident()
            k = nextk[0]
            nextk[0] += 1
            op = dict(idn, op="put", repo=repo, k=k, payload=new_payload(idn["dt"]))
            if key(idn) not in S["reg"].values():
                S["reg"][k] = key(idn)
                S["stored"].add(k)
        if r.random() < 0.1:
            op["fresh"] = True
        ops.append(op)
    return {"cfgA": cfgA, "cfgB": cfgB, "setup": setup, "payloads": payloads, "ops": ops}


# (target kind, source kind) pairs for which Butler.transfer_from moves artifacts (generator's shadow only; the
# model's table is xfer_refused in Model/DatastoreCheck.v, the implementation decides for itself)
XFER_OK = {("file", "file"), ("chained", "file"), ("chained", "chained")}


def pick_cfgs(r):
    c = r.random()
    if c < 0.5:
        return {"ds": "file", "fmt": r.choice(list(FMT_ID))}, {"ds": "file", "fmt": r.choice(list(FMT_ID))}
    if c < 0.8:
        return {"ds": "chained", "fmt": r.choice(list(FMT_ID))}, {"ds": "file", "fmt": r.choice(list(FMT_ID))}
    return {"ds": "memory", "fmt": "yaml"}, {"ds": r.choice(["file", "chained"]), "fmt": r.choice(list(FMT_ID))}


# ---------------------------------------------------------------------------------------------------------
# the property oracle (from the statement; uses only the history and the implementation's observations)
# ---------------------------------------------------------------------------------------------------------
def _san(v):
    return re.sub(r"[ /.]", "_", str(v))


def _dir_part(x):
    """directory components of the default template that come from the data ID (band / physical_filter), as written"""
    return tuple(str(x[k]).replace(" ", "_").replace("/", "_") for k in ("band", "physical_filter") if k in x)


def _template_fields(h, ident):
    """the values FileTemplate.format substitutes for this dataset (names, not detector ids)"""
    dt, inst, det, pf, run = ident
    out = {"datasetType": dt, "run": run, "instrument": inst}
    for i in h["setup"]["instruments"]:
        if i["name"] == inst:
            if det is not None:
                out["detector.full_name"] = next(d["full_name"] for d in i["detectors"] if d["id"] == det)
            if pf is not None:
                out["physical_filter"] = pf
                out["band"] = next(f["band"] for f in i["filters"] if f["name"] == pf)
    return out


def payload_rep(h):
    """payload number -> first payload number with the same (type-strict) value: equal payloads are interchangeable"""
    from harness.impl.c01_impl import canon, decode_payload
    first, rep = {}, []
    for i, p in enumerate(h["payloads"]):
        rep.append(first.setdefault(canon(decode_payload(p)), i))
    return rep


def oracle(ctx: Ctx, h, res, origin: str):
    """Returns (list of (signature, step, what)), nontrivial?  Bookkeeping below is the *specification*:
    what was stored under which dataset by the operations that succeeded."""
    fails = []
    rep = payload_rep(h)
    book = {"A": {}, "B": {}}     # repo -> k -> {"payload", "ident", "stored", "registered", "taint", "reingest_hit"}
    prev = None
    max_live = 0
    for n, (op, st) in enumerate(zip(h["ops"], res["steps"])):
        if st["out"] == "skipped":
            continue
        ok = st["out"] == "ok"
        kind = op["op"]
        if kind == "remove":
            op = dict(op, ks=st.get("ks_used", op["ks"]))
        if ok:
            if kind == "put":
                book[op["repo"]][op["k"]] = {"payload": op["payload"], "ident": (op["dt"], op["inst"], op["det"], op["pf"], op["run"]),
                                              "stored": True, "registered": True, "taint": None, "hit": False}
            elif kind == "ingest":
                if op.get("reuse") is None:
                    book[op["repo"]][op["k"]] = {"payload": op["payload"], "ident": (op["dt"], op["inst"], op["det"], op["pf"], op["run"]),
                                                  "stored": True, "registered": True, "taint": None, "hit": False}
                else:
                    e = book[op["repo"]].get(op["k"])
                    if e is not None:
                        e.update(payload=op["payload"], stored=True, hit=False)
            elif kind == "xfer":
                s = book[op["from"]].get(op["k"])
                d = book[op["to"]].get(op["k"])
                if s is not None and s["stored"] and st.get("transferred") and (d is None or not d["stored"]):
                    if d is None:
                        book[op["to"]][op["k"]] = dict(s, taint=s["taint"], hit=s["hit"])
                    else:
                        d.update(payload=s["payload"], stored=True)
            elif kind == "remove":
                for k in op["ks"]:
                    e = book[op["repo"]].get(k)
                    if e is not None:
                        e["stored"] = False
                        if op["purge"]:
                            e["registered"] = False
        # --- taint: stored datasets of one repository that share an artifact path
        for R in ("A", "B"):
            by_uri = {}
            for d in st[R]["ds"]:
                e = book[R].get(d["k"])
                if e is not None and e["stored"] and d["uri"] is not None:
                    by_uri.setdefault(d["uri"], []).append(d["k"])
            for ks in by_uri.values():
                if len(ks) > 1:
                    f = [_template_fields(h, book[R][k]["ident"]) for k in ks]
                    same_after_san = all({kk: _san(v) for kk, v in x.items()} == {kk: _san(v) for kk, v in f[0].items()} for x in f)
                    order = ("datasetType", "instrument", "band", "physical_filter", "detector.full_name", "run")
                    joined = {"_".join(_san(x[kk]) for kk in order if kk in x) for x in f}
                    same_dirs = len({(x["run"].replace(" ", "_"), x["datasetType"], _dir_part(x)) for x in f}) == 1
                    kind_of = "sanitise" if same_after_san else ("separator" if len(joined) == 1 and same_dirs else "other")
                    if kind_of == "other" and any("%" in str(v) for x in f for v in x.values()):
                        kind_of = "percent"      # a value contains '%': ResourcePath percent-decodes the template output
                    rank = {None: 0, "sanitise": 1, "separator": 2, "percent": 3, "other": 4}
                    for k in ks:
                        if rank[kind_of] > rank[book[R][k]["taint"]]:
                            book[R][k]["taint"] = kind_of
            max_live = max(max_live, sum(1 for e in book[R].values() if e["stored"]))
        # --- the statement, on every dataset that is still stored
        for R in ("A", "B"):
            for d in st[R]["ds"]:
                e = book[R].get(d["k"])
                if e is None:
                    continue
                ctx.count()
                bad = []
                if e["stored"]:
                    for how in ("get", "fresh"):
                        if how in d and d[how][:2] != ["ok", rep[e["payload"]]]:
                            bad.append(("content", f"{how} returned {d[how]} instead of payload {e['payload']}"))
                if e["registered"]:
                    want = {"type": e["ident"][0], "run": e["ident"][4]}
                    wd = {"instrument": e["ident"][1]}
                    if e["ident"][2] is not None:
                        wd["detector"] = e["ident"][2]
                    if e["ident"][3] is not None:
                        wd["physical_filter"] = e["ident"][3]
                    g = d.get("reg")
                    if g is None or g["type"] != want["type"] or g["run"] != want["run"] or g["dataId"] != wd or not g["id_same"]:
                        bad.append(("identity", f"registry identity {g} differs from what was stored {want} {wd}"))
                for what, msg in bad:
                    if e["taint"]:
                        sig = f"template-collision:{e['taint']}"
                    else:
                        sig = f"{what}:{kind}:{d.get('get', ['?', '?'])[1] if what == 'content' else 'registry'}"
                        sig = re.sub(r"-?\d+", "N", sig)
                    fails.append((sig, n, f"step {n} ({kind}) repo {R} dataset k={d['k']}: {msg}"))
            # tags: a lookup through a tagged collection returns the associated dataset's own content
            for t in st[R]["tags"]:
                if isinstance(t.get("found"), int) and t["found"] >= 0 and "get" in t:
                    e = book[R].get(t["found"])
                    if e is not None and e["stored"] and t["get"][:2] != ["ok", rep[e["payload"]]]:
                        sig = f"template-collision:{e['taint']}" if e["taint"] else f"content-via-tag:{kind}"
                        fails.append((sig, n, f"step {n}: get through {t['tag']} returned {t['get']} for dataset k={t['found']}"))
        # --- a refused ingest must not consume the caller's file (transfer="move" included)
        if not ok and kind == "ingest" and st.get("src_left") is False:
            fails.append((f"refused-ingest-consumed-source:{st['out']}", n,
                          f"step {n}: ingest was refused ({st['out']}) but the source file is gone (move={op.get('move')})"))
        # --- a refused operation changes nothing
        if not ok and prev is not None:
            for R in ("A", "B"):
                before = {d["k"]: (d["get"][:2], d["uri"], d.get("reg")) for d in prev[R]["ds"]}
                after = {d["k"]: (d["get"][:2], d["uri"], d.get("reg")) for d in st[R]["ds"] if d["k"] in before}
                fresh_ks = [d["k"] for d in st[R]["ds"] if d["k"] not in before and (d.get("reg") is not None or d["get"][0] == "ok")]
                if fresh_ks:
                    fails.append((f"refused-op-left-dataset:{kind}:{st['out']}", n,
                                  f"step {n}: {kind} was refused ({st['out']}) but repo {R} now holds/registers the dataset(s) k={fresh_ks} it was about"))
                if before != after or prev[R]["files"] != st[R]["files"]:
                    tainted = any(e["taint"] for e in book[R].values())
                    if tainted:
                        sig = "template-collision:" + next(e["taint"] for e in book[R].values() if e["taint"])
                    else:
                        sig = f"refused-op-changed-state:{kind}:{st['out']}"
                    diff = [k for k in before if before[k] != after.get(k)]
                    fails.append((sig, n, f"step {n}: {kind} was refused ({st['out']}) but repo {R} changed: datasets {diff}, "
                                          f"files {sorted(set(prev[R]['files'].items()) ^ set(st[R]['files'].items()))[:4]}"))
        prev = st
    kinds = {o["op"] for o in h["ops"]}
    nontrivial = max_live >= 2 and len(kinds & {"remove", "xfer", "ingest"}) >= 1
    return fails, nontrivial


# ---------------------------------------------------------------------------------------------------------
# Coq encoding of a history with its observations
# ---------------------------------------------------------------------------------------------------------
def c_ident(h, ident):
    dt, inst, det, pf, run = ident
    data = [("instrument", inst)]
    i = next(x for x in h["setup"]["instruments"] if x["name"] == inst)
    if det is not None:
        data += [("detector", str(det)), ("detector.full_name", next(d["full_name"] for d in i["detectors"] if d["id"] == det))]
    if pf is not None:
        data += [("physical_filter", pf), ("band", next(f["band"] for f in i["filters"] if f["name"] == pf))]
    return f"(mkIdent {cstr(dt)} {clist(f'({cstr(k)}, {cstr(v)})' for k, v in data)} {cstr(run)})"


def c_res(x):
    if x[0] == "ok":
        return f"(inl {cn(x[1] if x[1] >= 0 else UNKNOWN)})"
    return f"(inr {cn(ERR_CODE.get(x[1], 99))})"


def c_robs(h, idents, ro, kind):
    ds = []
    for d in ro["ds"]:
        idn = idents[d["k"]]
        g = d.get("reg")
        wd = {"instrument": idn[1]}
        if idn[2] is not None:
            wd["detector"] = idn[2]
        if idn[3] is not None:
            wd["physical_filter"] = idn[3]
        regok = g is not None and g["type"] == idn[0] and g["run"] == idn[4] and g["dataId"] == wd and g["id_same"]
        fresh = copt(d.get("fresh"), c_res)
        ds.append(f"mkDobs {cn(d['k'])} {c_ident(h, idn)} {c_res(d['get'])} {fresh} {copt(d['uri'], cstr)} {cbool(regok)}")
    tags = []
    for t in ro["tags"]:
        f = t["found"]
        fv = "None" if f is None else (f"(Some {cn(f if isinstance(f, int) and f >= 0 else UNKNOWN)})")
        tags.append(f"({cstr(t['tag'])}, {c_ident(h, idents[t['k']])}, {fv})")
    files = [f"({cstr(p)}, {cz(s)})" for p, s in sorted(ro["files"].items())]
    return f"(mkRobs {clist(ds)} {clist(tags)} {clist(files)})"


def c_case(h, res):
    rep = payload_rep(h)
    idents = {}
    for op in h["ops"]:
        if op["op"] in ("put", "ingest") and op.get("reuse") is None:
            idents[op["k"]] = (op["dt"], op["inst"], op["det"], op["pf"], op["run"])
    steps = []
    for op, st in zip(h["ops"], res["steps"]):
        if st["out"] == "skipped":
            continue
        k = op["op"]
        if k == "remove":
            op = dict(op, ks=st.get("ks_used", op["ks"]))
        side = "OnA" if op.get("repo") == "A" else "OnB"
        fmt = FMT_ID[(h["cfgA"] if op.get("repo") == "A" else h["cfgB"])["fmt"]]
        if k == "put":
            w = f"{side} (cPut {cn(op['k'])} {c_ident(h, idents[op['k']])} {cn(rep[op['payload']])})"
        elif k == "ingest":
            idn = idents[op["k"]]
            w = (f"{side} (cIngest {cbool(op['move'])} {cn(op['k'])} {c_ident(h, idn)} "
                 f"({cn(fmt)}, {cn(rep[op['payload']])}, {cz(st.get('src_size', -1))}))")
        elif k == "xfer":
            w = f"{'XferBA' if op['to'] == 'A' else 'XferAB'} {cn(op['k'])}"
        elif k == "assoc":
            w = f"{side} (cAssoc {cstr(op['tag'])} {cn(op['k'])})"
        elif k == "disassoc":
            w = f"{side} (cDisassoc {cstr(op['tag'])} {cn(op['k'])})"
        else:
            w = f"{side} (cRemove {cbool(op['purge'])} {clist(cn(x) for x in op['ks'])})"
        code = ERR_CODE.get(st["out"], 99)
        steps.append(f"({w}, {cn(code)}, {c_robs(h, idents, st['A'], h['cfgA'])}, {c_robs(h, idents, st['B'], h['cfgB'])})")
    sizes = []
    for key, s in sorted(res["sizes"].items()):
        f, p = key.split(":")
        sizes.append(f"({cn(FMT_ID[f])}, {cn(rep[int(p)])}, {cz(s)})")
    ca = f"(mkCfg {KIND[h['cfgA']['ds']]} {cn(FMT_ID[h['cfgA']['fmt']])})"
    cb = f"(mkCfg {KIND[h['cfgB']['ds']]} {cn(FMT_ID[h['cfgB']['fmt']])})"
    return f"(mkCase {ca} {cb} {clist(sizes)} {clist(steps)})"


HDR = ("From Coq Require Import String Ascii List Bool ZArith NArith.\n"
       "From V Require Import Model.Template Model.Datastore Gen.TemplateGen Model.DatastoreCheck.\n"
       "Import ListNotations.\nOpen Scope string_scope.\n")


# ---------------------------------------------------------------------------------------------------------
def run_batch(ctx: Ctx, hists, origin, per_worker=6, timeout=600):
    """Run histories on the implementation (parallel workers), apply the oracle; returns [(h, res)] that completed."""
    chunks = [hists[i:i + per_worker] for i in range(0, len(hists), per_worker)]
    outs = parallel_workers("c01_impl", "run_histories", [{"histories": c} for c in chunks], timeout=timeout)
    done = []
    for chunk, (status, val) in zip(chunks, outs):
        if status != "ok":
            # a hang or crash of the real Butler on a history is itself a failure of the property's observables
            for h in chunk:
                one = run_worker("c01_impl", "run_histories", {"histories": [h]}, timeout=180)
                if one[0] != "ok":
                    ctx.oracle_fail(f"butler-{one[0]}", {"history": h, "detail": str(one[1])[:1500]},
                                    f"the implementation did not return ({one[0]}) on a put/ingest/transfer history")
                else:
                    done.append((h, one[1][0]))
            continue
        done.extend(zip(chunk, val))
    good = []
    for h, res in done:
        if "harness_error" in res:
            ctx.tie_broken("harness", "c01_impl", res["harness_error"] + res.get("tb", ""))
            continue
        if res.get("skipped"):
            continue
        fails, nontriv = oracle(ctx, h, res, origin)
        for op in h["ops"]:
            ctx.hist("ops", op["op"] + (":reuse" if op.get("reuse") is not None else "") + (":no-validation-info" if op.get("noval") else ""))
        ctx.hist("config", f"{h['cfgA']['ds']}/{h['cfgA']['fmt']}+{h['cfgB']['ds']}/{h['cfgB']['fmt']}")
        for st in res["steps"]:
            ctx.hist("outcome", st["out"])
        if nontriv:
            ctx.nontrivial({"ops": h["ops"], "cfg": [h["cfgA"], h["cfgB"]], "setup": h["setup"]})
        seen = set()
        for sig, n, what in fails:
            if sig in seen:
                continue
            seen.add(sig)
            ctx.hist("oracle", sig)
            known = any(k.get("status", "known") == "known" and re.fullmatch(k["signature"], sig) for k in ctx.known)
            hh = h
            if not known and sig not in {x for x, _ in ctx.oracle_failures} and len({x for x, _ in ctx.oracle_failures}) < 4:
                hh = shrink(ctx, h, sig)      # one shrink per new signature, at most 4 per run
            ctx.oracle_fail(sig, {"history": hh, "first_failing_step": n, "origin": origin,
                                  "how_to_replay": "./check C01 --replay <this file>"}, what)
        good.append((h, res))
    return good


def valid(h):
    """drop operations that refer to datasets never created"""
    made = {"A": set(), "B": set()}
    ops = []
    for op in h["ops"]:
        k = op["op"]
        if k == "put" or (k == "ingest" and op.get("reuse") is None):
            made[op["repo"]].add(op["k"])
        elif k == "ingest":
            if op["k"] not in made[op["repo"]]:
                continue
        elif k == "xfer":
            if op["k"] not in made[op["from"]]:
                continue
            made[op["to"]].add(op["k"])
        elif k in ("assoc", "disassoc"):
            if op["k"] not in made[op["repo"]]:
                continue
        elif k == "remove":
            ks = [x for x in op["ks"] if x in made[op["repo"]]]
            if not ks:
                continue
            op = dict(op, ks=ks)
        ops.append(op)
    return dict(h, ops=ops)


def shrink(ctx: Ctx, h, sig, budget=24):
    """Greedy one-op-at-a-time reduction that keeps the same failure signature."""
    def fails_same(hh):
        st, val = run_worker("c01_impl", "run_histories", {"histories": [hh]}, timeout=180)
        if st != "ok" or "steps" not in val[0]:
            return False
        class _N:   # counting sink
            def count(self, n=1):
                pass
        f, _ = oracle(_N(), hh, val[0], "shrink")
        return any(s == sig for s, _, _ in f)

    cur = h
    i = len(cur["ops"]) - 1
    while i >= 0 and budget > 0:
        cand = valid(dict(cur, ops=cur["ops"][:i] + cur["ops"][i + 1:]))
        budget -= 1
        if len(cand["ops"]) < len(cur["ops"]) and fails_same(cand):
            cur = cand
            i = min(i, len(cur["ops"])) - 1
        else:
            i -= 1
    return cur


def correspond(ctx: Ctx, name, pairs):
    cases = [c_case(h, res) for h, res in pairs]
    if not cases:
        return
    bad = ctx.coq_cases(name, HDR, cases, "chk_case", shard=40, timeout=900)
    for i in (bad or [])[:4]:
        h, res = pairs[i]
        rc, out = ctx.coq_eval(f"{name}_diag", HDR, f"diag_case {cases[i]}")
        m = re.search(r"=\s*(Some\s+(\d+)|None)", out)
        step = int(m.group(2)) if m and m.group(2) else None
        live = [(o, s) for o, s in zip(h["ops"], res["steps"]) if s["out"] != "skipped"]
        det = {"model_disagrees_at_step": step,
               "op": live[step][0] if step is not None and step < len(live) else None,
               "impl_outcome": live[step][1].get("out") if step is not None and step < len(live) else None,
               "impl_msg": live[step][1].get("msg") if step is not None and step < len(live) else None,
               "history": h}
        ctx.disagreement(name, det, "model and implementation differ on get / getURI / registry identity / tag lookup / root listing")


def template_cases(ctx: Ctx):
    """FileTemplate.format (+ formatter extension) vs the model's `format` on hostile names."""
    r = ctx.rng
    alphabet = "ab A_/.#-+,1"
    names = set(sum(COLLIDING_INST, [])) | set(PLAIN_INST) | {"a..b", ".x", "x.", "a//b", " a", "a ", "#", "a#b#", "..", "."}
    while len(names) < (40 if ctx.quick else 160):
        names.add("".join(r.choice(alphabet) for _ in range(r.randint(1, 7))))
    names = sorted(n for n in names if n.strip("/") == n or len(n) > 1)
    insts = []
    for nm in names:
        dn = ["".join(r.choice(alphabet) for _ in range(r.randint(1, 6))) for _ in range(2)]
        if dn[0] == dn[1]:
            dn[1] += "x"
        fl = r.sample(FILTERS, 2)
        insts.append({"name": nm, "detectors": [{"id": i + 1, "full_name": n} for i, n in enumerate(dn)],
                      "filters": [{"name": f, "band": b} for f, b in fl]})
    runs = RUNS_PLAIN + sum(RUNS_COLLIDING, []) + ["a/./b", "a//b", "x/../y", "../z", "a/../../z", "r.", ".r", "a b/c d", "a/b.c"]
    cases = []
    for i in insts:
        for dt in ("dtD", "dtL", "dtF"):
            for _ in range(2):
                cases.append({"dt": dt, "inst": i["name"], "det": r.choice(i["detectors"])["id"] if dt == "dtD" else None,
                              "pf": r.choice(i["filters"])["name"] if dt == "dtF" else None, "run": r.choice(runs)})
    fmt = r.choice(list(FMT_ID))
    st, val = run_worker("c01_impl", "format_paths", {"fmt": fmt, "instruments": insts, "cases": cases}, timeout=600)
    if st != "ok":
        ctx.tie_broken("correspondence", "template", f"worker {st}: {str(val)[:400]}")
        return
    h = {"setup": {"instruments": insts}}
    coq = []
    by_path = {}
    for c, o in zip(cases, val):
        ctx.count()
        idn = (c["dt"], c["inst"], c["det"], c["pf"], c["run"])
        f = _template_fields(h, idn)
        fl = [("datasetType", c["dt"]), ("run", c["run"]), ("instrument", c["inst"])]
        if c["det"] is not None:
            fl += [("detector", str(c["det"])), ("detector.full_name", f["detector.full_name"])]
        if c["pf"] is not None:
            fl += [("physical_filter", c["pf"]), ("band", f["band"])]
        want = o[1] if o[0] == "ok" else None
        coq.append(f"({clist(f'({cstr(k)}, {cstr(v)})' for k, v in fl)}, {cn(FMT_ID[fmt])}, {copt(want, cstr)})")
        ctx.hist("template", "ok" if o[0] == "ok" else o[1])
        if o[0] == "ok":
            # oracle for the template alone: the result stays inside the root
            if o[1].startswith("/") or o[1] == ".." or o[1].startswith("../") or "/../" in o[1]:
                ctx.oracle_fail("template-escapes-root", {"case": c, "path": o[1]}, "file template output leaves the datastore root")
            by_path.setdefault(o[1], set()).add(json.dumps(f, sort_keys=True))
            ctx.nontrivial(c)
    ncol = sum(1 for v in by_path.values() if len(v) > 1)
    ctx.hist("template", "distinct-datasets-same-path", ncol)
    bad = ctx.coq_cases("template", HDR, coq, "chk_template", shard=400)
    for i in (bad or [])[:4]:
        ctx.disagreement("template", {"case": cases[i], "impl": val[i]}, "model format differs from FileTemplate.format")
    ctx.sample({"template_case": cases[3], "impl": val[3], "coq": coq[3]})


def load_corpus():
    out = []
    for p in sorted((VERIF / "corpus" / "C01").glob("*.json")):
        out.append((p.name, json.loads(p.read_text())))
    return out


def run(ctx: Ctx):
    # known findings of this property: the assembled file is what main reads; a fragment not yet assembled counts too
    frag = VERIF / "known_findings.d" / "C01.json"
    if frag.exists():
        have = {k["id"] for k in ctx.known}
        ctx.known += [k for k in json.loads(frag.read_text()) if k["id"] not in have and k["property"] == "C01"]

    ctx.assumptions += [
        "formatter round trip dec(enc o) = o for every payload in the storage class's domain is a Section hypothesis (codec_roundtrip) of the theorems; "
        "it is sampled on every run with YAML, JSON and pickle on nested dict/list/scalar payloads with YAML/JSON edge cases",
        "payload domain: JSON-like values with string keys, no NaN; in-memory datastore stores by reference (mutation after put is not exercised)",
        "POSIX file system and SQLite behave as a path->bytes map and a table store (modelled, compared on every run through root listings and reads)",
        "translator harness/translators/template.py (string.Formatter().parse of the YAML templates, .replace tables read from FileTemplate.format's ast) is trusted; "
        "its output is compared with FileTemplate.format on hostile names on every run",
    ]
    ctx.cov["rule"] = (
        "a history is non-trivial when at least two datasets were stored at the same time in one repository and it contains "
        "an ingest, a transfer or a removal; every dataset ever created is read back (live Butler; freshly opened Butler on marked steps "
        "and at the end) after EVERY step; template cases are distinct (dataset type, data ID, run) triples formatted by the real datastore"
    )
    gen_ok = ctx.regen("template", tr.translate)
    ctx.regen("ingest_guard", tr_ingest.translate)      # Gen/IngestGuardGen.v: does _finishIngest refuse held datasets first?
    props_ok = ctx.build_props(extra_targets=["Model/DatastoreCheck.vo"])
    if not props_ok:
        coq_make(["Model/DatastoreCheck.vo"])

    if ctx.replay:
        rep = json.loads(Path(ctx.replay).read_text())
        h = rep.get("history")
        if h:
            pairs = run_batch(ctx, [h], "replay", per_worker=1)
            correspond(ctx, "replay", pairs)
        return

    # 1. corpus first
    corpus = load_corpus()
    pairs = run_batch(ctx, [h["history"] for _, h in corpus], "corpus", per_worker=2)
    for (name, c), (h, res) in zip(corpus, pairs):
        exp = c.get("expect_signature")
        if exp:
            f, _ = oracle(_Sink(), h, res, "corpus")
            if not any(re.fullmatch(exp, s) for s, _, _ in f):
                ctx.log(f"corpus {name}: the recorded failure ({exp}) no longer occurs on this tree")
                ctx.hist("corpus", f"{name}:no-longer-fails")
            else:
                ctx.hist("corpus", f"{name}:still-fails")
    # entries marked no_model use names outside the Coq model's domain ('%', percent-decoded by ResourcePath): oracle only
    correspond(ctx, "corpus", [pr for (name, c), pr in zip(corpus, pairs) if not c.get("no_model")])

    # 2. template-only cases
    template_cases(ctx)

    # 3. generated histories
    r = ctx.rng
    n_hist = 120 if ctx.quick else 600
    n_hist = int(os.environ.get("C01_NHIST", n_hist))      # development knob only; the registered command does not set it
    nops = (8, 16) if ctx.quick else (10, 28)
    hists = []
    for i in range(n_hist):
        collide = r.random() < 0.3
        hists.append(gen_history(r, r.randint(*nops), collide, pick_cfgs(r)))
    pairs = run_batch(ctx, hists, "generated")
    ctx.sample({"history": pairs[0][0]["ops"][:6], "setup": pairs[0][0]["setup"], "first_step_observation": pairs[0][1]["steps"][0]} if pairs else {})
    for k in range(0, len(pairs), 400):
        correspond(ctx, f"hist{k // 400}", pairs[k:k + 400])

    # 4. something no longer checks but the oracle held: search deeper on the implementation
    if ctx.broken and not ctx.oracle_failures:
        extra = [gen_history(r, r.randint(12, 30), r.random() < 0.3, pick_cfgs(r)) for _ in range(int(os.environ.get("C01_NSEARCH", 300 if ctx.quick else 1200)))]
        more = run_batch(ctx, extra, "search")
        ctx.cov["search"] = (f"{len(more)} additional histories (12-30 operations, all configurations) were run on the implementation "
                             f"with the property oracle after the tie/obligation broke; failures found: {len(ctx.oracle_failures)}")


class _Sink:
    def count(self, n=1):
        pass
