"""C02 -- Collections hold what the history says, one dataset per type + data ID.

Obligations: coq/Props/C02.v (induction over all histories of Model/Registry.v).
Tie K: random histories (deliberate collisions, id reuse, wrong collection types, unknown names, duplicate batch
       entries, stale refs) run on a real SQLite Butler registry in worker subprocesses; after EVERY step the
       outcome class and what every query interface / the raw tables report for EVERY (collection, type, data ID)
       is compared with the Coq model (vm_compute) -- Model/RegistryCheck.v; the same pass replays the ABSTRACT
       specification Model/RegistryAbs.v (astep, the map the theorems abs_commutes / contents_eq_abstract refine to)
       and compares its outcome, its memberships and its collections with the implementation while the history is honest.
Oracle (from the property text, independent of the Coq model): class `Spec` below, an abstract
       {collection -> {(type, data id) -> dataset}} map of the history, plus direct checks on the observations:
       uniqueness per (collection, type, data id) in every view, one RUN for life, RUN membership == run_of,
       TAGGED contents change only at associate / disassociate / remove steps, a refused op changes nothing.
"""
from __future__ import annotations

import copy
import glob
import json
import os
import random

from harness.common import VERIF, Ctx, parallel_workers

NCOLL, NTYPE, NVALID = 5, 3, 4          # collections 0..4 (5 never registered), types 0..2 (3 never), data ids 0..3 valid
NDET = 2
DOCUMENTED = {"Conflict", "MissingCollection", "MissingDatasetType", "CollectionTypeErr", "DataIdValueErr"}
# second layer: error classes documented for single operations only (removeCollection documents the raw IntegrityError for a
# collection that is still a child of a chain; certify of a dataset that does not exist fails on the foreign key)
DOCUMENTED_BY_OP = {"RemoveColl": {"SqlError"}, "Certify": {"SqlError", "DatasetTypeErr"}, "RemoveType": {"Orphaned"},
                    "SetChain": {"Cycle"}}
ERRCODE = {"Ok": 0, "OkNew": 1, "Err:Conflict": 2, "Err:MissingCollection": 3, "Err:MissingDatasetType": 4,
           "Err:CollectionTypeErr": 5, "Err:DataIdValueErr": 6, "Err:SqlError": 7, "Err:DatasetTypeErr": 8, "Err:Orphaned": 9,
           "Err:Cycle": 10}
XNCOLL = 6                              # second-layer histories: collections 0..5 (6 never registered)
CALIB_TYPE = 2                          # dt2 is the calibration dataset type
XHDR = ("From Coq Require Import NArith List.\nFrom V Require Import Model.Registry Model.RegistryAbs Model.RegistryCheck "
        "Model.RegistryX Model.RegistryXCheck.\nImport ListNotations.\nOpen Scope N_scope.\n")
XUNIV = f"[{';'.join(str(i) for i in range(XNCOLL + 1))}] [{';'.join(str(i) for i in range(NTYPE + 1))}] [0;1]"
XOPS = ("RegChain", "RegCalib", "SetChain", "Certify", "RemoveType")
HDR = ("From Coq Require Import NArith List.\nFrom V Require Import Model.Registry Model.RegistryAbs Model.RegistryCheck.\n"
       "Import ListNotations.\nOpen Scope N_scope.\n")
UNIV = f"[{';'.join(str(i) for i in range(NCOLL + 1))}] [{';'.join(str(i) for i in range(NTYPE + 1))}] [0;1]"


# =================================================================================================
# The abstract specification, written from the property statement (NOT from the Coq model)
# =================================================================================================
class Spec:
    """colls: name -> 'RUN'|'TAGGED'|'CHAINED'|'CALIBRATION'; types: set; ds: id -> (type, data id, run);
    member: RUN / TAGGED collection -> {(type, data id): dataset id};
    chain: CHAINED collection -> ordered children;  cal: certified memberships [c, t, d, i, b, e] (validity [b, e))."""

    def __init__(self):
        self.colls, self.types, self.ds, self.member = {}, set(), {}, {}
        self.chain, self.cal = {}, []

    def view(self):
        return sorted([c, t, d, i] for c, m in self.member.items() for (t, d), i in m.items())

    # ---- second layer: what a search path / a chain shows ------------------------------------------------
    def flatten(self, c, seen=None):
        seen = seen if seen is not None else set()
        if self.colls.get(c) != "CHAINED":
            return [c]
        if c in seen:
            return []
        out = []
        for ch in self.chain.get(c, []):
            out += self.flatten(ch, seen | {c})
        return out

    def holds(self, c):
        """set of (t, d, i) a non-chained collection holds"""
        if self.colls.get(c) == "CALIBRATION":
            return {(t, d, i) for c_, t, d, i, _, _ in self.cal if c_ == c}
        return {(t, d, i) for (t, d), i in self.member.get(c, {}).items()}

    def xview(self, c):
        """what a query over CHAINED / CALIBRATION collection c must report: the union over the flattened children"""
        out = set()
        for ch in self.flatten(c):
            out |= {(c, t, d, i) for t, d, i in self.holds(ch)}
        return out

    def xfirst(self, c):
        """find-first over a chain, non-calibration dataset types: the first child that holds the key"""
        out = {}
        for ch in self.flatten(c):
            for t, d, i in self.holds(ch):
                if t != CALIB_TYPE:
                    out.setdefault((c, t, d), i)
        return {k + (i,) for k, i in out.items()}

    def reach(self, c, seen=None):
        """chained collections reachable from c (c included)"""
        seen = seen if seen is not None else set()
        if self.colls.get(c) != "CHAINED" or c in seen:
            return set()
        out = {c}
        for ch in self.chain.get(c, []):
            out |= self.reach(ch, seen | {c})
        return out

    def judge(self, op):
        """-> (verdict, new Spec | None); verdict in accept | conflict | invalid | either | noop_any.
        accept: must succeed and produce the new state;  conflict: would break uniqueness, must be refused with the
        conflict error;  invalid: an argument is invalid, must be refused with a documented error;
        either: the property text does not decide (a batch naming the same new dataset twice);
        noop_any: empty batch, any outcome but nothing may change."""
        n = copy.deepcopy(self)
        k = op[0]
        if k in ("RegRun", "RegTag"):
            if op[1] not in n.colls:
                n.colls[op[1]] = "RUN" if k == "RegRun" else "TAGGED"
                n.member[op[1]] = {}
            return "accept", n
        if k in ("RegChain", "RegCalib"):
            if op[1] not in n.colls:
                n.colls[op[1]] = "CHAINED" if k == "RegChain" else "CALIBRATION"
                if k == "RegChain":
                    n.chain[op[1]] = []
            return "accept", n
        if k == "SetChain":
            _, c, children = op
            ch = list(dict.fromkeys(children))
            if n.colls.get(c) != "CHAINED" or any(x not in n.colls for x in ch):
                return "invalid", None
            if any(c in self.reach(x) for x in ch):
                return "invalid", None              # would close a cycle
            n.chain[c] = ch
            return "accept", n
        if k == "Certify":
            _, c, items, b, ln = op
            e = b + 1 + ln
            if not items:
                return "noop_any", None
            if n.colls.get(c) != "CALIBRATION" or any(t not in n.types or t != CALIB_TYPE for _, t, _, _ in items):
                return "invalid", None
            if any(self.ds.get(i) != (t, d, r) for i, t, d, r in items):
                return "invalid", None              # stale / unknown dataset
            keys = [(t, d) for _, t, d, _ in items]
            if len(keys) != len(set(keys)):
                return "conflict", None             # two datasets (or one twice) for one key and one validity range
            for c_, t, d, i, b_, e_ in self.cal:
                if c_ == c and (t, d) in keys and b_ < e and b < e_:
                    return "conflict", None         # overlapping validity range for the key
            for i, t, d, _ in items:
                n.cal.append([c, t, d, i, b, e])
            return "accept", n
        if k == "RemoveType":
            t = op[1]
            if t not in n.types:
                return "accept", n                  # documented: returns without action
            if any(t_ == t for t_, _, _ in n.ds.values()):
                return "orphaned", None
            n.types.discard(t)
            return "accept", n
        if k == "RegType":
            n.types.add(op[1])
            return "accept", n
        if k == "Insert":
            _, t, c, items = op
            if not items:
                return "noop_any", None
            if t not in n.types or n.colls.get(c) != "RUN" or any(d >= NVALID for d, _ in items):
                return "invalid", None
            for d, i in items:
                if (t, d) in n.member[c] or i in n.ds:
                    return "conflict", None
                n.member[c][(t, d)] = i
                n.ds[i] = (t, d, c)
            return "accept", n
        if k == "Import":
            _, c, items = op
            if not items:
                return "noop_any", None
            if n.colls.get(c) != "RUN" or any(t not in n.types or d >= NVALID for _, t, d in items):
                return "invalid", None
            verdict = "accept"
            seen = {}
            for i, t, d in items:
                if i in seen:
                    if seen[i] != (t, d):
                        return "conflict", None
                    verdict = "either"
                    continue
                seen[i] = (t, d)
                if i in self.ds:
                    if self.ds[i] != (t, d, c):
                        return "conflict", None       # same dataset id, different definition
                    continue                           # already there: ignored
                if (t, d) in n.member[c]:
                    return "conflict", None
                n.member[c][(t, d)] = i
                n.ds[i] = (t, d, c)
            return verdict, n
        if k in ("Assoc", "Disassoc"):
            _, c, items = op
            if not items:
                return "noop_any", None
            if n.colls.get(c) != "TAGGED" or any(t not in n.types for _, t, _, _ in items):
                return "invalid", None
            if k == "Assoc":
                if any(self.ds.get(i) != (t, d, r) for i, t, d, r in items):
                    return "invalid", None              # stale / unknown dataset
                for i, t, d, _ in items:
                    cur = n.member[c].get((t, d))
                    if cur is not None and cur != i:
                        return "conflict", None
                    n.member[c][(t, d)] = i
                return "accept", n
            for i, t, d, _ in items:
                if n.member[c].get((t, d)) == i:
                    del n.member[c][(t, d)]
            return "accept", n
        if k == "RemoveDs":
            for i, _, _, _ in op[1]:
                if i in n.ds:
                    del n.ds[i]
                    for m in n.member.values():
                        for key in [key for key, v in m.items() if v == i]:
                            del m[key]
                    n.cal = [r for r in n.cal if r[3] != i]      # a removed dataset leaves every calibration collection too
            return "accept", n
        if k == "RemoveColl":
            c = op[1]
            if c not in n.colls:
                return "invalid", None
            if any(c in ch for ch in n.chain.values()):
                return "invalid", None              # still a child of a chain: documented to be refused
            if n.colls[c] == "RUN":
                gone = {i for i, (_, _, r) in n.ds.items() if r == c}
                for i in gone:
                    del n.ds[i]
                for m in n.member.values():
                    for key in [key for key, v in m.items() if v in gone]:
                        del m[key]
                n.cal = [r for r in n.cal if r[3] not in gone]
            n.cal = [r for r in n.cal if r[0] != c]
            n.chain.pop(c, None)
            del n.colls[c]
            n.member.pop(c, None)
            return "accept", n
        raise ValueError(op)


# =================================================================================================
# generator
# =================================================================================================
def gen_history(rng: random.Random, length: int, ext: bool = False):
    """ext=True: second-layer history (CHAINED / CALIBRATION collections, setCollectionChain, certify, removeDatasetType
    mixed into the first-layer stream, over XNCOLL collection names).
    Generated against the abstract state so that most ops are valid; about a quarter come from a malformed
    stream (unknown names, wrong collection type, stale / never-existing refs, duplicate batch entries,
    invalid data ids, colliding keys, reused ids)."""
    sp = Spec()
    hist = []
    fresh = [100]
    dead: dict[int, tuple] = {}     # ids that existed once: last definition (t, d, run)

    def newid():
        fresh[0] += 1
        return fresh[0]

    nc = XNCOLL if ext else NCOLL

    def anyc():
        return rng.randrange(nc + 1)

    def xop():
        """one second-layer operation"""
        y = rng.random()
        chained = [c for c, k in sp.colls.items() if k == "CHAINED"]
        calib = [c for c, k in sp.colls.items() if k == "CALIBRATION"]
        if y < 0.08 or not chained and y < 0.3:
            return ["RegChain", anyc()]
        if y < 0.16 or not calib and y < 0.5:
            return ["RegCalib", anyc()]
        if y < 0.42:
            c = rng.choice(chained) if chained and rng.random() > 0.1 else anyc()
            pool = sorted(sp.colls) if sp.colls and rng.random() > 0.12 else list(range(nc + 1))
            ch = [rng.choice(pool) for _ in range(rng.choice([0, 1, 2, 2, 3, 3]))]
            return ["SetChain", c, ch]
        if y < 0.82:
            c = rng.choice(calib) if calib and rng.random() > 0.12 else anyc()
            cands = sorted(i for i, (t, _, _) in sp.ds.items() if t == CALIB_TYPE)
            items = []
            for _ in range(rng.choice([0, 1, 1, 1, 2, 2, 3])):
                if cands and rng.random() > 0.12:
                    i = rng.choice(cands)
                    t, d, r = sp.ds[i]
                    items.append([i, t, d, r])
                else:
                    items.append(someref())
            if items and rng.random() < 0.08:
                items.append(list(items[0]))
            b = rng.randrange(6)
            return ["Certify", c, items, b, rng.choice([0, 0, 1, 2, 4])]
        if y < 0.92:
            return ["RemoveType", rng.randrange(NTYPE + 1)]
        return ["RemoveColl", rng.choice(sorted(sp.colls)) if sp.colls else anyc()]

    def pick(kind, bad=0.15):
        good = [c for c, k in sp.colls.items() if k == kind]
        if good and rng.random() > bad:
            return rng.choice(good)
        return anyc()

    def pickt(bad=0.1):
        if sp.types and rng.random() > bad:
            return rng.choice(sorted(sp.types))
        return rng.randrange(NTYPE + 1)

    def pickd(bad=0.05):
        return rng.randrange(NVALID) if rng.random() > bad else NVALID + rng.randrange(2)

    def someref(p_dead=0.15, p_fake=0.05):
        x = rng.random()
        if sp.ds and x > p_dead + p_fake:
            i = rng.choice(sorted(sp.ds))
            t, d, r = sp.ds[i]
            return [i, t, d, r]
        if dead and x > p_fake:
            i = rng.choice(sorted(dead))
            if i not in sp.ds:
                t, d, r = dead[i]
                return [i, t, d, r]
        if sp.ds and rng.random() < 0.5:
            i = rng.choice(sorted(sp.ds))
            t, d, r = sp.ds[i]
            return [i, t, d, r]
        return [900 + rng.randrange(5), rng.randrange(NTYPE + 1), rng.randrange(NVALID), anyc()]

    prefix = [["RegRun", anyc()], ["RegRun", anyc()], ["RegTag", anyc()], ["RegTag", anyc()],
              ["RegType", rng.randrange(NTYPE)], ["RegType", rng.randrange(NTYPE)]]
    if ext:
        prefix = [["RegRun", anyc()], ["RegRun", anyc()], ["RegTag", anyc()], ["RegCalib", anyc()], ["RegChain", anyc()],
                  ["RegType", CALIB_TYPE], ["RegType", rng.randrange(NTYPE)]]
    rng.shuffle(prefix)
    while len(hist) < length:
        if ext and len(hist) >= len(prefix) and rng.random() < 0.33:
            op = xop()
            hist.append(op)
            verdict, n = sp.judge(op)
            if verdict == "accept" and n is not None:
                for i, v in sp.ds.items():
                    if i not in n.ds:
                        dead[i] = v
                sp = n
            continue
        x = rng.random()
        if not sp.ds and 0.55 <= x < 0.93 and rng.random() < 0.85:
            x = 0.17 + rng.random() * 0.38        # nothing to associate / remove yet: insert or import instead
        nrun = sum(1 for k in sp.colls.values() if k == "RUN")
        ntag = sum(1 for k in sp.colls.values() if k == "TAGGED")
        if len(hist) < len(prefix) and rng.random() < 0.85:
            op = prefix[len(hist)]
        elif x < 0.06 or nrun == 0 and x < 0.3:
            op = ["RegRun", anyc()]
        elif x < 0.12 or ntag == 0 and x < 0.3:
            op = ["RegTag", anyc()]
        elif x < 0.17 or not sp.types and x < 0.4:
            op = ["RegType", rng.randrange(NTYPE + 1) if rng.random() < 0.1 else rng.randrange(NTYPE)]
        elif x < 0.37:
            n = rng.choice([0, 1, 1, 1, 2, 2, 3])
            items = [[pickd(), newid()] for _ in range(n)]
            if len(items) > 1 and rng.random() < 0.15:
                items[-1][0] = items[0][0]                       # duplicate data id inside the batch
            op = ["Insert", CALIB_TYPE if ext and rng.random() < 0.35 else pickt(), pick("RUN"), items]
        elif x < 0.55:
            c = pick("RUN")
            n = rng.choice([0, 1, 1, 2, 2, 3])
            items = []
            for _ in range(n):
                y = rng.random()
                if y < 0.35 and sp.ds:                            # re-import of an existing id, same or changed definition
                    i = rng.choice(sorted(sp.ds))
                    t, d, r = sp.ds[i]
                    z = rng.random()
                    if z < 0.5:
                        c = r if rng.random() < 0.8 else c
                    elif z < 0.7:
                        d = pickd()
                    elif z < 0.85:
                        t = pickt()
                    items.append([i, t, d])
                elif y < 0.5 and dead:                            # a dataset id that existed before and was removed
                    i = rng.choice(sorted(dead))
                    t, d, _ = dead[i]
                    if rng.random() < 0.4:
                        t, d = pickt(), pickd()
                    items.append([i, t, d])
                else:
                    items.append([newid(), pickt(), pickd()])
            if items and rng.random() < 0.12:
                items.append(list(items[0]))                       # same ref twice
            if len(items) > 1 and rng.random() < 0.12:
                items[-1][1], items[-1][2] = items[0][1], items[0][2]   # two ids, same key
            op = ["Import", c, items]
        elif x < 0.75:
            n = rng.choice([0, 1, 1, 2, 2, 3, 4])
            items = [someref() for _ in range(n)]
            if items and rng.random() < 0.1:
                items.append(list(items[0]))
            op = ["Assoc", pick("TAGGED"), items]
        elif x < 0.85:
            n = rng.choice([0, 1, 1, 2, 3])
            c = pick("TAGGED")
            items = []
            for _ in range(n):
                m = sp.member.get(c) or {}
                if m and rng.random() < 0.7:
                    (t, d), i = rng.choice(sorted(m.items()))
                    items.append([i, t, d, sp.ds[i][2]])
                else:
                    items.append(someref())
            op = ["Disassoc", c, items]
        elif x < 0.93:
            n = rng.choice([0, 1, 1, 2])
            op = ["RemoveDs", [someref(p_dead=0.1) for _ in range(n)]]
        else:
            op = ["RemoveColl", rng.choice(sorted(sp.colls)) if sp.colls and rng.random() < 0.8 else anyc()]
        hist.append(op)
        verdict, n = sp.judge(op)
        if verdict == "accept" and n is not None:      # 'either' (same new ref twice) is refused by the code as it stands
            for i, v in sp.ds.items():
                if i not in n.ds:
                    dead[i] = v
            sp = n
    return hist


# =================================================================================================
# oracle on one executed history
# =================================================================================================
def opname(op):
    return op[0]


def check_history(ctx: Ctx, hist, steps, origin):
    """Evaluate the property on the implementation's observations; returns True when some oracle failed."""
    sp = Spec()
    prev = None
    failed = False

    def fail(kind, i, what, extra=None):
        nonlocal failed
        failed = True
        op = hist[i]
        sig = f"{kind}:{opname(op)}:{steps[i]['out']}"
        ctx.oracle_fail(sig, {"history": hist[: i + 1], "step": i, "op": op, "outcome": steps[i]["out"], "origin": origin,
                              "cached": origin.endswith("/caching_context"), "observed": _brief(steps[i]["obs"]), "detail": extra}, what)

    for i, (op, st) in enumerate(zip(hist, steps)):
        out, obs = st["out"], st["obs"]
        ctx.count()
        verdict, nxt = sp.judge(op)
        ctx.hist("ops", opname(op))
        ctx.hist("outcomes", out)
        ctx.hist("verdicts", verdict)
        ok = out in ("Ok", "OkNew")
        # ---- outcome against the statement
        if not ok and out[4:] not in DOCUMENTED | DOCUMENTED_BY_OP.get(opname(op), set()):
            fail("undocumented-error", i, f"{opname(op)} failed with an undocumented error class {out}")
        if verdict == "accept" and not ok:
            fail("valid-op-refused", i, f"a valid {opname(op)} that breaks no uniqueness was refused with {out}")
        elif verdict == "conflict" and out != "Err:Conflict":
            fail("conflict-not-refused", i, f"{opname(op)} that would put two datasets under one (type, data ID) in a collection "
                                            f"(or redefine a dataset id) was not refused with the conflict error: {out}")
        elif verdict == "invalid" and ok:
            fail("invalid-op-accepted", i, f"{opname(op)} with invalid arguments was accepted")
        elif verdict == "orphaned" and out != "Err:Orphaned":
            fail("type-removed-with-datasets", i, f"removeDatasetType of a type that still has datasets was not refused with OrphanedRecordError: {out}")
        elif verdict == "either" and not (ok or out == "Err:Conflict"):
            fail("valid-op-refused", i, f"{opname(op)} refused with {out}")
        if ok and verdict in ("accept", "either"):
            sp = nxt
        # ---- contents against the abstract map, through every interface
        want = sp.view()
        for vname, rows in list(obs["views"].items()) + [("raw_tags", obs["raw_tags"])]:
            if rows != want:
                kind = "refused-op-changed-contents" if not ok else "contents-differ"
                fail(f"{kind}:{vname}", i, f"after {opname(op)} -> {out} the contents reported by {vname} differ from the history's",
                     {"view": vname, "got_minus_want": [r for r in rows if r not in want][:6], "want_minus_got": [r for r in want if r not in rows][:6]})
                break
        want_ds = sorted([i_, t, r] for i_, (t, d, r) in sp.ds.items())
        if obs["raw_ds"] != want_ds:
            fail("datasets-differ", i, f"after {opname(op)} -> {out} the dataset table differs from the history's", {"got": obs["raw_ds"], "want": want_ds})
        want_c = sorted([c, k] for c, k in sp.colls.items())
        if obs["colls"] != want_c or obs["raw_colls"] != want_c or obs["colls_listed"] != [c for c, _ in want_c]:
            fail("collections-differ", i, f"after {opname(op)} -> {out} the collections differ from the history's",
                 {"api": obs["colls"], "raw": obs["raw_colls"], "listed": obs["colls_listed"], "want": want_c})
        if obs["types"] != sorted(sp.types) or obs["raw_types"] != sorted(sp.types):
            fail("types-differ", i, f"after {opname(op)} -> {out} the dataset types differ from the history's")
        if "x" in obs and check_x(sp, obs, fail, i, op, out, ok):
            pass
        # ---- summaries over-approximate
        need_t = {(c, t) for c, t, _, _ in want}
        need_g = {(c, d // NDET) for c, _, d, _ in want}
        for nm, have_t, have_g in (("api", obs["summ_t"], obs["summ_g"]), ("raw", obs["raw_summ_t"], obs["raw_summ_g"])):
            if not need_t <= {tuple(x) for x in have_t} or not need_g <= {tuple(x) for x in have_g}:
                fail(f"summary-misses:{nm}", i, f"the collection summary ({nm}) lacks a dataset type / governor value that the collection holds")
        # ---- direct statements on the observations
        for vname, rows in list(obs["views"].items()) + [("raw_tags", obs["raw_tags"])]:
            keys = [tuple(r[:3]) for r in rows]
            if len(keys) != len(set(keys)):
                fail(f"two-datasets-one-key:{vname}", i, f"{vname} reports two datasets with the same dataset type and data ID in one collection")
        runs = {c for c, k in obs["colls"] if k == "RUN"}
        in_runs = sorted([c, i_] for c, t, d, i_ in obs["raw_tags"] if c in runs)
        if in_runs != sorted([r, i_] for i_, t, r in obs["raw_ds"]):
            fail("run-membership", i, "RUN membership differs from the datasets' runs (a dataset must be in exactly its own RUN)")
        if prev is not None:
            pds = {i_: r for i_, t, r in prev["raw_ds"]}
            for i_, t, r in obs["raw_ds"]:
                if i_ in pds and pds[i_] != r:
                    fail("run-changed", i, f"dataset {i_} moved from run {pds[i_]} to run {r} while alive")
            tagged = {c for c, k in obs["colls"] if k == "TAGGED"} & {c for c, k in prev["colls"] if k == "TAGGED"}
            before = [r for r in prev["raw_tags"] if r[0] in tagged]
            after = [r for r in obs["raw_tags"] if r[0] in tagged]
            if before != after and opname(op) not in ("Assoc", "Disassoc", "RemoveDs", "RemoveColl"):
                fail("tagged-changed", i, f"TAGGED contents changed at a {opname(op)} step")
            if opname(op) == "Certify" and prev["raw_tags"] != obs["raw_tags"]:
                fail("certify-wrote-tag-rows", i, "certify changed the tag rows: certify membership must not be TAGGED / RUN membership")
            if not ok and _observables(prev) != _observables(obs):
                fail("refused-op-changed-state", i, f"{opname(op)} was refused with {out} but an observable changed")
        for k_, v in obs["probe_errors"].items():
            ctx.hist("probe_errors", k_, v)
        prev = obs
        if failed:
            break           # later steps of this history would only echo the first failure
    return failed


def _observables(obs):
    x = obs.get("x") or {}
    return json.dumps([obs["views"], obs["raw_tags"], obs["raw_ds"], obs["colls"], obs["types"], obs["colls_listed"],
                       obs.get("raw_cal"), obs.get("raw_chain"), {k: v for k, v in x.items() if not k.startswith("summ")}], sort_keys=True)


def check_x(sp, obs, fail, i, op, out, ok):
    """Second layer, from the statement: a chain shows the union of what its flattened children hold (every interface);
    a CALIBRATION collection shows exactly the certified memberships; certify membership is no tag row; removals cascade."""
    x = obs["x"]
    kind = "refused-op-changed-contents" if not ok else "contents-differ"
    xc = sorted(c for c, k in sp.colls.items() if k in ("CHAINED", "CALIBRATION"))
    want = set()
    for c in xc:
        want |= sp.xview(c)
    for vname in ("qd", "bq"):
        got = {tuple(r) for r in x[vname]}
        if got != want:
            fail(f"{kind}:x-{vname}", i, f"after {opname(op)} -> {out} what {vname} reports for the CHAINED / CALIBRATION collections differs from "
                 "the union over their flattened children / the certified memberships",
                 {"got_minus_want": sorted(got - want)[:6], "want_minus_got": sorted(want - got)[:6]})
            return True
    want_chain = set()
    for c in xc:
        if sp.colls[c] == "CHAINED":
            want_chain |= sp.xview(c)
    if {tuple(r) for r in x["qa_chain"]} != want_chain:
        fail(f"{kind}:x-qa", i, f"after {opname(op)} -> {out} queryDatasetAssociations over a chain differs from the union over its children")
        return True
    want_cal = sorted(r for r in sp.cal)
    if obs["raw_cal"] != want_cal or x["qa_cal"] != want_cal:
        fail(f"{kind}:calib-rows", i, f"after {opname(op)} -> {out} the certified memberships (raw rows / queryDatasetAssociations) differ from the history's",
             {"raw": obs["raw_cal"][:8], "api": x["qa_cal"][:8], "want": want_cal[:8]})
        return True
    want_first = set()
    for c in xc:
        if sp.colls[c] == "CHAINED":
            want_first |= sp.xfirst(c)
    for vname in ("first", "fd"):
        if {tuple(r) for r in x[vname]} != want_first:
            fail(f"{kind}:x-{vname}", i, f"after {opname(op)} -> {out} find-first over a chain ({vname}) is not the first child that holds the key",
                 {"got": x[vname][:8], "want": sorted(want_first)[:8]})
            return True
    want_def = sorted([c] + list(sp.chain.get(c, [])) for c in xc if sp.colls[c] == "CHAINED")
    if x["chains"] != want_def or obs["raw_chain"] != [r for r in want_def if len(r) > 1]:
        fail("chain-definition-differs", i, f"after {opname(op)} -> {out} the chain definitions differ from the history's",
             {"api": x["chains"], "raw": obs["raw_chain"], "want": want_def})
        return True
    # at any instant at most one certified dataset per (collection, type, data ID)
    rows = obs["raw_cal"]
    for a in range(len(rows)):
        for b_ in range(a + 1, len(rows)):
            if rows[a][:3] == rows[b_][:3] and rows[a][4] < rows[b_][5] and rows[b_][4] < rows[a][5]:
                fail("two-datasets-one-key:calib", i, "two certified memberships with the same dataset type and data ID have overlapping validity ranges")
                return True
    need_t = {(c, t) for c, t, _, _ in want}
    need_g = {(c, d // NDET) for c, _, d, _ in want}
    if not need_t <= {tuple(r) for r in x["summ_t"]} or not need_g <= {tuple(r) for r in x["summ_g"]}:
        fail("summary-misses:x", i, "the summary of a CHAINED / CALIBRATION collection lacks a dataset type / governor value that it holds")
        return True
    return False


def _brief(obs):
    return {"raw_tags": obs["raw_tags"], "raw_ds": obs["raw_ds"], "colls": obs["colls"], "types": obs["types"],
            "views_equal_raw": {k: v == obs["raw_tags"] for k, v in obs["views"].items()}}


def domain_cut(hist, steps):
    """Index of the first op that hands associate / disassociate / removeDatasets a FORGED ref: the dataset id is alive
    in the implementation's own tables (observed after the previous step) under a different dataset type, data ID or
    run.  The registry trusts resolved refs; such inputs are outside the property's domain (design.d/C02.md), so a
    history is compared up to that op only.  Decided on observations, so it holds whatever the generator believed."""
    for i, op in enumerate(hist):
        if i == 0 or op[0] not in ("Assoc", "Disassoc", "RemoveDs", "Certify"):
            continue
        obs = steps[i - 1]["obs"]
        alive = {i_: (t, r) for i_, t, r in obs["raw_ds"]}
        data = {(c, i_): d for c, t, d, i_ in obs["raw_tags"]}
        for i_, t, d, r in (op[2] if op[0] != "RemoveDs" else op[1]):
            if i_ in alive and (alive[i_] != (t, r) or data.get((r, i_)) != d):
                return i
    return len(hist)


def nontrivial_rule(hist, steps):
    """A history counts when it contains at least one refused uniqueness conflict, one accepted associate that
    changed a TAGGED collection, one accepted import/insert, and one removal step that deleted rows."""
    conflict = any(s["out"] == "Err:Conflict" for s in steps)
    assoc = ins = rem = False
    prev = []
    for op, s in zip(hist, steps):
        cur = s["obs"]["raw_tags"]
        okk = s["out"] in ("Ok", "OkNew")
        if okk and op[0] == "Assoc" and cur != prev:
            assoc = True
        if okk and op[0] in ("Insert", "Import") and len(cur) > len(prev):
            ins = True
        if okk and op[0] in ("RemoveDs", "RemoveColl", "Disassoc") and len(cur) < len(prev):
            rem = True
        prev = cur
    return conflict and assoc and ins and rem


# =================================================================================================
# Coq literals
# =================================================================================================
def nn(x):
    return str(x) if x >= 0 else "999999"


def cll(rows):
    return "[" + ";".join("[" + ";".join(nn(x) for x in r) + "]" for r in rows) + "]"


def cop(op):
    k = op[0]
    if k == "RegRun":
        return f"RegisterRun {op[1]}"
    if k == "RegTag":
        return f"RegisterTagged {op[1]}"
    if k == "RegType":
        return f"RegisterType {op[1]}"
    if k == "Insert":
        return f"Insert {op[1]} {op[2]} [{';'.join(f'({d},{i})' for d, i in op[3])}]"
    if k == "Import":
        return f"Import {op[1]} [{';'.join(f'Ref {i} {t} {d}' for i, t, d in op[2])}]"
    if k in ("Assoc", "Disassoc"):
        nm = "Associate" if k == "Assoc" else "Disassociate"
        return f"{nm} {op[1]} [{';'.join(f'Ref {i} {t} {d}' for i, t, d, _ in op[2])}]"
    if k == "RemoveDs":
        return f"RemoveDatasets [{';'.join(str(i) for i, _, _, _ in op[1])}]"
    if k == "RemoveColl":
        return f"RemoveCollection {op[1]}"
    raise ValueError(op)


def cobs(out, obs):
    code = ERRCODE.get(out, 99)
    tc = {"RUN": 1, "TAGGED": 2}
    pr = obs["views"].get("qp", obs["raw_tags"])
    return ("(Obs %d %s %s %s %s %s %s %s %s)" % (
        code, cll([[c, tc.get(k, 9)] for c, k in obs["colls"]]), cll([[t] for t in obs["types"]]), cll(obs["raw_ds"]),
        cll(obs["raw_tags"]), cll(obs["views"]["qd"]), cll(pr), cll(obs["summ_t"]), cll(obs["summ_g"])))


def xcop(op):
    k = op[0]
    if k == "RegChain":
        return f"RegisterChained {op[1]}"
    if k == "RegCalib":
        return f"RegisterCalib {op[1]}"
    if k == "SetChain":
        return f"SetChain {op[1]} [{';'.join(str(c) for c in op[2])}]"
    if k == "Certify":
        return f"Certify {op[1]} [{';'.join(f'Ref {i} {t} {d}' for i, t, d, _ in op[2])}] {op[3]} {op[4]}"
    if k == "RemoveType":
        return f"RemoveType {op[1]}"
    return f"Base ({cop(op)})"


def xcobs(out, obs):
    x = obs["x"]
    kc = {"CHAINED": 3, "CALIBRATION": 4}
    base = dict(obs, colls=[[c, k] for c, k in obs["colls"] if k in ("RUN", "TAGGED")])
    view = sorted({tuple(r) for r in x["qd"]})
    return ("(XObs %d %s %s %s %s %s %s %s %s)" % (
        ERRCODE.get(out, 99), cobs("Ok", base), cll([[c, kc[k]] for c, k in obs["colls"] if k in kc]), cll(x["chains"]),
        cll(obs["raw_cal"]), cll(view), cll(x["first"]), cll(x["summ_t"]), cll(x["summ_g"])))


def xccase(hist, steps):
    return "[" + ";\n   ".join(f"({xcop(op)}, {xcobs(s['out'], s['obs'])})" for op, s in zip(hist, steps)) + "]"


def ccase(hist, steps):
    return "[" + ";\n   ".join(f"({cop(op)}, {cobs(s['out'], s['obs'])})" for op, s in zip(hist, steps)) + "]"


# =================================================================================================
def is_ext(h):
    return any(op[0] in XOPS for op in h)


def execute(ctx: Ctx, hists, full=True, chunk=2, timeout=900, cached=None):
    """Run histories on the real registry in worker subprocesses; returns list of steps (None when the worker hung
    or crashed, which is reported)."""
    cached = cached or [False] * len(hists)
    payloads = [{"histories": hists[i:i + chunk], "ncoll": XNCOLL if any(is_ext(h) for h in hists[i:i + chunk]) else NCOLL,
                 "ntype": NTYPE, "full": full, "cached": cached[i:i + chunk]}
                for i in range(0, len(hists), chunk)]
    res = parallel_workers("c02_impl", "run_histories", payloads, timeout=timeout)
    out = []
    for pl, (status, r) in zip(payloads, res):
        if status != "ok":
            for h in pl["histories"]:
                out.append(None)
                ctx.oracle_fail(f"worker-{status}", {"history": h, "detail": (r or "")[-1500:] if isinstance(r, str) else None},
                                f"running the history on the implementation ended in a {status}")
        else:
            out.extend(x["steps"] for x in r)
    return out


def run(ctx: Ctx):
    ctx.assumptions += [
        "SQLite enforces PRIMARY KEY / UNIQUE / FOREIGN KEY ... ON DELETE CASCADE on the tags, dataset and summary tables as the "
        "model's insert primitives do (exercised by the correspondence on every run)",
        "the refinement theorems (abs_commutes, contents_eq_abstract) are stated for HONEST histories: every associate is handed refs "
        "whose dataset type and data ID are those of the dataset's memberships (abs_commutes_step: needed for import only); "
        "abs_commutes_guarded widens this to histories with forged associates whose imports satisfy import_guard",
        "one dimension group {instrument, detector}; PostgreSQL backend and datastore records are outside the model; CHAINED / "
        "CALIBRATION collections, certify, setCollectionChain and removeDatasetType are modelled in the second layer "
        "(Model/RegistryX.v: no decertify, validity ranges over a finite grid of instants, dt2 = the calibration dataset type); "
        "acyclicity of chain definitions is C03's subject (the second layer's flatten carries fuel = number of chains + 1)",
        "refs handed to associate / disassociate / removeDatasets are ones the registry returned earlier (possibly stale) "
        "or refer to datasets that never existed; a forged ref (live id with a different type or data ID) is outside the domain",
    ]
    ctx.cov["rule"] = (
        "a history (30 ops quick / 80 thorough over 5+1 collection names, 3+1 dataset types, 4+2 data ids, ids reused on "
        "purpose) is non-trivial when it contains at least one refused uniqueness conflict, one accepted associate that "
        "changed a TAGGED collection, one accepted insert/import and one removal that deleted tag rows; every step of every "
        "history is probed through 8 interfaces over every (collection, type, data id); one third of the generated histories are "
        "second-layer histories (6+1 names; CHAINED / CALIBRATION collections, setCollectionChain, certify, removeDatasetType mixed "
        "in; chains and calibration collections probed through queryDatasets, query_datasets, queryDatasetAssociations, find-first, "
        "find_dataset, getCollectionChain, summaries, raw dataset_calibs_* and collection_chain rows)"
    )
    props_ok = ctx.build_props(extra_targets=["Model/RegistryCheck.vo", "Model/RegistryXCheck.vo"])
    if not props_ok:
        from harness.common import coq_make
        coq_make(["Model/RegistryCheck.vo", "Model/RegistryXCheck.vo"])

    # ---- corpus first
    hists, origins = [], []
    for f in sorted(glob.glob(str(VERIF / "corpus" / "C02" / "*.json"))):
        j = json.load(open(f))
        hists.append(j["history"])
        origins.append("corpus/" + os.path.basename(f))
    ncorpus = len(hists)
    if ctx.replay:
        j = json.load(open(ctx.replay))
        hists, origins, ncorpus = [j["history"]], ["replay"], 1
    else:
        nh, ln, nx = (28, 30, 14) if ctx.quick else (110, 80, 50)
        for k in range(nh):
            hists.append(gen_history(ctx.rng, ln if k % 5 else ln // 2))
            origins.append(f"seed{ctx.seed}/{k}")
        for k in range(nx):         # second layer: CHAINED / CALIBRATION collections, certify, setCollectionChain, removeDatasetType
            hists.append(gen_history(ctx.rng, ln if k % 5 else ln // 2, ext=True))
            origins.append(f"seed{ctx.seed}/x{k}")
    # every third generated history, and a second copy of every corpus history, runs inside one registry caching context
    # (Registry.caching_context(), also entered by Butler.import_ / transfer_from / export): same model, same oracle --
    # a client must see its own completed writes through its caches
    cached = [False] * len(hists)
    if not ctx.replay:
        for k in range(ncorpus, len(hists)):
            if (k - ncorpus) % 3 == 2:
                cached[k] = True
                origins[k] += "/caching_context"
        for k in range(ncorpus):
            hists.append(hists[k])
            origins.append(origins[k] + "/caching_context")
            cached.append(True)
    else:
        cached = [bool(j.get("cached"))]
    for c in cached:
        ctx.hist("mode", "caching_context" if c else "plain")
    results = execute(ctx, hists, chunk=2 if ctx.quick else 1, cached=cached)

    cases, meta = [], []
    xcases, xmeta = [], []
    any_fail = False
    for h, steps, org in zip(hists, results, origins):
        if steps is None:
            continue
        cut = domain_cut(h, steps)
        if cut < len(h):
            ctx.hist("out_of_domain", "history cut at a forged ref")
            h, steps = h[:cut], steps[:cut]
        if check_history(ctx, h, steps, org):
            any_fail = True
        if nontrivial_rule(h, steps):
            ctx.nontrivial(h)
        ctx.hist("history_length", len(h))
        if is_ext(h):
            ctx.hist("layer", "second (chains, calibration, type removal)")
            xcases.append(xccase(h, steps))
            xmeta.append((h, steps, org))
            continue
        ctx.hist("layer", "first")
        cases.append(ccase(h, steps))
        meta.append((h, steps, org))
    if meta:
        h, steps, org = meta[min(len(meta) - 1, ncorpus)]
        ctx.sample({"origin": org, "history_prefix": h[:12], "outcomes": [s["out"] for s in steps[:12]],
                    "tags_after_12": steps[min(11, len(steps) - 1)]["obs"]["raw_tags"]})
        ctx.sample({"coq_case_prefix": cases[min(len(meta) - 1, ncorpus)][:1500]})

    # ---- model vs implementation
    bad = ctx.coq_cases("hist", HDR, cases, f"chk_hist {UNIV}", shard=4 if ctx.quick else 2, timeout=900)
    for i in (bad or [])[:5]:
        h, steps, org = meta[i]
        rc, txt = ctx.coq_eval("where", HDR, f"chk_where {UNIV} {cases[i]}")
        import re
        m = re.search(r"=\s*\[(\d+);\s*(\d+)\]", txt)
        fields = {1: "outcome", 2: "collections", 3: "dataset types", 4: "dataset table", 5: "raw tag rows", 6: "queryDatasets view",
                  7: "summary-pruned query", 8: "summary dataset types (superset)", 9: "summary governors (superset)",
                  10: "abstract specification astep (outcome / memberships / collections) -- Model/RegistryAbs.v"}
        if m:
            stp, fld = int(m.group(1)), int(m.group(2))
            detail = f"step {stp} ({h[stp]} -> {steps[stp]['out']}): model differs on {fields.get(fld, fld)}"
            ctx.disagreement("hist", {"origin": org, "history": h[: stp + 1], "observed": _brief(steps[stp]["obs"])}, detail)
        else:
            ctx.disagreement("hist", {"origin": org, "history": h}, "model differs (position not recovered): " + txt[-300:])
    # ---- second layer: Model/RegistryX.v vs implementation
    xfields = {1: "outcome", 2: "RUN/TAGGED collections", 3: "dataset types", 4: "dataset table", 5: "raw tag rows",
               6: "queryDatasets view of RUN/TAGGED collections", 7: "summary-pruned query", 8: "summary dataset types (superset)",
               9: "summary governors (superset)", 11: "CHAINED/CALIBRATION collections", 12: "chain definitions",
               13: "raw calibration rows", 14: "queryDatasets over CHAINED/CALIBRATION collections (union over flattened children)",
               15: "find-first over chains", 16: "summary dataset types of CHAINED/CALIBRATION (superset)",
               17: "summary governors of CHAINED/CALIBRATION (superset)"}
    if xcases:
        xbad = ctx.coq_cases("xhist", XHDR, xcases, f"xchk_hist {XUNIV}", shard=4 if ctx.quick else 2, timeout=900)
        for i in (xbad or [])[:5]:
            h, steps, org = xmeta[i]
            rc, txt = ctx.coq_eval("xwhere", XHDR, f"xchk_where {XUNIV} {xcases[i]}")
            import re
            m = re.search(r"=\s*\[(\d+);\s*(\d+)\]", txt)
            if m:
                stp, fld = int(m.group(1)), int(m.group(2))
                detail = f"step {stp} ({h[stp]} -> {steps[stp]['out']}): second-layer model differs on {xfields.get(fld, fld)}"
                ctx.disagreement("xhist", {"origin": org, "history": h[: stp + 1], "observed": _brief(steps[stp]["obs"]),
                                           "x": steps[stp]["obs"].get("x"), "raw_cal": steps[stp]["obs"].get("raw_cal")}, detail)
            else:
                ctx.disagreement("xhist", {"origin": org, "history": h}, "second-layer model differs (position not recovered): " + txt[-300:])
    # how many of the compared histories lie in the domain of abs_commutes (honest: no forged ref handed to associate)
    if meta:
        rc, txt = ctx.coq_eval("honest", HDR, "map honest [" + ";\n ".join("[" + "; ".join(cop(o) for o in h) + "]" for h, _, _ in meta) + "]")
        nt, nf = txt.count("true"), txt.count("false")
        if rc != 0 or nt + nf != len(meta):
            ctx.tie_broken("K", "honest", "could not evaluate `honest` on the compared histories: " + txt[-300:])
        else:
            ctx.hist("abs_commutes_domain", "honest", nt)
            if nf:
                ctx.hist("abs_commutes_domain", "not honest (abstract replay stops at the forged associate)", nf)
    drift = ctx.coq_cases("summ_exact", HDR, cases, "chk_summ_exact", shard=4 if ctx.quick else 2, timeout=900)
    if drift:
        ctx.cov["structural_drift"].append(f"summary tables differ from the model's exact rows in {len(drift)} histories (superset relation holds)")
        ctx.cov["ties"]["K:summ_exact"] = "drift (not a broken tie)"

    # ---- search when something is broken but the oracle held
    if ctx.broken and not ctx.oracle_failures and not ctx.replay:
        ctx.log("obligation/tie broken without oracle failure: searching deeper on the implementation")
        extra = [gen_history(ctx.rng, 60, ext=(k % 3 == 2)) for k in range(60 if ctx.quick else 200)]
        res = execute(ctx, extra, chunk=2)
        for k, (h, steps) in enumerate(zip(extra, res)):
            if steps is not None:
                cut = domain_cut(h, steps)
                check_history(ctx, h[:cut], steps[:cut], f"search/{k}")
        ctx.cov["search"] = f"{len(extra)} further histories of 60 ops on the implementation; oracle failures found: {len(ctx.oracle_failures)}"
