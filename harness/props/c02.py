"""C02 -- Collections hold what the history says, one dataset per type + data ID.

Obligations: coq/Props/C02.v (induction over all histories of Model/Registry.v).
Tie K: random histories (deliberate collisions, id reuse, wrong collection types, unknown names, duplicate batch
       entries, stale refs) run on a real SQLite Butler registry in worker subprocesses; after EVERY step the
       outcome class and what every query interface / the raw tables report for EVERY (collection, type, data ID)
       is compared with the Coq model (vm_compute) -- Model/RegistryCheck.v; the same pass replays the ABSTRACT
       specification Model/RegistryAbs.v (astep, the map the theorems abs_commutes / contents_eq_abstract refine to)
       and compares its outcome, its memberships and its collections with the implementation while the history is honest.
Oracle (from the property text, independent of the Coq model): class `Spec` below, an abstract
       {collection -> {(type, data id) -> dataset}} map of the history, plus direct checks on the observations:
       uniqueness per (collection, type, data id) in every view, one RUN for life, RUN membership == run_of,
       TAGGED contents change only at associate / disassociate / remove steps, a refused op changes nothing.
"""
from __future__ import annotations

import copy
import glob
import json
import os
import random

from harness.common import VERIF, Ctx, parallel_workers

NCOLL, NTYPE, NVALID = 5, 3, 4          # collections 0..4 (5 never registered), types 0..2 (3 never), data ids 0..3 valid
NDET = 2
DOCUMENTED = {"Conflict", "MissingCollection", "MissingDatasetType", "CollectionTypeErr", "DataIdValueErr"}
ERRCODE = {"Ok": 0, "OkNew": 1, "Err:Conflict": 2, "Err:MissingCollection": 3, "Err:MissingDatasetType": 4,
           "Err:CollectionTypeErr": 5, "Err:DataIdValueErr": 6}
HDR = ("From Coq Require Import NArith List.\nFrom V Require Import Model.Registry Model.RegistryAbs Model.RegistryCheck.\n"
       "Import ListNotations.\nOpen Scope N_scope.\n")
UNIV = f"[{';'.join(str(i) for i in range(NCOLL + 1))}] [{';'.join(str(i) for i in range(NTYPE + 1))}] [0;1]"


# =================================================================================================
# The abstract specification, written from the property statement (NOT from the Coq model)
# =================================================================================================
class Spec:
    """colls: name -> 'RUN'|'TAGGED'; types: set; ds: id -> (type, data id, run);
    member: collection -> {(type, data id): dataset id}."""

    def __init__(self):
        self.colls, self.types, self.ds, self.member = {}, set(), {}, {}

    def view(self):
        return sorted([c, t, d, i] for c, m in self.member.items() for (t, d), i in m.items())

    def judge(self, op):
        """-> (verdict, new Spec | None); verdict in accept | conflict | invalid | either | noop_any.
        accept: must succeed and produce the new state;  conflict: would break uniqueness, must be refused with the
        conflict error;  invalid: an argument is invalid, must be refused with a documented error;
        either: the property text does not decide (a batch naming the same new dataset twice);
        noop_any: empty batch, any outcome but nothing may change."""
        n = copy.deepcopy(self)
        k = op[0]
        if k in ("RegRun", "RegTag"):
            if op[1] not in n.colls:
                n.colls[op[1]] = "RUN" if k == "RegRun" else "TAGGED"
                n.member[op[1]] = {}
            return "accept", n
        if k == "RegType":
            n.types.add(op[1])
            return "accept", n
        if k == "Insert":
            _, t, c, items = op
            if not items:
                return "noop_any", None
            if t not in n.types or n.colls.get(c) != "RUN" or any(d >= NVALID for d, _ in items):
                return "invalid", None
            for d, i in items:
                if (t, d) in n.member[c] or i in n.ds:
                    return "conflict", None
                n.member[c][(t, d)] = i
                n.ds[i] = (t, d, c)
            return "accept", n
        if k == "Import":
            _, c, items = op
            if not items:
                return "noop_any", None
            if n.colls.get(c) != "RUN" or any(t not in n.types or d >= NVALID for _, t, d in items):
                return "invalid", None
            verdict = "accept"
            seen = {}
            for i, t, d in items:
                if i in seen:
                    if seen[i] != (t, d):
                        return "conflict", None
                    verdict = "either"
                    continue
                seen[i] = (t, d)
                if i in self.ds:
                    if self.ds[i] != (t, d, c):
                        return "conflict", None       # same dataset id, different definition
                    continue                           # already there: ignored
                if (t, d) in n.member[c]:
                    return "conflict", None
                n.member[c][(t, d)] = i
                n.ds[i] = (t, d, c)
            return verdict, n
        if k in ("Assoc", "Disassoc"):
            _, c, items = op
            if not items:
                return "noop_any", None
            if n.colls.get(c) != "TAGGED" or any(t not in n.types for _, t, _, _ in items):
                return "invalid", None
            if k == "Assoc":
                if any(self.ds.get(i) != (t, d, r) for i, t, d, r in items):
                    return "invalid", None              # stale / unknown dataset
                for i, t, d, _ in items:
                    cur = n.member[c].get((t, d))
                    if cur is not None and cur != i:
                        return "conflict", None
                    n.member[c][(t, d)] = i
                return "accept", n
            for i, t, d, _ in items:
                if n.member[c].get((t, d)) == i:
                    del n.member[c][(t, d)]
            return "accept", n
        if k == "RemoveDs":
            for i, _, _, _ in op[1]:
                if i in n.ds:
                    del n.ds[i]
                    for m in n.member.values():
                        for key in [key for key, v in m.items() if v == i]:
                            del m[key]
            return "accept", n
        if k == "RemoveColl":
            c = op[1]
            if c not in n.colls:
                return "invalid", None
            if n.colls[c] == "RUN":
                gone = {i for i, (_, _, r) in n.ds.items() if r == c}
                for i in gone:
                    del n.ds[i]
                for m in n.member.values():
                    for key in [key for key, v in m.items() if v in gone]:
                        del m[key]
            del n.colls[c]
            del n.member[c]
            return "accept", n
        raise ValueError(op)


# =================================================================================================
# generator
# =================================================================================================
def gen_history(rng: random.Random, length: int):
    """Generated against the abstract state so that most ops are valid; about a quarter come from a malformed
    stream (unknown names, wrong collection type, stale / never-existing refs, duplicate batch entries,
    invalid data ids, colliding keys, reused ids)."""
    sp = Spec()
    hist = []
    fresh = [100]
    dead: dict[int, tuple] = {}     # ids that existed once: last definition (t, d, run)

    def newid():
        fresh[0] += 1
        return fresh[0]

    def anyc():
        return rng.randrange(NCOLL + 1)

    def pick(kind, bad=0.15):
        good = [c for c, k in sp.colls.items() if k == kind]
        if good and rng.random() > bad:
            return rng.choice(good)
        return anyc()

    def pickt(bad=0.1):
        if sp.types and rng.random() > bad:
            return rng.choice(sorted(sp.types))
        return rng.randrange(NTYPE + 1)

    def pickd(bad=0.05):
        return rng.randrange(NVALID) if rng.random() > bad else NVALID + rng.randrange(2)

    def someref(p_dead=0.15, p_fake=0.05):
        x = rng.random()
        if sp.ds and x > p_dead + p_fake:
            i = rng.choice(sorted(sp.ds))
            t, d, r = sp.ds[i]
            return [i, t, d, r]
        if dead and x > p_fake:
            i = rng.choice(sorted(dead))
            if i not in sp.ds:
                t, d, r = dead[i]
                return [i, t, d, r]
        if sp.ds and rng.random() < 0.5:
            i = rng.choice(sorted(sp.ds))
            t, d, r = sp.ds[i]
            return [i, t, d, r]
        return [900 + rng.randrange(5), rng.randrange(NTYPE + 1), rng.randrange(NVALID), anyc()]

    prefix = [["RegRun", anyc()], ["RegRun", anyc()], ["RegTag", anyc()], ["RegTag", anyc()],
              ["RegType", rng.randrange(NTYPE)], ["RegType", rng.randrange(NTYPE)]]
    rng.shuffle(prefix)
    while len(hist) < length:
        x = rng.random()
        if not sp.ds and 0.55 <= x < 0.93 and rng.random() < 0.85:
            x = 0.17 + rng.random() * 0.38        # nothing to associate / remove yet: insert or import instead
        nrun = sum(1 for k in sp.colls.values() if k == "RUN")
        ntag = len(sp.colls) - nrun
        if len(hist) < 6 and rng.random() < 0.85:
            op = prefix[len(hist)]
        elif x < 0.06 or nrun == 0 and x < 0.3:
            op = ["RegRun", anyc()]
        elif x < 0.12 or ntag == 0 and x < 0.3:
            op = ["RegTag", anyc()]
        elif x < 0.17 or not sp.types and x < 0.4:
            op = ["RegType", rng.randrange(NTYPE + 1) if rng.random() < 0.1 else rng.randrange(NTYPE)]
        elif x < 0.37:
            n = rng.choice([0, 1, 1, 1, 2, 2, 3])
            items = [[pickd(), newid()] for _ in range(n)]
            if len(items) > 1 and rng.random() < 0.15:
                items[-1][0] = items[0][0]                       # duplicate data id inside the batch
            op = ["Insert", pickt(), pick("RUN"), items]
        elif x < 0.55:
            c = pick("RUN")
            n = rng.choice([0, 1, 1, 2, 2, 3])
            items = []
            for _ in range(n):
                y = rng.random()
                if y < 0.35 and sp.ds:                            # re-import of an existing id, same or changed definition
                    i = rng.choice(sorted(sp.ds))
                    t, d, r = sp.ds[i]
                    z = rng.random()
                    if z < 0.5:
                        c = r if rng.random() < 0.8 else c
                    elif z < 0.7:
                        d = pickd()
                    elif z < 0.85:
                        t = pickt()
                    items.append([i, t, d])
                elif y < 0.5 and dead:                            # a dataset id that existed before and was removed
                    i = rng.choice(sorted(dead))
                    t, d, _ = dead[i]
                    if rng.random() < 0.4:
                        t, d = pickt(), pickd()
                    items.append([i, t, d])
                else:
                    items.append([newid(), pickt(), pickd()])
            if items and rng.random() < 0.12:
                items.append(list(items[0]))                       # same ref twice
            if len(items) > 1 and rng.random() < 0.12:
                items[-1][1], items[-1][2] = items[0][1], items[0][2]   # two ids, same key
            op = ["Import", c, items]
        elif x < 0.75:
            n = rng.choice([0, 1, 1, 2, 2, 3, 4])
            items = [someref() for _ in range(n)]
            if items and rng.random() < 0.1:
                items.append(list(items[0]))
            op = ["Assoc", pick("TAGGED"), items]
        elif x < 0.85:
            n = rng.choice([0, 1, 1, 2, 3])
            c = pick("TAGGED")
            items = []
            for _ in range(n):
                m = sp.member.get(c) or {}
                if m and rng.random() < 0.7:
                    (t, d), i = rng.choice(sorted(m.items()))
                    items.append([i, t, d, sp.ds[i][2]])
                else:
                    items.append(someref())
            op = ["Disassoc", c, items]
        elif x < 0.93:
            n = rng.choice([0, 1, 1, 2])
            op = ["RemoveDs", [someref(p_dead=0.1) for _ in range(n)]]
        else:
            op = ["RemoveColl", rng.choice(sorted(sp.colls)) if sp.colls and rng.random() < 0.8 else anyc()]
        hist.append(op)
        verdict, n = sp.judge(op)
        if verdict == "accept" and n is not None:      # 'either' (same new ref twice) is refused by the code as it stands
            for i, v in sp.ds.items():
                if i not in n.ds:
                    dead[i] = v
            sp = n
    return hist


# =================================================================================================
# oracle on one executed history
# =================================================================================================
def opname(op):
    return op[0]


def check_history(ctx: Ctx, hist, steps, origin):
    """Evaluate the property on the implementation's observations; returns True when some oracle failed."""
    sp = Spec()
    prev = None
    failed = False

    def fail(kind, i, what, extra=None):
        nonlocal failed
        failed = True
        op = hist[i]
        sig = f"{kind}:{opname(op)}:{steps[i]['out']}"
        ctx.oracle_fail(sig, {"history": hist[: i + 1], "step": i, "op": op, "outcome": steps[i]["out"], "origin": origin,
                              "cached": origin.endswith("/caching_context"), "observed": _brief(steps[i]["obs"]), "detail": extra}, what)

    for i, (op, st) in enumerate(zip(hist, steps)):
        out, obs = st["out"], st["obs"]
        ctx.count()
        verdict, nxt = sp.judge(op)
        ctx.hist("ops", opname(op))
        ctx.hist("outcomes", out)
        ctx.hist("verdicts", verdict)
        ok = out in ("Ok", "OkNew")
        # ---- outcome against the statement
        if not ok and out[4:] not in DOCUMENTED:
            fail("undocumented-error", i, f"{opname(op)} failed with an undocumented error class {out}")
        if verdict == "accept" and not ok:
            fail("valid-op-refused", i, f"a valid {opname(op)} that breaks no uniqueness was refused with {out}")
        elif verdict == "conflict" and out != "Err:Conflict":
            fail("conflict-not-refused", i, f"{opname(op)} that would put two datasets under one (type, data ID) in a collection "
                                            f"(or redefine a dataset id) was not refused with the conflict error: {out}")
        elif verdict == "invalid" and ok:
            fail("invalid-op-accepted", i, f"{opname(op)} with invalid arguments was accepted")
        elif verdict == "either" and not (ok or out == "Err:Conflict"):
            fail("valid-op-refused", i, f"{opname(op)} refused with {out}")
        if ok and verdict in ("accept", "either"):
            sp = nxt
        # ---- contents against the abstract map, through every interface
        want = sp.view()
        for vname, rows in list(obs["views"].items()) + [("raw_tags", obs["raw_tags"])]:
            if rows != want:
                kind = "refused-op-changed-contents" if not ok else "contents-differ"
                fail(f"{kind}:{vname}", i, f"after {opname(op)} -> {out} the contents reported by {vname} differ from the history's",
                     {"view": vname, "got_minus_want": [r for r in rows if r not in want][:6], "want_minus_got": [r for r in want if r not in rows][:6]})
                break
        want_ds = sorted([i_, t, r] for i_, (t, d, r) in sp.ds.items())
        if obs["raw_ds"] != want_ds:
            fail("datasets-differ", i, f"after {opname(op)} -> {out} the dataset table differs from the history's", {"got": obs["raw_ds"], "want": want_ds})
        want_c = sorted([c, k] for c, k in sp.colls.items())
        if obs["colls"] != want_c or obs["raw_colls"] != want_c or obs["colls_listed"] != [c for c, _ in want_c]:
            fail("collections-differ", i, f"after {opname(op)} -> {out} the collections differ from the history's",
                 {"api": obs["colls"], "raw": obs["raw_colls"], "listed": obs["colls_listed"], "want": want_c})
        if obs["types"] != sorted(sp.types) or obs["raw_types"] != sorted(sp.types):
            fail("types-differ", i, f"after {opname(op)} -> {out} the dataset types differ from the history's")
        # ---- summaries over-approximate
        need_t = {(c, t) for c, t, _, _ in want}
        need_g = {(c, d // NDET) for c, _, d, _ in want}
        for nm, have_t, have_g in (("api", obs["summ_t"], obs["summ_g"]), ("raw", obs["raw_summ_t"], obs["raw_summ_g"])):
            if not need_t <= {tuple(x) for x in have_t} or not need_g <= {tuple(x) for x in have_g}:
                fail(f"summary-misses:{nm}", i, f"the collection summary ({nm}) lacks a dataset type / governor value that the collection holds")
        # ---- direct statements on the observations
        for vname, rows in list(obs["views"].items()) + [("raw_tags", obs["raw_tags"])]:
            keys = [tuple(r[:3]) for r in rows]
            if len(keys) != len(set(keys)):
                fail(f"two-datasets-one-key:{vname}", i, f"{vname} reports two datasets with the same dataset type and data ID in one collection")
        runs = {c for c, k in obs["colls"] if k == "RUN"}
        in_runs = sorted([c, i_] for c, t, d, i_ in obs["raw_tags"] if c in runs)
        if in_runs != sorted([r, i_] for i_, t, r in obs["raw_ds"]):
            fail("run-membership", i, "RUN membership differs from the datasets' runs (a dataset must be in exactly its own RUN)")
        if prev is not None:
            pds = {i_: r for i_, t, r in prev["raw_ds"]}
            for i_, t, r in obs["raw_ds"]:
                if i_ in pds and pds[i_] != r:
                    fail("run-changed", i, f"dataset {i_} moved from run {pds[i_]} to run {r} while alive")
            tagged = {c for c, k in obs["colls"] if k == "TAGGED"} & {c for c, k in prev["colls"] if k == "TAGGED"}
            before = [r for r in prev["raw_tags"] if r[0] in tagged]
            after = [r for r in obs["raw_tags"] if r[0] in tagged]
            if before != after and opname(op) not in ("Assoc", "Disassoc", "RemoveDs", "RemoveColl"):
                fail("tagged-changed", i, f"TAGGED contents changed at a {opname(op)} step")
            if not ok and _observables(prev) != _observables(obs):
                fail("refused-op-changed-state", i, f"{opname(op)} was refused with {out} but an observable changed")
        for k_, v in obs["probe_errors"].items():
            ctx.hist("probe_errors", k_, v)
        prev = obs
        if failed:
            break           # later steps of this history would only echo the first failure
    return failed


def _observables(obs):
    return json.dumps([obs["views"], obs["raw_tags"], obs["raw_ds"], obs["colls"], obs["types"], obs["colls_listed"]], sort_keys=True)


def _brief(obs):
    return {"raw_tags": obs["raw_tags"], "raw_ds": obs["raw_ds"], "colls": obs["colls"], "types": obs["types"],
            "views_equal_raw": {k: v == obs["raw_tags"] for k, v in obs["views"].items()}}


def domain_cut(hist, steps):
    """Index of the first op that hands associate / disassociate / removeDatasets a FORGED ref: the dataset id is alive
    in the implementation's own tables (observed after the previous step) under a different dataset type, data ID or
    run.  The registry trusts resolved refs; such inputs are outside the property's domain (design.d/C02.md), so a
    history is compared up to that op only.  Decided on observations, so it holds whatever the generator believed."""
    for i, op in enumerate(hist):
        if i == 0 or op[0] not in ("Assoc", "Disassoc", "RemoveDs"):
            continue
        obs = steps[i - 1]["obs"]
        alive = {i_: (t, r) for i_, t, r in obs["raw_ds"]}
        data = {(c, i_): d for c, t, d, i_ in obs["raw_tags"]}
        for i_, t, d, r in (op[2] if op[0] != "RemoveDs" else op[1]):
            if i_ in alive and (alive[i_] != (t, r) or data.get((r, i_)) != d):
                return i
    return len(hist)


def nontrivial_rule(hist, steps):
    """A history counts when it contains at least one refused uniqueness conflict, one accepted associate that
    changed a TAGGED collection, one accepted import/insert, and one removal step that deleted rows."""
    conflict = any(s["out"] == "Err:Conflict" for s in steps)
    assoc = ins = rem = False
    prev = []
    for op, s in zip(hist, steps):
        cur = s["obs"]["raw_tags"]
        okk = s["out"] in ("Ok", "OkNew")
        if okk and op[0] == "Assoc" and cur != prev:
            assoc = True
        if okk and op[0] in ("Insert", "Import") and len(cur) > len(prev):
            ins = True
        if okk and op[0] in ("RemoveDs", "RemoveColl", "Disassoc") and len(cur) < len(prev):
            rem = True
        prev = cur
    return conflict and assoc and ins and rem


# =================================================================================================
# Coq literals
# =================================================================================================
def nn(x):
    return str(x) if x >= 0 else "999999"


def cll(rows):
    return "[" + ";".join("[" + ";".join(nn(x) for x in r) + "]" for r in rows) + "]"


def cop(op):
    k = op[0]
    if k == "RegRun":
        return f"RegisterRun {op[1]}"
    if k == "RegTag":
        return f"RegisterTagged {op[1]}"
    if k == "RegType":
        return f"RegisterType {op[1]}"
    if k == "Insert":
        return f"Insert {op[1]} {op[2]} [{';'.join(f'({d},{i})' for d, i in op[3])}]"
    if k == "Import":
        return f"Import {op[1]} [{';'.join(f'Ref {i} {t} {d}' for i, t, d in op[2])}]"
    if k in ("Assoc", "Disassoc"):
        nm = "Associate" if k == "Assoc" else "Disassociate"
        return f"{nm} {op[1]} [{';'.join(f'Ref {i} {t} {d}' for i, t, d, _ in op[2])}]"
    if k == "RemoveDs":
        return f"RemoveDatasets [{';'.join(str(i) for i, _, _, _ in op[1])}]"
    if k == "RemoveColl":
        return f"RemoveCollection {op[1]}"
    raise ValueError(op)


def cobs(out, obs):
    code = ERRCODE.get(out, 99)
    tc = {"RUN": 1, "TAGGED": 2}
    pr = obs["views"].get("qp", obs["raw_tags"])
    return ("(Obs %d %s %s %s %s %s %s %s %s)" % (
        code, cll([[c, tc.get(k, 9)] for c, k in obs["colls"]]), cll([[t] for t in obs["types"]]), cll(obs["raw_ds"]),
        cll(obs["raw_tags"]), cll(obs["views"]["qd"]), cll(pr), cll(obs["summ_t"]), cll(obs["summ_g"])))


def ccase(hist, steps):
    return "[" + ";\n   ".join(f"({cop(op)}, {cobs(s['out'], s['obs'])})" for op, s in zip(hist, steps)) + "]"


# =================================================================================================
def execute(ctx: Ctx, hists, full=True, chunk=2, timeout=900, cached=None):
    """Run histories on the real registry in worker subprocesses; returns list of steps (None when the worker hung
    or crashed, which is reported)."""
    cached = cached or [False] * len(hists)
    payloads = [{"histories": hists[i:i + chunk], "ncoll": NCOLL, "ntype": NTYPE, "full": full, "cached": cached[i:i + chunk]}
                for i in range(0, len(hists), chunk)]
    res = parallel_workers("c02_impl", "run_histories", payloads, timeout=timeout)
    out = []
    for pl, (status, r) in zip(payloads, res):
        if status != "ok":
            for h in pl["histories"]:
                out.append(None)
                ctx.oracle_fail(f"worker-{status}", {"history": h, "detail": (r or "")[-1500:] if isinstance(r, str) else None},
                                f"running the history on the implementation ended in a {status}")
        else:
            out.extend(x["steps"] for x in r)
    return out


def run(ctx: Ctx):
    ctx.assumptions += [
        "SQLite enforces PRIMARY KEY / UNIQUE / FOREIGN KEY ... ON DELETE CASCADE on the tags, dataset and summary tables as the "
        "model's insert primitives do (exercised by the correspondence on every run)",
        "the refinement theorems (abs_commutes, contents_eq_abstract) are stated for HONEST histories: every associate is handed refs "
        "whose dataset type and data ID are those of the dataset's memberships (abs_commutes_step: needed for import only)",
        "one dimension group {instrument, detector}; PostgreSQL backend, CHAINED / CALIBRATION collections, datastore records "
        "(OrphanedRecordError) and dataset-type removal are outside the model",
        "refs handed to associate / disassociate / removeDatasets are ones the registry returned earlier (possibly stale) "
        "or refer to datasets that never existed; a forged ref (live id with a different type or data ID) is outside the domain",
    ]
    ctx.cov["rule"] = (
        "a history (30 ops quick / 80 thorough over 5+1 collection names, 3+1 dataset types, 4+2 data ids, ids reused on "
        "purpose) is non-trivial when it contains at least one refused uniqueness conflict, one accepted associate that "
        "changed a TAGGED collection, one accepted insert/import and one removal that deleted tag rows; every step of every "
        "history is probed through 8 interfaces over every (collection, type, data id)"
    )
    props_ok = ctx.build_props(extra_targets=["Model/RegistryCheck.vo"])
    if not props_ok:
        from harness.common import coq_make
        coq_make(["Model/RegistryCheck.vo"])

    # ---- corpus first
    hists, origins = [], []
    for f in sorted(glob.glob(str(VERIF / "corpus" / "C02" / "*.json"))):
        j = json.load(open(f))
        hists.append(j["history"])
        origins.append("corpus/" + os.path.basename(f))
    ncorpus = len(hists)
    if ctx.replay:
        j = json.load(open(ctx.replay))
        hists, origins, ncorpus = [j["history"]], ["replay"], 1
    else:
        nh, ln = (40, 30) if ctx.quick else (150, 80)
        for k in range(nh):
            hists.append(gen_history(ctx.rng, ln if k % 5 else ln // 2))
            origins.append(f"seed{ctx.seed}/{k}")
    # every third generated history, and a second copy of every corpus history, runs inside one registry caching context
    # (Registry.caching_context(), also entered by Butler.import_ / transfer_from / export): same model, same oracle --
    # a client must see its own completed writes through its caches
    cached = [False] * len(hists)
    if not ctx.replay:
        for k in range(ncorpus, len(hists)):
            if (k - ncorpus) % 3 == 2:
                cached[k] = True
                origins[k] += "/caching_context"
        for k in range(ncorpus):
            hists.append(hists[k])
            origins.append(origins[k] + "/caching_context")
            cached.append(True)
    else:
        cached = [bool(j.get("cached"))]
    for c in cached:
        ctx.hist("mode", "caching_context" if c else "plain")
    results = execute(ctx, hists, chunk=2 if ctx.quick else 1, cached=cached)

    cases, meta = [], []
    any_fail = False
    for h, steps, org in zip(hists, results, origins):
        if steps is None:
            continue
        cut = domain_cut(h, steps)
        if cut < len(h):
            ctx.hist("out_of_domain", "history cut at a forged ref")
            h, steps = h[:cut], steps[:cut]
        if check_history(ctx, h, steps, org):
            any_fail = True
        if nontrivial_rule(h, steps):
            ctx.nontrivial(h)
        ctx.hist("history_length", len(h))
        cases.append(ccase(h, steps))
        meta.append((h, steps, org))
    if meta:
        h, steps, org = meta[min(len(meta) - 1, ncorpus)]
        ctx.sample({"origin": org, "history_prefix": h[:12], "outcomes": [s["out"] for s in steps[:12]],
                    "tags_after_12": steps[min(11, len(steps) - 1)]["obs"]["raw_tags"]})
        ctx.sample({"coq_case_prefix": cases[min(len(meta) - 1, ncorpus)][:1500]})

    # ---- model vs implementation
    bad = ctx.coq_cases("hist", HDR, cases, f"chk_hist {UNIV}", shard=4 if ctx.quick else 2, timeout=900)
    for i in (bad or [])[:5]:
        h, steps, org = meta[i]
        rc, txt = ctx.coq_eval("where", HDR, f"chk_where {UNIV} {cases[i]}")
        import re
        m = re.search(r"=\s*\[(\d+);\s*(\d+)\]", txt)
        fields = {1: "outcome", 2: "collections", 3: "dataset types", 4: "dataset table", 5: "raw tag rows", 6: "queryDatasets view",
                  7: "summary-pruned query", 8: "summary dataset types (superset)", 9: "summary governors (superset)",
                  10: "abstract specification astep (outcome / memberships / collections) -- Model/RegistryAbs.v"}
        if m:
            stp, fld = int(m.group(1)), int(m.group(2))
            detail = f"step {stp} ({h[stp]} -> {steps[stp]['out']}): model differs on {fields.get(fld, fld)}"
            ctx.disagreement("hist", {"origin": org, "history": h[: stp + 1], "observed": _brief(steps[stp]["obs"])}, detail)
        else:
            ctx.disagreement("hist", {"origin": org, "history": h}, "model differs (position not recovered): " + txt[-300:])
    # how many of the compared histories lie in the domain of abs_commutes (honest: no forged ref handed to associate)
    if meta:
        rc, txt = ctx.coq_eval("honest", HDR, "map honest [" + ";\n ".join("[" + "; ".join(cop(o) for o in h) + "]" for h, _, _ in meta) + "]")
        nt, nf = txt.count("true"), txt.count("false")
        if rc != 0 or nt + nf != len(meta):
            ctx.tie_broken("K", "honest", "could not evaluate `honest` on the compared histories: " + txt[-300:])
        else:
            ctx.hist("abs_commutes_domain", "honest", nt)
            if nf:
                ctx.hist("abs_commutes_domain", "not honest (abstract replay stops at the forged associate)", nf)
    drift = ctx.coq_cases("summ_exact", HDR, cases, "chk_summ_exact", shard=4 if ctx.quick else 2, timeout=900)
    if drift:
        ctx.cov["structural_drift"].append(f"summary tables differ from the model's exact rows in {len(drift)} histories (superset relation holds)")
        ctx.cov["ties"]["K:summ_exact"] = "drift (not a broken tie)"

    # ---- search when something is broken but the oracle held
    if ctx.broken and not ctx.oracle_failures and not ctx.replay:
        ctx.log("obligation/tie broken without oracle failure: searching deeper on the implementation")
        extra = [gen_history(ctx.rng, 60) for _ in range(60 if ctx.quick else 200)]
        res = execute(ctx, extra, chunk=2)
        for k, (h, steps) in enumerate(zip(extra, res)):
            if steps is not None:
                cut = domain_cut(h, steps)
                check_history(ctx, h[:cut], steps[:cut], f"search/{k}")
        ctx.cov["search"] = f"{len(extra)} further histories of 60 ops on the implementation; oracle failures found: {len(ctx.oracle_failures)}"
