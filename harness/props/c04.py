"""C04 -- Validity ranges never overlap; decertify removes exactly the requested range.

Obligations: coq/Props/C04.v (model coq/Model/Calib.v over the regenerated Timespan comparisons of C11).
Tie T : Gen/TimespanGen.v is regenerated (C11's translator) and Gen/CalibDiffGen.v (harness/translators/calib_diff.py:
        Timespan.intersection / Timespan.difference); the Calib model calls the regenerated `py_overlaps` /
        `py_isEmpty` / `py_difference`, so the theorems are re-proved against what the code says now.
Tie K : histories of certify / decertify / removeDatasets run on a REAL SQLite registry (worker subprocesses)
        and on the Coq model (vm_compute); after EVERY step: outcome class, raw dataset_calibs_* rows,
        find_dataset(timespan=probe) for every probe, ordered-path lookups, lookups through CHAINED collections and
        paths that mix CALIBRATION, RUN and TAGGED collections (Model/CalibPath.v xlookup), (some histories) the new
        query system's find-first search with a temporal constraint over one collection and over ordered paths.
Oracle: independent interval bookkeeping on the elementary cells of the endpoint grid, written from the
        property statement (harness/props/c04.py: Book).
"""
from __future__ import annotations

import hashlib
import json
from pathlib import Path

from harness.common import VERIF, Ctx, clist, cn, copt, cz, parallel_workers, run_worker
from harness.translators import calib_diff as trd
from harness.translators import timespan as tr

MX = 4102444800000000000
MN = 0
CALIB_COLLS = (0, 1)
CALIB_TYPES = (0, 1)
NDID = 3
# searched-only collections of the fixture (harness/impl/c04_impl.py): RUN 2 holds the k=0 datasets, RUN 4 the k=1 datasets,
# CHAINED 5 = [1, 0], 6 = [0, 2], 8 = [5, 4, 0]; 3 = TAGGED (always empty here)
RUN_K = {2: 0, 4: 1}
CHAINS = {5: [1, 0], 6: [0, 2], 8: [5, 4, 0]}
XPATHS_FIXED = [[8]]
XPATHS_POOL = [[6], [5], [2, 0], [0, 4, 1], [6, 5], [3, 1, 0], [1, 6], [4, 5], [8, 1]]
QD_PATHS = [[5], [0, 1]]


def flat_path(path):
    """the order in which a search path is consulted: chains replaced by their children (depth first), a collection that
    occurs again later is not consulted twice"""
    out = []

    def walk(c):
        if c in CHAINS:
            for k in CHAINS[c]:
                walk(k)
        elif c not in out:
            out.append(c)
    for c in path:
        walk(c)
    return out


def ds_of(ty, did, k):
    return ty * 6 + did * 2 + k


def ds_key(ds):
    return ds // 6, (ds % 6) // 2  # (type, data id)


# ------------------------------------------------------------------------------------------------
# grid / cells
# ------------------------------------------------------------------------------------------------
class Grid:
    def __init__(self, a=1000, b=2000, c=3000, pts=None):
        self.pts = sorted(set(pts) | {MN, MN + 1, MX - 1, MX}) if pts else sorted({MN, MN + 1, a, a + 1, b, b + 1, c, MX - 1, MX})
        self.spans = [(p, q) for p in self.pts for q in self.pts if p < q]
        self.empty = (MX, MN)
        self.ncell = len(self.pts) - 1

    def cells(self, t):
        """cells [g_i, g_{i+1}) that the half-open span t meets (t need not have grid endpoints)"""
        b, e = t
        if b >= e:
            return frozenset()
        return frozenset(i for i in range(self.ncell) if max(b, self.pts[i]) < min(e, self.pts[i + 1]))

    def kind(self, t):
        """order-type description of a timespan, used for histograms and signatures"""
        b, e = t
        if b >= e:
            return "empty"
        k = []
        if b == MN:
            k.append("unbounded-begin")
        if e == MX:
            k.append("unbounded-end")
        if e - b == 1:
            k.append("1ns")
        return "+".join(k) or "bounded"


# ------------------------------------------------------------------------------------------------
# the property oracle: interval bookkeeping from the property text, nothing shared with the model
# ------------------------------------------------------------------------------------------------
class Book:
    """For every (collection, dataset type, data ID): which dataset is valid in which elementary cell."""

    def __init__(self, g: Grid):
        self.g = g
        self.valid: dict[tuple, dict[int, int]] = {}
        self.alive = set(range(18))

    def occupied(self, key):
        return self.valid.setdefault(key, {})

    def expect(self, op):
        """-> (kind, apply) : kind in 'ok' | 'conflict' | 'refused' | 'noop-or-refused'; apply() updates the book."""
        g = self.g
        if op["op"] == "remove":
            def app():
                self.alive.discard(op["ds"])
                for m in self.valid.values():
                    for c in [c for c, d in m.items() if d == op["ds"]]:
                        del m[c]
            return "ok", app
        coll_ok = op["coll"] in CALIB_COLLS
        cells = g.cells(tuple(op["ts"]))
        if op["op"] == "certify":
            refs = op["refs"]
            if not refs:
                return ("noop-or-refused", lambda: None)
            types_ok = all(ds_key(r)[0] in CALIB_TYPES for r in refs)
            if not (coll_ok and types_ok):
                return "refused", lambda: None
            if not all(r in self.alive for r in refs):
                return "refused", lambda: None      # a deleted dataset cannot be certified; which error is not the property's business
            keys = [(op["coll"],) + ds_key(r) for r in refs]
            dup = len(set(keys)) < len(keys) and bool(cells)
            over = any(cells & set(self.occupied(k)) for k in keys)
            if dup or over:
                return "conflict", lambda: None

            def app():
                for r, k in zip(refs, keys):
                    for c in cells:
                        self.occupied(k)[c] = r
            return "ok", app
        if op["op"] == "decertify":
            if not (coll_ok and op["ty"] in CALIB_TYPES):
                return "refused", lambda: None

            def app():
                for (c, t, d), m in self.valid.items():
                    if c == op["coll"] and t == op["ty"] and (op["sel"] is None or d in op["sel"]):
                        for cell in cells:
                            m.pop(cell, None)
            return "ok", app
        raise ValueError(op)

    def datasets_in(self, key, probe):
        m = self.valid.get(key, {})
        return {m[c] for c in self.g.cells(probe) if c in m}


def _rows_by_key(rows):
    out = {}
    for c, t, d, ds, b, e in rows:
        out.setdefault((c, t, d), []).append((b, e, ds))
    return out


def check_history(ctx: Ctx, g: Grid, hist: dict, steps: list, tag: str):
    """Evaluate the property on the implementation's observations of one history.  Returns
    (first failing step index or None, stats)."""
    book = Book(g)
    prev_rows = []
    summarised = set()   # (collection, type) pairs that ever had a successful certify (the collection summary only grows)
    stats = {"refused_conflict": 0, "split": 0, "trim": 0, "accepted": 0, "ambiguous_seen": 0}
    first_fail = None

    def fail(i, sig, what, **extra):
        nonlocal first_fail
        if first_fail is None:
            first_fail = i
        rep = {"grid": g.pts, "ops": hist["ops"][: i + 1], "probes": hist["probes"], "keys": hist["keys"], "paths": hist.get("paths", []),
               "xpaths": hist.get("xpaths", []), "xpath_probes": hist.get("xpath_probes", []),
               "failing_step": i, "observed": {k: steps[i].get(k) for k in ("out", "msg", "rows")}}
        rep.update(extra)
        ctx.oracle_fail(sig, rep, what)

    for i, (op, ob) in enumerate(zip(hist["ops"], steps)):
        kind, apply = book.expect(op)
        out, rows = ob["out"], ob["rows"]
        okind = g.kind(tuple(op["ts"])) if "ts" in op else "-"
        ctx.count()
        # ---- outcome, and "refused changes nothing"
        if kind == "conflict":
            if out != "Conflict":
                why = "duplicate-in-batch" if len({ds_key(r) for r in op["refs"]}) < len(op["refs"]) else "existing-range"
                fail(i, f"certify-accepted-overlap:{why}:{okind}" if out == "Ok" else f"certify-overlap-wrong-error:{out}",
                     f"certify that makes two validity ranges overlap was not refused with the conflict error (got {out})")
            else:
                stats["refused_conflict"] += 1
        elif kind == "refused":
            if out == "Ok":
                fail(i, f"{op['op']}-invalid-accepted", f"{op['op']} with a non-calibration collection / dataset type or a deleted dataset was accepted")
        elif kind == "ok":
            if out != "Ok":
                fail(i, f"{op['op']}-valid-refused:{out}:{okind}", f"a valid {op['op']} that overlaps nothing was refused with {out}")
            else:
                apply()
                if op["op"] == "certify":
                    stats["accepted"] += 1
                    summarised.update((op["coll"], ds_key(r)[0]) for r in op["refs"])
        if out != "Ok" and rows != prev_rows:
            fail(i, f"{op['op']}-refused-changed-state", f"{op['op']} raised {out} but the calibration rows changed")
        if op["op"] == "decertify" and out == "Ok":
            # how many existing ranges did it split in two / trim (for the non-triviality rule only)
            b, e = op["ts"]
            for (c, t, d, ds, rb, re_) in prev_rows:
                if c == op["coll"] and t == op["ty"] and (op["sel"] is None or d in op["sel"]) and rb < re_ and b < e:
                    if rb < b and e < re_:
                        stats["split"] += 1
                    elif max(rb, b) < min(re_, e) and not (b <= rb and re_ <= e):
                        stats["trim"] += 1
        # ---- at every instant at most one valid dataset; contents are exactly what the history says
        byk = _rows_by_key(rows)
        for key, ivs in byk.items():
            ne = sorted(iv for iv in ivs if iv[0] < iv[1])
            for (b1, e1, d1), (b2, e2, d2) in zip(ne, ne[1:]):
                if b2 < e1:
                    fail(i, "overlapping-validity-ranges", f"two validity ranges overlap for (collection, type, data ID) = {key}: "
                         f"[{b1},{e1}) dataset {d1} and [{b2},{e2}) dataset {d2}", key=list(key))
        if first_fail is None:
            seen = {}
            bad_cell = None
            for c, t, d, ds, b, e in rows:
                for cell in g.cells((b, e)):
                    seen.setdefault((c, t, d), {})[cell] = ds
                if b < e and not (b in g.pts and e in g.pts):
                    bad_cell = (c, t, d, b, e)
            want = {k: m for k, m in book.valid.items() if m}
            if seen != want or bad_cell:
                fail(i, f"{op['op']}-wrong-contents:{okind}",
                     f"after {op['op']} the valid dataset at some instant is not what the history says "
                     f"(decertify must clear exactly the requested range for the selected data IDs; everything else must be untouched)",
                     want={str(k): v for k, v in want.items()}, got={str(k): v for k, v in seen.items()})
        if ob["assoc"] != rows:
            fail(i, "associations-differ-from-table", "queryDatasetAssociations does not report the rows of the calibration table", assoc=ob["assoc"])
        # ---- lookups: the unique overlapping dataset, or ambiguity, never an arbitrary one
        probes = hist["probes"]

        def judge(colls, t, d, pi, res, what):
            probe = tuple(probes[pi])
            for c in colls:
                if c in RUN_K:
                    # a RUN holds its dataset whatever the time: any probe that has an instant finds it
                    x = ds_of(t, d, RUN_K[c])
                    ds = {x} if (x in book.alive and probe[0] < probe[1]) else set()
                    nrows = len(ds)
                else:
                    ds = book.datasets_in((c, t, d), probe)
                    nrows = sum(1 for (b, e, _) in byk.get((c, t, d), []) if b < e and max(b, probe[0]) < min(e, probe[1]))
                if ds:
                    break
            else:
                ds, nrows = set(), 0
            ctx.count()
            if res == -2:
                stats["ambiguous_seen"] += 1
            ok = (res == -1) if not ds else ((res == -2) if len(ds) > 1 else (res == next(iter(ds)) or (res == -2 and nrows > 1)))
            if res == [] or isinstance(res, list):  # query_datasets form
                ok = (res == []) if not ds else (len(ds) == 1 and res == [next(iter(ds))])
            if not ok:
                n = "none" if not ds else ("one" if len(ds) == 1 else "many")
                r = "none" if res in (-1, []) else ("ambiguous" if res == -2 else ("error" if isinstance(res, str) else "dataset"))
                fail(i, f"{what}-lookup:{n}-valid-got-{r}",
                     f"{what} lookup with timespan {list(probe)} returned {res} but the datasets valid in that span are {sorted(ds)}",
                     lookup={"collections": list(colls), "type": t, "data_id": d, "probe": list(probe), "result": res})

        for c, t, d, pi, res in ob["find"]:
            judge([c], t, d, pi, res, "find_dataset")
        for qi, t, d, pi, res in ob["path"]:
            judge(hist["paths"][qi], t, d, pi, res, "find_dataset-path")
        for xi, t, d, pi, res in ob.get("xpath", []):
            judge(flat_path(hist["xpaths"][xi]), t, d, pi, res, "find_dataset-chain")
        for qi, t, d, pi, res in ob.get("qdp", []):
            fp = flat_path(hist["qd_paths"][qi])
            if isinstance(res, str) and any((c, t) not in summarised for c in fp):
                ctx.hist("outside-property", "query_datasets error on never-certified collection")   # see below
                continue
            judge(fp, t, d, pi, res, "query_datasets-path")
        for c, t, d, pi, res in ob.get("qd", []):
            if isinstance(res, str) and (c, t) not in summarised and not book.valid.get((c, t, d)):
                # OUTSIDE C04 (see design.d/C04.md): while a dataset type has never been certified into the collection the new
                # query system raises sqlalchemy ArgumentError for `<type>.timespan OVERLAPS :ts` (NULL literal column)
                # instead of returning no rows; nothing is valid there, so no dataset can be returned arbitrarily.
                ctx.hist("outside-property", "query_datasets error on never-certified collection")
                continue
            judge([c], t, d, pi, res, "query_datasets")
        for c, t, d, pi, res in ob.get("qall", []):
            # without find-first the temporal constraint selects EVERY overlapping validity range: exactly the datasets valid
            # somewhere in the probe, one result per stored range
            probe = tuple(probes[pi])
            if isinstance(res, str) and (c, t) not in summarised and not book.valid.get((c, t, d)):
                ctx.hist("outside-property", "query_datasets error on never-certified collection")
                continue
            ctx.count()
            want_set = book.datasets_in((c, t, d), probe)
            want_rows = sorted(ds for (b, e, ds) in byk.get((c, t, d), []) if b < e and max(b, probe[0]) < min(e, probe[1]))
            if isinstance(res, str) or set(res) != want_set or sorted(res) != want_rows:
                fail(i, "query_datasets-all:" + ("error" if isinstance(res, str) else "wrong-datasets" if set(res) != want_set else "wrong-multiplicity"),
                     f"query.datasets(find_first=False) with `timespan OVERLAPS {list(probe)}` returned {res}; the datasets valid in that span are "
                     f"{sorted(want_set)} (stored ranges: {want_rows})",
                     lookup={"collections": [c], "type": t, "data_id": d, "probe": list(probe), "result": res})
        prev_rows = rows
        if first_fail is not None:
            break
    return first_fail, stats


# ------------------------------------------------------------------------------------------------
# generator
# ------------------------------------------------------------------------------------------------
def gen_history(rng, g: Grid, length: int, qd: bool):
    book = Book(g)   # generation is steered by the bookkeeping so that about half of the certifies are accepted
    ops = []
    nrem = 0
    weighted = g.spans + [s for s in g.spans if s[0] == MN or s[1] == MX or s[1] - s[0] == 1] + [g.empty]

    def pick_ts(keys=None, free=False, inside=False):
        if free and keys:
            occ = set()
            for k in keys:
                occ |= set(book.occupied(k))
            cand = [s for s in g.spans if not (g.cells(s) & occ)]
            if cand:
                return rng.choice(cand)
        if inside and keys:
            cand = []
            for k in keys:
                cs = sorted(book.occupied(k))
                cand += [s for s in g.spans if g.cells(s) and min(g.cells(s)) - 1 in cs and max(g.cells(s)) + 1 in cs
                         and len({book.occupied(k).get(c) for c in range(min(g.cells(s)) - 1, max(g.cells(s)) + 2)}) == 1]
            if cand:
                return rng.choice(cand)
        return rng.choice(weighted)

    main_c = rng.choice([0, 0, 0, 1])
    main_t = rng.choice([0, 0, 1])
    for _ in range(length):
        x = rng.random()
        c = main_c if rng.random() < 0.85 else 1 - main_c
        ty = main_t if rng.random() < 0.85 else 1 - main_t
        if x < 0.48:
            dids = [d for d in range(NDID) if rng.random() < 0.5] or ([rng.randrange(NDID)] if rng.random() < 0.9 else [])
            refs = [ds_of(ty, d, rng.randrange(2)) for d in dids]
            y = rng.random()
            if y < 0.10 and refs:      # two datasets of equal type + data ID in one call
                r = rng.choice(refs)
                refs.insert(rng.randrange(len(refs) + 1), r ^ 1)
            elif y < 0.14 and refs:    # the same dataset twice
                refs.append(rng.choice(refs))
            elif y < 0.20:             # a second dataset type in the same call
                refs.insert(rng.randrange(len(refs) + 1), ds_of(rng.choice([1 - ty, 1 - ty, 2]), rng.randrange(NDID), rng.randrange(2)))
            keys = [(c,) + ds_key(r) for r in refs]
            op = {"op": "certify", "coll": c, "refs": refs, "ts": list(pick_ts(keys, free=rng.random() < 0.5))}
        elif x < 0.80:
            sel = None if rng.random() < 0.4 else [d for d in range(NDID) if rng.random() < 0.5]
            keys = [(c, ty, d) for d in (range(NDID) if sel is None else sel)]
            op = {"op": "decertify", "coll": c, "ty": ty, "ts": list(pick_ts(keys, inside=rng.random() < 0.6)), "sel": sel}
        elif x < 0.87 and nrem < 2:
            certified = sorted({d for m in book.valid.values() for d in m.values()})
            op = {"op": "remove", "ds": rng.choice(certified) if certified and rng.random() < 0.8 else rng.randrange(18)}
            nrem += 1
        else:   # invalid variants
            z = rng.randrange(6)
            ts = list(pick_ts())
            if z == 0:
                op = {"op": "certify", "coll": rng.choice([2, 3, 7]), "refs": [ds_of(ty, rng.randrange(NDID), 0)], "ts": ts}
            elif z == 1:
                op = {"op": "certify", "coll": c, "refs": [ds_of(2, rng.randrange(NDID), rng.randrange(2))], "ts": ts}
            elif z == 2:
                op = {"op": "decertify", "coll": rng.choice([2, 3, 7]), "ty": ty, "ts": ts, "sel": None}
            elif z == 3:
                op = {"op": "decertify", "coll": c, "ty": rng.choice([2, 7]), "ts": ts, "sel": None}
            elif z == 4:
                op = {"op": "certify", "coll": rng.choice([c, 2, 7]), "refs": [], "ts": ts}
            else:
                op = {"op": "certify", "coll": c, "refs": [ds_of(ty, d, 0) for d in range(NDID)], "ts": list(g.empty)}
        kind, app = book.expect(op)
        if kind == "ok":
            app()
        ops.append(op)
    # keys to probe: the ones the history touched (at most 3), most-touched first
    touched = {}
    for op in ops:
        if op["op"] == "certify":
            for r in op["refs"]:
                if ds_key(r)[0] in CALIB_TYPES and op["coll"] in CALIB_COLLS:
                    k = (op["coll"],) + ds_key(r)
                    touched[k] = touched.get(k, 0) + 1
    keys = [list(k) for k, _ in sorted(touched.items(), key=lambda kv: (-kv[1], kv[0]))[:3]] or [[0, 0, 0]]
    # probes: every grid instant and the instant before it as 1-ns spans, empty, everything, 4 grid spans
    probes = []
    for p in g.pts:
        if p < MX:
            probes.append([p, p + 1])
        if p > MN:
            probes.append([p - 1, p])
    probes = [list(x) for x in sorted({tuple(p) for p in probes})]
    probes += [list(g.empty), [MN, MX]] + [list(s) for s in rng.sample(g.spans, 4)]
    n1 = len(probes)
    hist = {"ops": ops, "probes": probes, "keys": keys, "paths": [[0, 1], [1, 0]],
            "path_probes": sorted(rng.sample(range(n1 - 6), 2)) + list(range(n1 - 4, n1))}
    # search paths with CHAINED / RUN / TAGGED collections: probes = an instant, the empty span or everything, 2 grid spans
    hist["xpaths"] = XPATHS_FIXED + rng.sample(XPATHS_POOL, 2)
    hist["xpath_probes"] = [rng.randrange(n1 - 6), rng.choice([n1 - 6, n1 - 5])] + sorted(rng.sample(range(n1 - 4, n1), 2))
    if qd:
        hist["query_datasets"] = True
        hist["qd_probes"] = sorted(rng.sample(range(n1), 6))
        hist["qd_paths"] = QD_PATHS
    return hist


# ------------------------------------------------------------------------------------------------
# Coq literals
# ------------------------------------------------------------------------------------------------
def cts(p):
    return f"({cz(int(p[0]))}, {cz(int(p[1]))})"


def cres(r):
    if r == -1:
        return "NotFound"
    if r == -2:
        return "Ambiguous"
    if isinstance(r, int) and r >= 0:
        return f"(Unique {cn(r)})"
    return None


def cres_qd(res):
    """result of query.datasets(find_first=True): [] / [ds] / -2 (CalibrationLookupError); anything else has no counterpart"""
    if res == -2:
        return "Ambiguous"
    if res == []:
        return "NotFound"
    if isinstance(res, list) and len(res) == 1 and isinstance(res[0], int) and res[0] >= 0:
        return f"(Unique {cn(res[0])})"
    return None


ERRS = {"Conflict", "MissingCollection", "MissingDatasetType", "CollectionTypeErr", "DatasetTypeErr", "SqlError"}


def cop(op):
    if op["op"] == "certify":
        refs = clist(f"mkRef {cn(r)} {cn(ds_key(r)[0])} {cn(ds_key(r)[1])}" for r in op["refs"])
        return f"Certify {cn(op['coll'])} {refs} {cts(op['ts'])}"
    if op["op"] == "decertify":
        return f"Decertify {cn(op['coll'])} {cn(op['ty'])} {cts(op['ts'])} {copt(op['sel'], lambda l: clist(cn(d) for d in l))}"
    return f"Remove {cn(op['ds'])}"


def coq_case(hist, steps):
    """Gallina literal `list (op * obs)`; None when an observation has no counterpart in the model's vocabulary."""
    items = []
    for op, ob in zip(hist["ops"], steps):
        if ob["out"] != "Ok" and ob["out"] not in ERRS:
            return None
        out = "Ok" if ob["out"] == "Ok" else f"(Err {ob['out']})"
        rows = clist(f"mkRow {cn(c)} {cn(t)} {cn(d)} {cn(ds)} {cts((b, e))}" for c, t, d, ds, b, e in ob["rows"])
        finds, paths = [], []
        for c, t, d, pi, res in ob["find"]:
            r = cres(res)
            if r is None:
                return None
            finds.append(f"({cn(c)}, {cn(t)}, {cn(d)}, {cts(hist['probes'][pi])}, {r})")
        for qi, t, d, pi, res in ob["path"]:
            r = cres(res)
            if r is None:
                return None
            paths.append(f"({clist(cn(c) for c in hist['paths'][qi])}, {cn(t)}, {cn(d)}, {cts(hist['probes'][pi])}, {r})")
        xpaths = []
        for xi, t, d, pi, res in ob.get("xpath", []):
            r = cres(res)
            if r is None:
                return None
            xpaths.append(f"({clist(cn(c) for c in hist['xpaths'][xi])}, {cn(t)}, {cn(d)}, {cts(hist['probes'][pi])}, {r})")
        # the new query system's find-first search with `<type>.timespan OVERLAPS :ts` is a view of the same interval map:
        # no row / one dataset / CalibrationLookupError  ==  NotFound / Unique / Ambiguous of the model (errors of the
        # doomed-search kind are outside C04 and are left to the oracle's bookkeeping)
        for c, t, d, pi, res in ob.get("qd", []):
            r = cres_qd(res)
            if r is not None:
                finds.append(f"({cn(c)}, {cn(t)}, {cn(d)}, {cts(hist['probes'][pi])}, {r})")
        for qi, t, d, pi, res in ob.get("qdp", []):
            r = cres_qd(res)
            if r is not None:
                xpaths.append(f"({clist(cn(c) for c in hist['qd_paths'][qi])}, {cn(t)}, {cn(d)}, {cts(hist['probes'][pi])}, {r})")
        alls = []
        for c, t, d, pi, res in ob.get("qall", []):
            if isinstance(res, list) and all(isinstance(x, int) and x >= 0 for x in res):
                alls.append(f"({cn(c)}, {cn(t)}, {cn(d)}, {cts(hist['probes'][pi])}, {clist(cn(x) for x in res)})")
        items.append(f"({cop(op)}, mkObs {out} {rows} {clist(finds)} {clist(paths)} {clist(xpaths)} {clist(alls)})")
    return clist(items)


HDR = ("From Coq Require Import ZArith NArith List.\nFrom V Require Import Gen.TimespanGen Model.Timespan Model.Calib Model.CalibPath Model.CalibCheck.\n"
       "Import ListNotations.\n")


# ------------------------------------------------------------------------------------------------
def _run_batch(ctx: Ctx, hists: list, per_worker=3, timeout=900):
    payloads = [{"histories": hists[i:i + per_worker]} for i in range(0, len(hists), per_worker)]
    res = parallel_workers("c04_impl", "run_histories", payloads, timeout=timeout)
    out = []
    for pl, (st, r) in zip(payloads, res):
        if st != "ok":
            for h in pl["histories"]:
                out.append((h, None, f"{st}: {str(r)[-1500:]}"))
        else:
            for h, rr in zip(pl["histories"], r["results"]):
                out.append((h, rr["steps"], None))
    return out


def _shrink(ctx: Ctx, g: Grid, hist: dict, fail_step: int, sig_before: int):
    """Greedy one-op-at-a-time reduction of the failing prefix (bounded); returns the smallest failing history."""
    cur = dict(hist, ops=hist["ops"][: fail_step + 1])
    budget = 16
    i = len(cur["ops"]) - 2
    while i >= 0 and budget > 0:
        cand = dict(cur, ops=cur["ops"][:i] + cur["ops"][i + 1:])
        budget -= 1
        st, r = run_worker("c04_impl", "run_histories", {"histories": [cand]}, timeout=600)
        if st == "ok":
            sub = Ctx.__new__(Ctx)   # throw-away recorder: same oracle, failures not reported
            sub.__dict__.update(ctx.__dict__)
            sub.oracle_failures, sub.known, sub.known_printed = [], [], set()
            sub.cov = {"evaluations": 0, "histograms": {}, "samples": []}
            sub._nontrivial = set()
            ff, _ = check_history(sub, g, cand, r["results"][0]["steps"], "shrink")
            if ff is not None:
                cur = dict(cand, ops=cand["ops"][: ff + 1])
                i = min(i, len(cur["ops"]) - 1)
        i -= 1
    return cur


def _process(ctx: Ctx, g: Grid, results, label, cases, metas, shrink=True):
    for hist, steps, errtxt in results:
        if steps is None:
            # a worker that hangs or dies is itself a property failure only if the oracle says so; here it is machinery
            if errtxt.startswith("hang"):
                ctx.oracle_fail("history-hang", {"grid": g.pts, "ops": hist["ops"]}, "a certify/decertify/remove history did not return (watchdog)")
            else:
                ctx.tie_broken("harness", "c04 worker", errtxt)
            continue
        n_before = len(ctx.oracle_failures)
        known_before = set(ctx.known_printed)
        ff, stats = check_history(ctx, g, hist, steps, label)
        for op in hist["ops"]:
            ctx.hist("op", op["op"])
            if "ts" in op:
                ctx.hist("timespan", g.kind(tuple(op["ts"])))
            if op["op"] == "certify":
                ctx.hist("batch", len(op["refs"]))
            if op["op"] == "decertify":
                ctx.hist("selection", "all" if op["sel"] is None else len(op["sel"]))
        for st in steps:
            ctx.hist("outcome", st["out"])
        if stats["refused_conflict"] >= 1 and stats["split"] >= 1:
            ctx.nontrivial({"ops": hist["ops"]})
        ctx.hist("history", "refused-and-split" if (stats["refused_conflict"] and stats["split"]) else "other")
        if ff is not None and shrink and len(ctx.oracle_failures) > n_before:
            sig, rep = ctx.oracle_failures[-1]
            small = _shrink(ctx, g, hist, ff, n_before)
            if len(small["ops"]) < len(rep["ops"]):
                st, r = run_worker("c04_impl", "run_histories", {"histories": [small]}, timeout=600)
                if st == "ok":
                    del ctx.oracle_failures[n_before:]
                    check_history(ctx, g, small, r["results"][0]["steps"], label)
                    if len(ctx.oracle_failures) == n_before:   # shrunk case stopped failing: keep the original
                        ctx.oracle_failures.append((sig, rep))
        cc = coq_case(hist, steps)
        if cc is None:
            if ff is None:
                ctx.disagreement("calib_history", {"ops": hist["ops"]}, "the implementation produced an outcome outside the model's vocabulary: "
                                 + json.dumps([s["out"] for s in steps]))
            continue
        cases.append(cc)
        metas.append({"ops": hist["ops"], "grid": g.pts, "oracle_failed": ff is not None})


def _model_compare(ctx: Ctx, name, cases, metas):
    if not cases:
        return
    bad = ctx.coq_cases(name, HDR, cases, "chk_history", shard=6, timeout=900)
    for i in (bad or [])[:4]:
        rc, out = ctx.coq_eval(f"{name}_bad{i}", HDR, f"first_bad true std_init 1%N ({cases[i]})")
        where = out.strip().splitlines()[-2:] if rc == 0 else out[-300:]
        if metas[i]["oracle_failed"]:
            continue   # the oracle already reported this history; the model describes the unbroken code
        ctx.disagreement(name, metas[i], f"model and implementation differ; first_bad (10*step+component 1 outcome 2 rows 3 find 4 path 5 chained/run path 6 all overlapping rows) = {where}")


def run(ctx: Ctx):
    ctx.assumptions += [
        "SQLite executes the SELECT-count / INSERT / DELETE of certify and decertify as written, serially (table lock + savepoint; "
        "concurrent writers belong to C20); a table is a multiset of rows; ON DELETE CASCADE removes the rows of a deleted dataset",
        "the SQL overlap predicate equals Timespan.overlaps (theorem sql_agrees_overlaps of C11, same regenerated definitions)",
        "dataset ids, collection and dataset type names are abstracted to small numbers; the autoincrement key of dataset_calibs_* is not modelled",
        "translators harness/translators/timespan.py and harness/translators/calib_diff.py (Python ast -> Gallina) are trusted; "
        "the output of the first is compared with the implementation by C11, the second (Timespan.difference) through every decertify of the correspondence",
        "chain definitions and RUN membership are fixed per history (the fixture's CHAINED 5/6/8, RUN 2/4); a TAGGED collection in a path is empty",
    ]
    ctx.cov["rule"] = (
        "a history (certify / decertify / removeDatasets on a real SQLite registry, timespans from every endpoint order type of a "
        "9-point grid incl. unbounded, adjacent, 1 ns and empty, all subsets of 3 data IDs, invalid variants) counts as non-trivial only "
        "if at least one certify was refused with the conflict error AND at least one decertify split an existing range in two; "
        "distinct by the hash of its op list"
    )
    gen_ok = ctx.regen("timespan", tr.translate)
    ctx.regen("calib_diff", trd.translate)   # Timespan.intersection / difference -> Gen/CalibDiffGen.v (used by decertify's model)
    props_ok = ctx.build_props(extra_targets=["Model/CalibCheck.vo"])
    if not props_ok:
        from harness.common import coq_make
        coq_make(["Model/CalibCheck.vo"])

    grids = [Grid(1000, 2000, 3000)]
    cases, metas = [], []

    # ---- replay of one file
    if ctx.replay:
        rep = json.loads(Path(ctx.replay).read_text())
        g = Grid(pts=rep["grid"]) if rep.get("grid") else Grid()
        hist = {"ops": rep["ops"], "probes": rep.get("probes") or gen_history(ctx.rng, g, 0, False)["probes"],
                "keys": rep.get("keys") or [[0, 0, 0]], "paths": rep.get("paths") or [[0, 1]],
                "xpaths": rep.get("xpaths") or (XPATHS_FIXED + XPATHS_POOL)}
        hist["xpath_probes"] = rep.get("xpath_probes") or list(range(len(hist["probes"])))
        if rep.get("path_probes"):
            hist["path_probes"] = rep["path_probes"]
        _process(ctx, g, _run_batch(ctx, [hist]), "replay", cases, metas, shrink=False)
        _model_compare(ctx, "replay", cases, metas)
        return

    # ---- corpus first (minimised past failures / fixed defects)
    corpus = []
    for f in sorted((VERIF / "corpus" / "C04").glob("*.json")):
        rep = json.loads(f.read_text())
        ends = {x for op in rep["ops"] if "ts" in op for x in op["ts"]}
        g = Grid(pts=ends) if not ends <= set(grids[0].pts) else grids[0]
        base = gen_history(ctx.rng.__class__(f.name), g, 0, False)
        corpus.append({"ops": rep["ops"], "probes": rep.get("probes") or base["probes"], "keys": rep.get("keys") or [[0, 0, 0], [0, 0, 1]],
                       "paths": rep.get("paths") or [[0, 1], [1, 0]], "path_probes": list(range(0, len(base["probes"]), 3)),
                       "query_datasets": True, "qd_probes": list(range(0, len(base["probes"]), 4)), "qd_paths": QD_PATHS,
                       "xpaths": rep.get("xpaths") or (XPATHS_FIXED + XPATHS_POOL[:5]),
                       "xpath_probes": rep.get("xpath_probes") or list(range(0, len(base["probes"]) - 6, 5)) + [len(base["probes"]) - 6],
                       "corpus_file": f.name, "_grid": g})
    if corpus:
        cg = [h.pop("_grid") for h in corpus]
        res = _run_batch(ctx, corpus, per_worker=1)
        for g_, one in zip(cg, res):
            _process(ctx, g_, [one], "corpus", cases, metas)
        ctx.hist("source", "corpus", len(corpus))
        ctx.log(f"corpus: {len(corpus)} histories replayed")

    # ---- generated histories
    if not ctx.quick:
        r = ctx.rng
        grids.append(Grid(10**18, 2 * 10**18, 3 * 10**18))
        grids.append(Grid(5, 7, 9))
        a, b, c = sorted(r.sample(range(3, MX - 3), 3))
        if b - a > 1 and c - b > 1:
            grids.append(Grid(a, b, c))
    import os
    n_hist = int(os.environ.get("C04_NHIST", "0")) or (45 if ctx.quick else 300)
    length = 12 if ctx.quick else 16
    per_grid = []
    for gi, g in enumerate(grids):
        n = n_hist if ctx.quick else (n_hist // 2 if gi == 0 else n_hist // (2 * (len(grids) - 1)))
        hs = [gen_history(ctx.rng, g, length, qd=(j % 4 == 0)) for j in range(n)]
        per_grid.append((g, hs))
    for g, hs in per_grid:
        res = _run_batch(ctx, hs)
        _process(ctx, g, res, "generated", cases, metas)
        ctx.hist("source", "generated", len(hs))
    if metas:
        ctx.sample({"history": metas[min(3, len(metas) - 1)]["ops"][:8], "coq_case_prefix": cases[min(3, len(cases) - 1)][:700]})

    _model_compare(ctx, "calib_history", cases, metas)

    # ---- something no longer checks but the oracle held: search deeper on the implementation
    if ctx.broken and not ctx.oracle_failures:
        g = grids[0]
        extra = [gen_history(ctx.rng, g, 18, qd=(j % 3 == 0)) for j in range(120 if ctx.quick else 300)]
        c2, m2 = [], []
        _process(ctx, g, _run_batch(ctx, extra), "search", c2, m2)
        ctx.cov["search"] = (f"{len(extra)} additional 18-step histories run on the implementation with the property oracle after every step: "
                             + ("a failing input was found" if ctx.oracle_failures else "the oracle held on all of them"))
