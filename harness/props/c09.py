"""C09 -- Artifacts are deleted only when unreferenced, and only inside the datastore root.

Tie T: Gen/TemplateGen.v (default file template, sanitising tables) regenerated from the working tree; the containment
       theorems of Props/C09.v are re-proved over it.
Tie K: (a) histories of put / ingest(copy, move, direct, in place; one file for several refs; re-ingest) / zip creation +
       ingest_zip (+ re-ingest) / Datastore.trash / emptyTrash / pruneDatasets / removeRuns over hostile run, instrument and
       detector names on a real repository nested in a private scratch directory; after EVERY operation the listing (with
       content hashes) of the root and of everything around it, the rows of file_datastore_records / dataset_location /
       dataset_location_trash and the outcome class are compared with Model/Trash.v evaluated by vm_compute;
       (b) template + location cases: the text FileDatastore keeps as pathInStore and the place it resolves to.
Oracle (from the property's statement, independent of the model): nothing outside the root is created, changed or removed
       (except the source of a requested move ingest and the requested zip output); a dataset that is still stored and
       was readable before an operation is still readable after it.
"""
from __future__ import annotations

import hashlib
import json
import os
import re
from pathlib import Path
from urllib.parse import unquote

import ast

from harness.common import PKG, VERIF, Ctx, clist, cn, coq_make, copt, cstr, parallel_workers
from harness.translators import template as tr

HDR = ("From Coq Require Import String Ascii List Bool NArith.\n"
       "From V Require Import Model.Template Gen.TemplateGen Gen.TrashGen Model.Trash Model.TrashCheck.\n"
       "Import ListNotations.\nOpen Scope string_scope.\n")
UPESC = re.compile(r"%[0-9A-F]{2}")


def unmodelled(names) -> bool:
    """'#' next to an upper-case escape (urlparse then splits at the first '#'), '?', non-printable decodings"""
    if any("#" in x for x in names) and any(UPESC.search(x) for x in names):
        return True
    return any("?" in x for x in names)


OUT_CODE = {"ok": 0, "Conflict": 1, "NotFound": 2, "FileNotFoundError": 2, "ValueError": 3, "KeyError": 4, "RuntimeError": 5}

PLAIN_RUNS = ["r1", "r2", "u/v", "calib_1", "R1"]
HOSTILE_RUNS = ["a b", "x/./y", "a/..", "..x", "a#b", "a_b", "a%b", "a%zz", "%2e%2e/sentinel", "%2E%2E/sentinel", "a%41b", "aAb",
                "a%4ab", "aJb", "/abs", "x//y", "../outside", "..", "a/../../sentinel", "%2E%2E/%2E%2E/q", "run.ext", "a%2Fb",
                "a%2fb", "a/b", "A_B#c", "a%5fb", "%2e", "%2E/z", "a%2E%2E", "sp ace/..", "a%", "%41", "..%2F..%2Fq",
                "%25252E%25252E/sentinel", "a%252541b", "a%2541b", "x%2ey"]
PLAIN_INST = ["Cam", "HSC"]
HOSTILE_INST = ["Cam A", "Cam/A", "C#m", "C%41m", "..", "C.m", "%2E%2E", "Cam_A", "c%2fd", "C%6dm"]
PLAIN_DET = ["det0", "det1", "S00"]
HOSTILE_DET = ["S 0", "R/1", "a#b", "%2E", "d.1", "..", "d%61"]
ESC = re.compile(r"%[0-9A-Fa-f]{2}")


def nested_escape(names) -> bool:
    """a name that is still changed by a THIRD percent-decoding (e.g. '%25252E'): df0ecd0 checks the location that is written,
    but the record text read back later is decoded once more"""
    return any(unquote(unquote(unquote(x))) != unquote(unquote(x)) for x in names if x)


def ndotdot(s: str) -> int:
    return len(re.findall(r"(?:\.|%2[eE]){2}", s))


# ---------------------------------------------------------------------------------------------------------
# tie T (second translator): is the location of a new artifact containment-checked by Location?
# ---------------------------------------------------------------------------------------------------------
class Untranslatable(Exception):
    pass


def translate_location_check():
    """Gen/TrashGen.v: GEN_LOCATION_CHECKED = every `locationFactory.fromPath(template.format(ref), ...)` in
    fileDatastore.py passes trusted_path=False (or omits it) AND Location.__init__ still raises when
    `self.uri.relative_to(root)` is None for an untrusted path.  Fail-closed on anything unexpected."""
    tree = ast.parse((PKG / "datastores" / "fileDatastore.py").read_text())
    sites = []
    for node in ast.walk(tree):
        if not (isinstance(node, ast.Call) and isinstance(node.func, ast.Attribute) and node.func.attr == "fromPath"):
            continue
        a = node.args[0] if node.args else None
        if not (isinstance(a, ast.Call) and isinstance(a.func, ast.Attribute) and a.func.attr == "format"
                and isinstance(a.func.value, ast.Name) and a.func.value.id == "template"):
            continue
        kw = {k.arg: k.value for k in node.keywords}
        tp = kw.get("trusted_path")
        if tp is None:
            sites.append(False)
        elif isinstance(tp, ast.Constant) and isinstance(tp.value, bool):
            sites.append(tp.value)
        else:
            raise Untranslatable(f"trusted_path is not a literal at line {node.lineno}")
    # the two functions that name a NEW artifact must each obtain the location from the template either directly
    # (`fromPath(template.format(ref), ...)`, the shape before a79f022) or through `_location_from_template` (a79f022)
    wflag = _write_rule(tree)
    fdfns = {f.name: f for cls in ast.walk(tree) if isinstance(cls, ast.ClassDef) and cls.name == "FileDatastore"
             for f in cls.body if isinstance(f, ast.FunctionDef)}
    helper_uses = 0
    for fname in ("_determine_put_formatter_location", "_calculate_ingested_datastore_name"):
        if fname not in fdfns:
            raise Untranslatable(f"FileDatastore.{fname} not found")
        direct = sum(1 for n in ast.walk(fdfns[fname]) if isinstance(n, ast.Call) and isinstance(n.func, ast.Attribute)
                     and n.func.attr == "fromPath" and n.args and isinstance(n.args[0], ast.Call)
                     and isinstance(n.args[0].func, ast.Attribute) and n.args[0].func.attr == "format")
        via = sum(1 for n in ast.walk(fdfns[fname]) if isinstance(n, ast.Call) and isinstance(n.func, ast.Attribute)
                  and n.func.attr == "_location_from_template")
        if direct + via != 1:
            raise Untranslatable(f"{fname}: expected exactly one template-driven location, found {direct} direct + {via} via helper")
        helper_uses += via
    expected_sites = (2 - helper_uses) + (1 if "_location_from_template" in fdfns else 0)
    if len(sites) != expected_sites:
        raise Untranslatable(f"expected {expected_sites} template-driven fromPath sites in fileDatastore.py, found {len(sites)}")
    wflag = wflag and helper_uses == 2
    ltree = ast.parse((PKG / "_location.py").read_text())
    init = None
    for cls in ast.walk(ltree):
        if isinstance(cls, ast.ClassDef) and cls.name == "Location":
            init = next((f for f in cls.body if isinstance(f, ast.FunctionDef) and f.name == "__init__"), None)
    if init is None:
        raise Untranslatable("Location.__init__ not found")
    guarded = False
    for node in ast.walk(init):
        if isinstance(node, ast.If) and "trusted_path" in ast.unparse(node.test) and "not trusted_path" in ast.unparse(node.test):
            body = ast.unparse(node)
            if "relative_to" in body and any(isinstance(n, ast.Raise) for n in ast.walk(node)):
                guarded = True
    flag = (not any(sites)) and guarded
    # 5539e78: StoredFileInfo.file_location -- the location of a RELATIVE record path is built untrusted as well
    stree = ast.parse((PKG / "datastore" / "stored_file_info.py").read_text())
    fl = None
    for cls in ast.walk(stree):
        if isinstance(cls, ast.ClassDef) and cls.name == "StoredFileInfo":
            fl = next((f for f in cls.body if isinstance(f, ast.FunctionDef) and f.name == "file_location"), None)
    if fl is None:
        raise Untranslatable("StoredFileInfo.file_location not found")
    rsites = []
    for node in ast.walk(fl):
        if isinstance(node, ast.Call) and isinstance(node.func, ast.Attribute) and node.func.attr in ("from_uri", "fromPath", "fromUri"):
            kw = {k.arg: k.value for k in node.keywords}
            tp = kw.get("trusted_path")
            if tp is None:
                default = _factory_default(ltree, node.func.attr)
                rsites.append(default)
            elif isinstance(tp, ast.Constant) and isinstance(tp.value, bool):
                rsites.append(tp.value)
            else:
                raise Untranslatable(f"trusted_path is not a literal at stored_file_info.py line {node.lineno}")
    if len(rsites) != 1:
        raise Untranslatable(f"expected 1 factory call in StoredFileInfo.file_location, found {len(rsites)}")
    rflag = (not any(rsites)) and guarded
    # 2da36a1: _finishIngest and ingest_zip refuse datasets the datastore already holds BEFORE anything is transferred
    iflag = _ingest_checked(tree)
    return {"Gen/TrashGen.v": "(* GENERATED on every run by harness/props/c09.py (translate_location_check) from\n"
                              "   python/lsst/daf/butler/datastores/fileDatastore.py, datastore/stored_file_info.py and _location.py.\n"
                              "   Do not edit, do not commit. *)\n"
                              f"Definition GEN_LOCATION_CHECKED : bool := {'true' if flag else 'false'}.\n"
                              f"Definition GEN_RECORD_CHECKED : bool := {'true' if rflag else 'false'}.\n"
                              f"Definition GEN_INGEST_CHECKED : bool := {'true' if iflag else 'false'}.\n"
                              f"Definition GEN_WRITE_RULE : bool := {'true' if wflag else 'false'}.\n"}


def _write_rule(tree) -> bool:
    """a79f022: FileDatastore._location_from_template exists and (1) builds `location` untrusted from template.format(ref),
    (2) builds a second location untrusted from `location.pathInStore.path`, (3) raises under an `if` that compares the two
    `.uri` with `!=`, (4) returns `location`.  Absent helper = False (the code before); a helper of another shape raises."""
    helper = None
    for cls in ast.walk(tree):
        if isinstance(cls, ast.ClassDef) and cls.name == "FileDatastore":
            helper = next((f for f in cls.body if isinstance(f, ast.FunctionDef) and f.name == "_location_from_template"), None)
    if helper is None:
        return False
    calls = [n for n in ast.walk(helper) if isinstance(n, ast.Call) and isinstance(n.func, ast.Attribute) and n.func.attr == "fromPath"]
    if len(calls) != 2:
        raise Untranslatable(f"_location_from_template: expected 2 fromPath calls, found {len(calls)}")
    for c in calls:
        tp = {k.arg: k.value for k in c.keywords}.get("trusted_path")
        if tp is not None and not (isinstance(tp, ast.Constant) and tp.value is False):
            return False
    args = sorted(ast.unparse(c.args[0]) for c in calls if c.args)
    if args != ["location.pathInStore.path", "template.format(ref)"]:
        raise Untranslatable(f"_location_from_template: unexpected fromPath arguments {args}")
    compared = False
    for n in ast.walk(helper):
        if isinstance(n, ast.If) and any(isinstance(r, ast.Raise) for r in ast.walk(n)):
            t = n.test
            if (isinstance(t, ast.Compare) and len(t.ops) == 1 and isinstance(t.ops[0], ast.NotEq)
                    and sorted([ast.unparse(t.left), ast.unparse(t.comparators[0])]) == ["location.uri", "recorded.uri"]):
                compared = True
    rets = [n for n in ast.walk(helper) if isinstance(n, ast.Return)]
    if not (len(rets) == 1 and ast.unparse(rets[0].value) == "location"):
        raise Untranslatable("_location_from_template: does not return `location`")
    names = {t.id for n in ast.walk(helper) if isinstance(n, ast.Assign) for t in n.targets if isinstance(t, ast.Name)}
    return compared and {"location", "recorded"} <= names


def _ingest_checked(tree) -> bool:
    """fileDatastore.py: `_refuse_datasets_already_stored` consults bridge.check AND the record table and raises; `_finishIngest`
    calls it before its first `_extractIngestInfo`, `ingest_zip` calls it before its first `transfer_from`.  A missing call =
    False (the code before 2da36a1); anything else unexpected raises."""
    fns = {}
    for cls in ast.walk(tree):
        if isinstance(cls, ast.ClassDef) and cls.name == "FileDatastore":
            for f in cls.body:
                if isinstance(f, ast.FunctionDef):
                    fns[f.name] = f
    for need in ("_finishIngest", "ingest_zip"):
        if need not in fns:
            raise Untranslatable(f"FileDatastore.{need} not found")
    guard = fns.get("_refuse_datasets_already_stored")
    if guard is None:
        return False
    body = ast.unparse(guard)
    if not (any(isinstance(n, ast.Raise) for n in ast.walk(guard)) and "bridge.check" in body
            and "_get_stored_records_associated_with_refs" in body):
        return False

    def first_line(fn, attr):
        lines = [n.lineno for n in ast.walk(fn) if isinstance(n, ast.Call) and isinstance(n.func, ast.Attribute) and n.func.attr == attr]
        return min(lines) if lines else None
    ok = True
    for fname, effect in (("_finishIngest", "_extractIngestInfo"), ("ingest_zip", "transfer_from")):
        g, e = first_line(fns[fname], "_refuse_datasets_already_stored"), first_line(fns[fname], effect)
        if e is None:
            raise Untranslatable(f"{fname}: no call of {effect} found")
        if g is None or g > e:
            ok = False
        else:
            # the call must be a plain statement of the function body (not under an `if`)
            if not any(isinstance(st, ast.Expr) and isinstance(st.value, ast.Call) and isinstance(st.value.func, ast.Attribute)
                       and st.value.func.attr == "_refuse_datasets_already_stored" for st in fns[fname].body):
                ok = False
    return ok


def _factory_default(ltree, name):
    """default of the trusted_path parameter of LocationFactory.<name> (fail-closed)"""
    for cls in ast.walk(ltree):
        if isinstance(cls, ast.ClassDef) and cls.name == "LocationFactory":
            for f in cls.body:
                if isinstance(f, ast.FunctionDef) and f.name == name:
                    args = f.args
                    for a, d in list(zip(args.kwonlyargs, args.kw_defaults)) + list(zip(args.args[-len(args.defaults):] if args.defaults else [], args.defaults)):
                        if a.arg == "trusted_path" and isinstance(d, ast.Constant) and isinstance(d.value, bool):
                            return d.value
    raise Untranslatable(f"default of trusted_path in LocationFactory.{name} not found")


# ---------------------------------------------------------------------------------------------------------
# generator
# ---------------------------------------------------------------------------------------------------------
def gen_history(r, nops, hostile, mixed=False):
    def pick(plain, bad, n):
        out = []
        while len(out) < n:
            c = r.choice(bad) if (hostile and r.random() < 0.5) else r.choice(plain)
            if c not in out:
                out.append(c)
        return out
    runs = [x for x in pick(PLAIN_RUNS, HOSTILE_RUNS, r.randint(2, 4)) if ndotdot(x) <= 2]
    if hostile and r.random() < 0.25:     # aliasing pairs on purpose
        runs = list(dict.fromkeys(runs + r.choice([["aJb", "a%4ab"], ["aAb", "a%41b"], ["a/b", "a%2fb"], ["a_b", "a%5fb"]])))
    insts = []
    for n, name in enumerate(pick(PLAIN_INST, HOSTILE_INST, r.randint(1, 2))):
        dets = pick(PLAIN_DET, HOSTILE_DET, 2)
        insts.append({"name": name, "detectors": [{"id": i, "full_name": d} for i, d in enumerate(dets)]})
    files = [{"rel": "sentinel/s1.yaml", "content": "{s: 1}\n"}, {"rel": "sentinel/dtD/dtD_Cam_det0_..yaml", "content": "{s: 2}\n"},
             {"rel": "sentinel/deep/keep.txt", "content": "keep\n"}, {"rel": "sentinel/dtD/dtD_Cam_det0_.._sentinel.yaml", "content": "{s: 3}\n"}]
    nstage = r.randint(3, 6)
    for i in range(nstage):
        files.append({"rel": f"stage/f{i}.yaml", "content": f"{{v: {100 + i}}}\n"})
    h = {"instruments": insts, "runs": runs, "files": files, "ops": []}
    ops = h["ops"]
    used = set()                       # (dt, inst, det, run) triples ever handed to the registry
    ds = {}                            # k -> {"d": fields, "st": live|trashed|unstored|gone, "direct": bool}
    stage = {f"stage/f{i}.yaml" for i in range(nstage)}
    direct_used = set()
    live_runs = list(runs)
    nk = [0]
    nz = [0]
    zips = {}                          # z -> ks

    def fresh_fields(run=None):
        for _ in range(30):
            inst = r.choice(insts)
            dt = r.choice(["dtD", "dtD", "dtI"])
            d = {"dt": dt, "inst": inst["name"], "run": run or r.choice(live_runs)}
            if dt == "dtD":
                det = r.choice(inst["detectors"])
                d["det"] = det["id"]
                d["detname"] = det["full_name"]
            key = (dt, d["inst"], d.get("det"), d["run"])
            if unmodelled([d["run"], d["inst"], d.get("detname", "")]):
                continue
            if key not in used:
                used.add(key)
                return d
        return None

    def newk(d, **kw):
        nk[0] += 1
        ds[nk[0]] = dict(d=d, st="live", **kw)
        return nk[0]

    def some(pred, lo=1, hi=3):
        c = [k for k, v in ds.items() if pred(v)]
        r.shuffle(c)
        return sorted(c[:r.randint(lo, hi)])

    def do_zip(ks):
        nz[0] += 1
        z = nz[0]
        zips[z] = ks
        ops.append({"op": "mkzip", "z": z, "ks": ks})
        ops.append({"op": "prune", "ks": ks, "purge": True})
        ops.append({"op": "ingestzip", "z": z, "ks": ks})
        for k in ks:
            ds[k]["zip"] = z

    def plain_runs():
        return [x for x in live_runs if "%" not in x and not unmodelled([x])]

    def prelude():
        """a file shared by several refs AND a zip with several members, stored at the same time"""
        pr = plain_runs()
        if not pr or not stage:
            return
        for _ in range(r.choice([1, 1, 2])):
            run = r.choice(pr)
            refs = [d for d in (fresh_fields(run) for _ in range(r.choice([2, 2, 3]))) if d]
            refs = [d for d in refs if d["dt"] == refs[0]["dt"]] if refs else []
            if len(refs) >= 2:
                ks = [newk(d) for d in refs]
                for k in ks:
                    ds[k]["grp"] = ks[0]
                ops.append({"op": "ingest", "mode": "copy", "ks": ks, "refs": refs, "src": r.choice(sorted(stage))})
        for _ in range(r.choice([1, 1, 2])):
            run = r.choice(pr)
            ks = []
            for _ in range(r.choice([2, 3])):
                d = fresh_fields(run)
                if d:
                    ks.append(newk(d))
                    ops.append({"op": "put", "k": ks[-1], **d})
            if len(ks) >= 2:
                do_zip(ks)

    def mixed_batch():
        """one removal call whose trash holds fragment (zip member) and plain paths together"""
        zl = {}
        for k, v in ds.items():
            if v.get("zip") and v["st"] == "live":
                zl.setdefault(v["zip"], []).append(k)
        groups = {}
        for k, v in ds.items():
            if v.get("grp") and v["st"] == "live" and not v.get("zip"):
                groups.setdefault(v["grp"], []).append(k)
        sharers = [g for g in groups.values() if len(g) >= 2]
        plain = [k for k, v in ds.items() if v["st"] == "live" and not v.get("zip") and not v.get("grp") and not v.get("direct")]
        if not zl:
            return None
        z = r.choice(sorted(zl))
        variant = r.choice(["member+sharer", "member+sharer", "allmembers+sharer", "twozips", "member+plain", "member+sharer+plain"])
        ks = [r.choice(zl[z])]
        if variant == "allmembers+sharer":
            ks = list(zl[z])
        if variant == "twozips" and len(zl) >= 2:
            z2 = r.choice([q for q in sorted(zl) if q != z])
            ks.append(r.choice(zl[z2]))
        if "sharer" in variant and sharers:
            g = r.choice(sharers)
            ks += r.sample(g, r.randint(1, len(g) - 1))          # at least one sibling stays stored
        if "plain" in variant and plain:
            ks.append(r.choice(plain))
        return sorted(set(ks)) if len(set(ks)) >= 2 else None

    if mixed:
        prelude()
    while len(ops) < nops:
        if not live_runs:
            break
        x = r.random()
        if mixed and x < 0.16:
            ks = mixed_batch()
            if ks:
                purge = r.random() < 0.5
                if r.random() < 0.7:
                    ops.append({"op": "prune", "ks": ks, "purge": purge})
                    for v in ds.values():
                        if v["st"] == "trashed":
                            v["st"] = "unstored"
                    for k in ks:
                        ds[k]["st"] = "gone" if purge else "unstored"
                else:
                    ops.append({"op": "trash", "ks": ks})
                    ops.append({"op": "empty"})
                    for v in ds.values():
                        if v["st"] == "trashed":
                            v["st"] = "unstored"
                    for k in ks:
                        ds[k]["st"] = "unstored"
            elif not any(v.get("zip") and v["st"] == "live" for v in ds.values()):
                prelude()
        elif x < 0.24:
            d = fresh_fields()
            if d:
                ops.append({"op": "put", "k": newk(d), **d})
        elif x < 0.44 and stage:
            src = r.choice(sorted(stage))
            mode = r.choice(["copy", "copy", "move"])
            if src in direct_used:
                mode = "copy"                # moving a file that a direct-ingested dataset points at would be the caller's doing
            if r.random() < 0.15 and any(v["st"] == "live" for v in ds.values()):
                ks = some(lambda v: v["st"] == "live", 1, 1)          # re-ingest of a held dataset
                refs = [ds[k]["d"] for k in ks]
            else:
                run = r.choice(live_runs)
                refs = [d for d in (fresh_fields(run) for _ in range(r.choice([1, 1, 2, 3]))) if d]
                if not refs:
                    continue
                refs = [d for d in refs if d["dt"] == refs[0]["dt"]] or refs[:1]
                ks = [newk(d) for d in refs]
                if len(ks) > 1:
                    for k in ks:
                        ds[k]["grp"] = ks[0]
            ops.append({"op": "ingest", "mode": mode, "ks": ks, "refs": refs, "src": src})
            if mode == "move":
                stage.discard(src)          # (a refused move puts it back; not reused either way)
        elif x < 0.52:
            src = r.choice(sorted(stage) + ["sentinel/s1.yaml"]) if stage else "sentinel/s1.yaml"
            run = r.choice(live_runs)
            refs = [d for d in (fresh_fields(run) for _ in range(r.choice([1, 2]))) if d]
            refs = [d for d in refs if d["dt"] == refs[0]["dt"]]
            if refs:
                direct_used.add(src)
                ops.append({"op": "ingest", "mode": "direct", "ks": [newk(d, direct=True) for d in refs], "refs": refs, "src": src})
        elif x < 0.545:
            # a file BELOW the root that the datastore does not own: direct ingest (one or two refs), later pruned
            run = r.choice(live_runs)
            refs = [d for d in (fresh_fields(run) for _ in range(r.choice([1, 1, 2]))) if d]
            refs = [d for d in refs if d["dt"] == refs[0]["dt"]] if refs else []
            if refs:
                n = len(ops)
                ops.append({"op": "mkfile", "rel": f"repo/user_archive/u{n}.yaml", "content": f"{{v: {300 + n}}}\n"})
                ops.append({"op": "ingest", "mode": "direct", "ks": [newk(d, direct=True) for d in refs], "refs": refs,
                            "src": f"repo/user_archive/u{n}.yaml"})
        elif x < 0.57:
            d = fresh_fields()
            if d:
                n = len(ops)
                ops.append({"op": "mkfile", "rel": f"repo/inplace/p{n}.yaml", "content": f"{{v: {200 + n}}}\n"})
                ops.append({"op": "ingest", "mode": "inplace", "ks": [newk(d)], "refs": [d], "rel": f"inplace/p{n}.yaml"})
        elif x < 0.66:
            # (datasets in a run with '%' may be aliases of one artifact in two runs: Butler.ingest_zip refuses such a zip
            #  with "refs must all share the same run" before the datastore is involved)
            ks = some(lambda v: v["st"] == "live" and not v.get("direct") and not v.get("zip") and "%" not in v["d"]["run"], 2, 3)
            if len(ks) >= 2:
                do_zip(ks)
        elif x < 0.69 and zips:
            z = r.choice(sorted(zips))
            ops.append({"op": "ingestzip", "z": z, "ks": zips[z]})       # re-ingest (refused when any member is still held)
            if all(ds[k]["st"] == "gone" for k in zips[z]):
                for k in zips[z]:
                    ds[k]["st"] = "live"
        elif x < 0.76:
            ks = some(lambda v: v["st"] == "live")
            if ks:
                ops.append({"op": "trash", "ks": ks})
                for k in ks:
                    ds[k]["st"] = "trashed"
        elif x < 0.82:
            ops.append({"op": "empty"})
            for v in ds.values():
                if v["st"] == "trashed":
                    v["st"] = "unstored"
        elif x < 0.96:
            ks = some(lambda v: v["st"] in ("live", "trashed", "unstored"))
            purge = r.random() < 0.5
            if ks:
                ops.append({"op": "prune", "ks": ks, "purge": purge})
                for v in ds.values():
                    if v["st"] == "trashed":
                        v["st"] = "unstored"
                for k in ks:
                    ds[k]["st"] = "gone" if purge else "unstored"
        elif len(live_runs) > 1:
            run = r.choice(live_runs)
            live_runs.remove(run)
            # every dataset ever created in the run: a purged one may have come back through a zip re-ingest
            ks = sorted(k for k, v in ds.items() if v["d"]["run"] == run)
            ops.append({"op": "removerun", "run": run, "ks": ks})
            for v in ds.values():
                if v["st"] == "trashed":
                    v["st"] = "unstored"
            for k in ks:
                ds[k]["st"] = "gone"
    return h


# ---------------------------------------------------------------------------------------------------------
# Coq emission
# ---------------------------------------------------------------------------------------------------------
def ckey(rel: str) -> str:
    return clist([cstr(c) for c in rel.split("/")])


def cfields(d) -> str:
    f = [("datasetType", d["dt"]), ("run", d["run"]), ("instrument", d["inst"])]
    if d["dt"] == "dtD":
        f += [("detector", str(d["det"])), ("detector.full_name", d["detname"])]
    return clist([f"({cstr(k)}, {cstr(v)})" for k, v in f])


def py_loc(p: str) -> str:
    """listing key of a RELATIVE record path (decode as lsst.resources does; used only to order rows, see Reorder)"""
    import posixpath
    head, sep, tail = p.rpartition("/")
    if "#" in tail:
        tail = tail.rsplit("#", 1)[0]
    q = head + sep + tail
    if UPESC.search(q):
        q = posixpath.normpath(unquote(q))
    return posixpath.normpath(unquote(q))


class Cids:
    """content hash -> small number"""
    def __init__(self):
        self.m = {}

    def __call__(self, sha):
        return self.m.setdefault(sha, len(self.m) + 1)


def cfiles(files: dict, cid) -> str:
    return clist([f"({ckey(k)}, {cn(cid(v))})" for k, v in sorted(files.items())])


def cobs(st, cid) -> str:
    out = OUT_CODE.get(st["out"], 99)
    recs = clist([f"({cn(k)}, {cstr(p)})" for k, p in st["recs"]])
    return (f"(mkObs {cn(out)} {cfiles(st['files'], cid)} {recs} {clist([cn(k) for k in st['live']])} "
            f"{clist([cn(k) for k in st['trash']])})")


def model_ops(h, res, cid):
    """One model operation per implementation step (None when the step cannot be expressed: comparison stops there)."""
    out = []
    steps = res["steps"]
    zinfo = {}
    for n, op in enumerate(h["ops"]):
        before, after = steps[n], steps[n + 1]
        kind = op["op"]
        if kind == "put":
            changed = [k for k, v in after["files"].items() if before["files"].get(k) != v]
            # the one file whose content is new (a put that fails after the formatter wrote may leave it behind)
            c = cid(after["files"][changed[0]]) if len(changed) == 1 else 0
            out.append(f"Put {cn(op['k'])} (gen_format GEN_DEFAULT {cfields(op)}) \".yaml\" {cn(c)}")
        elif kind == "ingest":
            ks = clist([cn(k) for k in op["ks"]])
            if op["mode"] in ("copy", "move"):
                out.append(f"Ingest {'Copy' if op['mode'] == 'copy' else 'Move'} {ks} (gen_format GEN_DEFAULT {cfields(op['refs'][0])}) "
                           f"\".yaml\" {ckey('../' + op['src'])}")
            elif op["mode"] == "direct":
                out.append(f"IngestDirect {ks} {cstr('/' + op['src'])}")
            else:
                out.append(f"IngestInPlace {ks} {cstr(op['rel'])}")
        elif kind == "mkzip":
            z = after.get("zip")
            if after["out"] != "ok" or not z:
                out.append(None)
                continue
            zinfo[op["z"]] = z
            key = "../" + z["src"]
            out.append(f"Ext {ckey(key)} (Some {cn(cid(after['files'][key]))})")
        elif kind == "ingestzip":
            z = zinfo.get(op["z"])
            if not z:
                out.append(None)
                continue
            mem = clist([f"({cn(k)}, {cstr(m)})" for k, m in z["members"]])
            sha = before["files"].get("../" + z["src"])
            out.append(f"IngestZip {mem} {cstr(z['zpath'])} {cn(cid(sha))}")
        elif kind == "trash":
            out.append(f"Trash {clist([cn(k) for k in op['ks']])}")
        elif kind == "empty":
            out.append("EmptyTrash")
        elif kind == "prune":
            out.append(f"Prune {clist([cn(k) for k in op['ks']])}")
        elif kind == "removerun":
            out.append(f"RemoveRun {clist([cn(k) for k in op['ks']])}")
        elif kind == "mkfile":
            rel = os.path.relpath(op["rel"], "repo")
            sha = hashlib.sha1(op["content"].encode()).hexdigest()[:12]
            out.append(f"Ext {ckey(rel)} (Some {cn(cid(sha))})")
        else:
            out.append(None)
    return out


# ---------------------------------------------------------------------------------------------------------
# the property oracle (implementation observations only)
# ---------------------------------------------------------------------------------------------------------
def names_of(h, op):
    ns = []
    for d in ([op] if op["op"] == "put" else op.get("refs", [])):
        ns += [d.get("run", ""), d.get("inst", ""), d.get("detname", "") or ""]
    return ns


def oracle(h, res):
    """-> list of (signature, step index, description)"""
    fails = []
    steps = res["steps"]
    all_names = list(h["runs"]) + [i["name"] for i in h["instruments"]] + [d["full_name"] for i in h["instruments"] for d in i["detectors"]]
    hist_pct = any(ESC.search(n) for n in all_names)
    # datasets whose names differ from another dataset's only by percent-encoding (they may name ONE file): only for
    # those is a lost artifact attributed to the known aliasing defect
    fields = {}
    for op in h["ops"]:
        if op["op"] == "put":
            fields[op["k"]] = op
        elif op["op"] == "ingest":
            for k, d in zip(op["ks"], op["refs"]):
                fields.setdefault(k, d)

    def raw(d):
        return (d["dt"], d["run"], d["inst"], d.get("detname", ""))

    def full_unquote(x):
        for _ in range(6):
            y = unquote(x)
            if y == x:
                break
            x = y
        return x

    def dec(d):
        return tuple(full_unquote(x) for x in raw(d))
    aliased = {k for k, d in fields.items() if any(k2 != k and raw(d2) != raw(d) and dec(d2) == dec(d) for k2, d2 in fields.items())}
    foreign_inside = set()       # files below the root that the datastore does not own (ingested with transfer="direct")
    for n, op in enumerate(h["ops"]):
        b, a = steps[n], steps[n + 1]
        kind = op["op"]
        if kind == "mkfile":
            continue
        tag = kind + (":" + op["mode"] if kind == "ingest" else "")
        if kind == "ingest" and op["mode"] == "direct" and op["src"].startswith("repo/"):
            foreign_inside.add(op["src"][len("repo/"):])
        # (3) a file the datastore does not own is never removed, also when it lives below the root
        for key in sorted(foreign_inside):
            if key in b["files"] and key not in a["files"]:
                fails.append((f"foreign-file-removed:{tag}:direct-under-root", n,
                              f"step {n} ({tag}, outcome {a['out']}): file {key}, ingested with transfer='direct' (not owned by the datastore), was removed"))
        refused = "" if a["out"] == "ok" else ":refused"
        # (1) nothing outside the root is created, changed or removed
        for key in sorted(set(b["files"]) | set(a["files"])):
            if not (key == ".." or key.startswith("../")):
                continue
            if b["files"].get(key) == a["files"].get(key):
                continue
            if kind == "ingest" and op["mode"] == "move" and key == "../" + op["src"] and a["out"] == "ok" and key not in a["files"]:
                continue                       # the caller asked for the source to be moved
            if kind == "mkzip" and key.startswith(f"../stage/z{op['z']}/") and key not in b["files"]:
                continue                       # the caller asked for this output
            change = "created" if key not in b["files"] else ("removed" if key not in a["files"] else "overwritten")
            own = names_of(h, op)
            cause = "pct-escape" if (any(ESC.search(x) for x in own) if own else hist_pct) else "plain"
            if cause == "pct-escape" and nested_escape(own if own else all_names):
                cause = "pct-escape-x3"
            fails.append((f"outside-root:{tag}{refused}:{change}:{cause}", n,
                          f"step {n} ({tag}, outcome {a['out']}): file {key} outside the datastore root was {change}"))
        # (2) a dataset that is still stored and was readable still has its artifact
        for k in a["live"]:
            ks = str(k)
            if k in b["live"] and b["get"].get(ks, "NotFound") != "NotFound" and a["get"].get(ks, "ok") == "NotFound":
                if kind in ("prune", "trash", "empty", "removerun") and k in op.get("ks", []):
                    continue
                # ... or that share their artifact (same record text: multi-ref ingest, zip) with such a dataset
                alias_paths = {p_ for k_, p_ in b["recs"] if k_ in aliased}
                via_alias = k in aliased or any(k_ == k and p_ in alias_paths for k_, p_ in b["recs"])
                # ... or whose record text differs from another dataset's record text although both resolve to ONE file (the
                # mechanism of the known defect itself, guard (1) of the theorems: e.g. put records the decoded text 'aJb/..',
                # ingest the template text 'a%4ab/..', also across instruments 'Cam/A' / 'Cam_A' that the template merges)
                def art(x):                  # StoredFileInfo.artifact_path: zip members / fragments of ONE artifact text are not aliases
                    return x.rsplit("#", 1)[0] if "#" in x else x
                own = {art(p_) for k_, p_ in b["recs"] if k_ == k and not p_.startswith("/")}
                if not via_alias and any(k_ != k and not q.startswith("/") and art(q) not in own and any(py_loc(q) == py_loc(p_) for p_ in own)
                                         for k_, q in b["recs"]):
                    via_alias = True
                cause = "" if refused else (":pct-escape" if via_alias else ":plain")
                fails.append((f"live-dataset-lost-artifact:{tag}{refused}{cause}", n,
                              f"step {n} ({tag}, outcome {a['out']}): dataset {k} is still stored but its artifact is gone (get raises FileNotFoundError)"))
    return fails


def nontrivial(h, res):
    """shared artifact + a removal while a sibling stays + a file actually deleted inside the root"""
    steps = res["steps"]
    shared = removed_with_sibling = deleted = False
    for n, op in enumerate(h["ops"]):
        b, a = steps[n], steps[n + 1]
        by_art = {}
        for k, p in a["recs"]:
            by_art.setdefault(p.split("#zip-path")[0], set()).add(k)
        if any(len(v) > 1 for v in by_art.values()):
            shared = True
        if op["op"] in ("prune", "empty", "removerun"):
            if any(k not in b["files"] or True for k in ()):
                pass
            gone = {k for k, _ in b["recs"]} - {k for k, _ in a["recs"]}
            for v in by_art.values():
                pass
            barts = {}
            for k, p in b["recs"]:
                barts.setdefault(p.split("#zip-path")[0], set()).add(k)
            if any((v & gone) and (v - gone) for v in barts.values()):
                removed_with_sibling = True
            if any(k not in a["files"] and not k.startswith("../") for k in b["files"]):
                deleted = True
    return shared and removed_with_sibling and deleted


# ---------------------------------------------------------------------------------------------------------
def run_batch(ctx, hists, label, per_worker=8):
    payloads = [{"histories": hists[i:i + per_worker]} for i in range(0, len(hists), per_worker)]
    results = parallel_workers("c09_impl", "run_histories", payloads, timeout=60 + 25 * per_worker)
    pairs = []
    for pl, (status, res) in zip(payloads, results):
        if status != "ok":
            ctx.tie_broken("harness", f"{label}-worker", f"{status}: {str(res)[:500]}")
            continue
        for h, rr in zip(pl["histories"], res):
            if rr.get("skipped"):
                continue
            if "harness_error" in rr:
                ctx.tie_broken("harness", f"{label}-history", rr["harness_error"] + rr.get("tb", "")[-600:])
                continue
            pairs.append((h, rr))
    return pairs


XCHECK_MAX = 10


def correspond(ctx, name, pairs, expect=None):
    cases, meta, xcheck, xg_cases = [], [], [], []
    for hi, (h, res) in enumerate(pairs):
        ctx.count(len(h["ops"]))
        for op in h["ops"]:
            ctx.hist("ops", op["op"] + (":" + op["mode"] if op["op"] == "ingest" else ""))
        for st in res["steps"][1:]:
            ctx.hist("outcomes", st["out"])
        fails = oracle(h, res)
        for sig, n, what in fails:
            ctx.hist("oracle", sig)
            ctx.oracle_fail(sig, {"history": h, "step": n, "observed": res["steps"][n + 1]["out"],
                                  "files_before": res["steps"][n]["files"], "files_after": res["steps"][n + 1]["files"]}, what)
        if nontrivial(h, res):
            ctx.nontrivial({"ops": h["ops"], "runs": h["runs"]})
        # the model is not claimed to follow the implementation beyond a write that left the root through put
        # (the formatter writes to a differently decoded name than the one the rollback removes)
        cut = len(h["ops"])
        for sig, n, _ in fails:
            if sig.startswith("outside-root:put"):
                cut = min(cut, n)
        cid = Cids()
        init = cfiles(res["steps"][0]["files"], cid)
        mops = model_ops(h, res, cid)
        items, gops, step_of_item = [], [], []
        for n, m in enumerate(mops[:cut]):
            if m is None:
                break
            b4, af = res["steps"][n], res["steps"][n + 1]
            if h["ops"][n]["op"] in ("empty", "prune", "removerun") and af["out"] == "ValueError":
                # emptyTrash was refused at a record that resolves outside the root (5539e78) after removing the artifacts of
                # the rows the database returned before it: tell the model which rows those were (the order is the database's)
                gone = {k for k in b4["files"] if k not in af["files"]}
                first = sorted({k for k, p_ in af["recs"] if k in af["trash"] and not p_.startswith("/") and py_loc(p_) in gone})
                ro = f"Reorder {clist([cn(k) for k in first])}"
                items.append(f"({ro}, {cobs(dict(b4, out='ok'), cid)})")
                gops.append(ro)
                step_of_item.append(None)
                ctx.hist("compared", "refused-emptyTrash-order-supplied")
            if af["out"] not in OUT_CODE and all(b4[k] == af[k] for k in ("files", "recs", "live", "trash")):
                # refused by the REGISTRY before the datastore was reached (e.g. the run has been removed): outside the
                # model; what is checked is that nothing changed
                ctx.hist("compared", "registry-refused-noop:" + af["out"])
                items.append(f"(Trash [], {cobs(dict(af, out='ok'), cid)})")
                gops.append("Trash []")
                step_of_item.append(n)
                continue
            items.append(f"({m}, {cobs(af, cid)})")
            gops.append(m)
            step_of_item.append(n)
        if cut < len(h["ops"]):
            ctx.hist("compared", "truncated-at-outside-put")
        cases.append(f"({init}, {clist(items)})")
        meta.append((hi, len(items), step_of_item))
        failed_at = {n for _, n, _ in fails}
        flagged = ["(" + m + ", " + ("true" if step_of_item[i] in failed_at else "false") + ")" for i, m in enumerate(gops)]
        xg_cases.append(f"({init}, {clist(flagged)})")
        for n in failed_at:
            ctx.hist("guard_crosscheck", "failure-at-compared-step" if n in step_of_item else "failure-beyond-comparison")
        # cross-check theorem <-> oracle: an oracle failure at a compared step must coincide with a violated guard of the
        # theorems in the model's state before that step (otherwise theorem + correspondence would contradict the oracle)
        if fails and len(xcheck) < XCHECK_MAX:
            want = sorted({i for i, n in enumerate(step_of_item) if n in failed_at})
            if want:
                xcheck.append((hi, want, f"guards (init_state {init}) {clist(gops)}"))
    if not cases:
        return
    bad = ctx.coq_cases(name, HDR, cases, "chk_hist", shard=25, timeout=900)
    if bad is None:
        return
    # every history: an oracle failure at a compared step must meet a violated guard in the model (chk_xguard, vm_compute)
    badset = {meta[i][0] for i in bad}
    xbad = ctx.coq_cases(f"{name}_xguard", HDR, xg_cases, "chk_xguard", shard=40, timeout=900)
    for i in (xbad or []):
        hi = meta[i][0]
        if hi in badset:
            continue                   # the model does not follow this history anyway (reported below)
        ctx.hist("guard_crosscheck", "UNEXPLAINED")
        fl = sorted({n for _, n, _ in oracle(*pairs[hi])})
        ctx.tie_broken("correspondence", f"{name}-guards",
                       f"oracle failure at step(s) {fl} of a history although every guard of the theorems holds in the model there: "
                       f"{json.dumps(pairs[hi][0]['ops'])[:600]}")
    for hi, want, expr in xcheck:
        if hi in badset:
            continue
        rc, out = ctx.coq_eval(f"{name}_guards{hi}", HDR, expr)
        tuples = re.findall(r"\((true|false),\s*(true|false),\s*(true|false),\s*(true|false),\s*(true|false)\)", out)
        if rc != 0 or not tuples:
            ctx.tie_broken("correspondence", f"{name}-guards", f"could not evaluate the guards: {out[-300:]}")
            continue
        for n in want:
            if n < len(tuples):
                ctx.hist("guard_crosscheck", "explained" if "false" in tuples[n] else "UNEXPLAINED")
                if "false" not in tuples[n]:
                    ctx.tie_broken("correspondence", f"{name}-guards",
                                   f"oracle failure at compared item {n} of history {json.dumps(pairs[hi][0]['ops'])[:400]} although every guard of the theorems holds in the model")
    for i in bad[:3]:
        hi, nsteps, soi = meta[i]
        h, res = pairs[hi]
        rc, out = ctx.coq_eval(f"{name}_diag{i}", HDR, f"let c := {cases[i]} in first_bad 0%N (init_state (fst c)) (snd c)")
        m = re.search(r"Some\s*\(\s*(\d+)%?N?", out)
        step = int(m.group(1)) if m else -1
        if 0 <= step < len(soi):
            step = soi[step] if soi[step] is not None else (soi[step + 1] if step + 1 < len(soi) else -1)
        imp = res["steps"][step + 1] if step >= 0 else {}
        ctx.disagreement(name, {"step": step, "op": h["ops"][step] if 0 <= step < len(h["ops"]) else None,
                                "impl": {k: imp.get(k) for k in ("out", "msg", "recs", "live", "trash", "files")}, "history": h},
                         "model: " + " ".join(out.split())[-900:])
        if os.environ.get("C09_DEBUG"):
            print("DISAGREE", json.dumps({"step": step, "op": h["ops"][step] if 0 <= step < len(h["ops"]) else None,
                                          "impl": {k: imp.get(k) for k in ("out", "msg", "recs", "live", "trash", "files")}}), flush=True)
            print("MODEL", " ".join(out.split())[-1500:], flush=True)
    if len(bad) > 3:
        ctx.tie_broken("correspondence", name, f"{len(bad)} histories disagree (first three detailed above)")


ALPHA = ["a", "B", "_", " ", "/", ".", "..", "#", "%", "%2e", "%2E", "%41", "%4a", "%2F", "%2f", "%zz", "%5F", "x", "1"]


def path_cases(ctx):
    r = ctx.rng
    n = 250 if ctx.quick else 1500
    insts = [{"name": nm, "detectors": [{"id": i, "full_name": d} for i, d in enumerate(PLAIN_DET + HOSTILE_DET)]}
             for nm in PLAIN_INST + HOSTILE_INST]
    cases = []
    runs = PLAIN_RUNS + HOSTILE_RUNS
    for i in range(n):
        if r.random() < 0.5:
            run = r.choice(runs)
        else:
            run = "".join(r.choice(ALPHA) for _ in range(r.randint(1, 6)))
            has_esc = bool(re.search(r"%[0-9A-F]{2}", run))
            dec = unquote(unquote(run))
            if (ndotdot(run) > 2 or ndotdot(dec) > 2 or not run.strip() or dec.endswith("/") or run.endswith("/") or ("#" in run and has_esc) or len(run) > 60
                    or any(not (32 <= ord(ch) < 127) for ch in dec)):
                run = "r1"
        inst = r.choice(insts)
        dt = r.choice(["dtD", "dtI"])
        det = r.choice(inst["detectors"])
        if unmodelled([run, inst["name"], det["full_name"] if dt == "dtD" else ""]):
            continue
        cases.append({"dt": dt, "inst": inst["name"], "det": det["id"], "detname": det["full_name"], "run": run})
    status, res = parallel_workers("c09_impl", "format_paths", [{"instruments": insts, "cases": cases}], timeout=300)[0]
    if status != "ok":
        ctx.tie_broken("harness", "format_paths", f"{status}: {str(res)[:400]}")
        return
    ccases = []
    for c, o in zip(cases, res):
        ctx.count()
        if o[0] == "ok":
            obs = f"(Some ({cstr(o[1])}, {ckey(o[2])}))" if not o[2].startswith("/") else f"(Some ({cstr(o[1])}, {clist([cstr('..'), cstr('/')] + [cstr(x) for x in o[2].split('/') if x])}))"
            if o[2].startswith(("../", "/")) and not any(ESC.search(x) for x in (c["run"], c["inst"], c["detname"])):
                ctx.oracle_fail("template-target-outside-root:plain", {"case": c, "observed": o},
                                f"FileDatastore would write {o[2]} (outside its root) for {c}")
            elif o[2].startswith(("../", "/")):
                ctx.oracle_fail("template-target-outside-root:pct-escape", {"case": c, "observed": o},
                                f"FileDatastore would write {o[2]} (outside its root) for {c}")
            ctx.hist("path_cases", "outside" if o[2].startswith(("../", "/")) else "inside")
        elif o[1] == "ValueError":
            obs = "None"
            ctx.hist("path_cases", "refused")
        else:
            ctx.tie_broken("harness", "format_paths", f"unexpected {o} for {c}")
            continue
        ccases.append(f"({cfields(c)}, \".yaml\", {obs})")
        ctx.nontrivial(c)
    bad = ctx.coq_cases("paths", HDR, ccases, "chk_path", shard=300)
    for i in (bad or [])[:3]:
        ctx.disagreement("paths", {"case": cases[i], "impl": res[i]}, "model's target text / location differs")


def load_corpus():
    d = VERIF / "corpus" / "C09"
    return [(p.name, json.loads(p.read_text())) for p in sorted(d.glob("*.json"))] if d.exists() else []


def run(ctx: Ctx):
    # known_findings.json is assembled mechanically (tools/assemble.py) from the fragments known_findings.d/*.json; entries of
    # this property's own fragment that the assembled file does not have yet are read directly, so that a finding recorded
    # by the last builder is already reported as KNOWN-FINDING (the fragment is the source, the assembled file the copy)
    frag = VERIF / "known_findings.d" / "C09.json"
    if frag.exists():
        have = {k["id"] for k in ctx.known}
        ctx.known += [k for k in json.loads(frag.read_text()) if k["id"] not in have and k["property"] == "C09"]
    ctx.assumptions += [
        "POSIX file system and SQLite behave as a location->content map and a table store (modelled; compared on every run through listings of the root and its surroundings and the raw record / location / trash rows)",
        "lsst.resources.ResourcePath's treatment of relative paths (percent-decoding, '#' fragments in the last component, normalisation) is modelled for ASCII names without '?' and without a '#' next to an upper-case escape; compared on every run on hostile names",
        "translator harness/translators/template.py is trusted; its output is compared with the real datastore's put location on every run",
        "names climb at most two directory levels so that every write stays inside the private scratch directory",
    ]
    ctx.cov["rule"] = ("a history is non-trivial when some artifact was shared by two datasets (multi-ref ingest or zip), a removal took away some "
                       "but not all datasets of a shared artifact, and at least one file inside the root was actually deleted; path cases are distinct "
                       "(dataset type, data ID, run) triples resolved by the real datastore")
    ctx.regen("template", tr.translate)
    ctx.regen("location-check", translate_location_check)
    if not ctx.build_props(extra_targets=["Model/TrashCheck.vo"]):
        coq_make(["Model/TrashCheck.vo"])

    if ctx.replay:
        rep = json.loads(Path(ctx.replay).read_text())
        if rep.get("history"):
            correspond(ctx, "replay", run_batch(ctx, [rep["history"]], "replay", per_worker=1))
        return

    corpus = load_corpus()
    pairs = run_batch(ctx, [c["history"] for _, c in corpus], "corpus", per_worker=3)
    for (name, c), (h, res) in zip(corpus, pairs):
        sigs = [s for s, _, _ in oracle(h, res)]
        exp = c.get("expect_signature")
        if exp:
            ctx.hist("corpus", f"{name}:" + ("still-fails" if any(re.fullmatch(exp, s) for s in sigs) else "no-longer-fails"))
        else:
            ctx.hist("corpus", f"{name}:" + ("clean" if not sigs else "FAILS"))
    correspond(ctx, "corpus", pairs)

    path_cases(ctx)

    r = ctx.rng
    n_hist = int(os.environ.get("C09_NHIST", 160 if ctx.quick else 1000))
    nops = (8, 18) if ctx.quick else (10, 30)
    hists = [gen_history(r, r.randint(*nops), r.random() < 0.45, mixed=(i % 3 == 0)) for i in range(n_hist)]
    pairs = run_batch(ctx, hists, "generated")
    if pairs:
        ctx.sample({"history": {k: pairs[0][0][k] for k in ("runs", "instruments")}, "ops": pairs[0][0]["ops"][:6],
                    "observation_after_first_op": pairs[0][1]["steps"][1]})
    for k in range(0, len(pairs), 250):
        correspond(ctx, f"hist{k // 250}", pairs[k:k + 250])

    if ctx.broken and not ctx.oracle_failures:
        extra = [gen_history(r, r.randint(12, 30), r.random() < 0.6, mixed=r.random() < 0.5) for _ in range(int(os.environ.get("C09_NSEARCH", 250 if ctx.quick else 1000)))]
        more = run_batch(ctx, extra, "search")
        for h, res in more:
            for sig, n, what in oracle(h, res):
                ctx.oracle_fail(sig, {"history": h, "step": n}, what)
        ctx.cov["search"] = (f"{len(more)} additional histories (12-30 operations, 60% with hostile names) were run on the implementation with the "
                             f"property oracle after the tie/obligation broke; failures found: {len(ctx.oracle_failures)}")
