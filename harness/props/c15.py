"""C15 -- Boolean rewriting of predicates preserves their truth table.

Tie T: Gen/PredGen.v regenerated from Predicate._impl_and/_impl_or/from_bool/logical_and/logical_or/logical_not
       (+ the two `invert` methods); Props/C15.v is re-proved over it.
       Gen/NormalFormGen.v regenerated from the wrapper classes of normalForm.py (dispatch / distribution / negation rules,
       satisfies, flatten; harness/translators/normalform.py) and Gen/PredVisitGen.v from
       SimplePredicateVisitor.apply_logical_* (harness/translators/pred_visitor.py).
Tie K: the same formulas through the real Predicate / NormalFormExpression machinery (harness/impl/c15_impl.py,
       worker subprocesses) and through the Coq models (hand + regenerated) with vm_compute; the observable
       compared is the full truth table over all 3^n Kleene assignments; exact structure is drift-only.
Oracle: the formula's own truth table, computed here by a direct recursive evaluator (independent of model and
       implementation), must equal the table of what the implementation produced, read two ways (through
       the implementation's visitor interface and directly off the returned structure); legacy results must
       in addition be in the requested normal form.
"""
from __future__ import annotations

import itertools
import json
from pathlib import Path

from harness.common import VERIF, Ctx, cbool, clist, coq_make, parallel_workers, run_worker
from harness.translators import normalform as tr_nf
from harness.translators import pred_visitor as tr_pv
from harness.translators import predicate as tr

# ---------------------------------------------------------------------------------------------------
# formulas (JSON lists, see harness/impl/c15_impl.py) and the oracle's evaluator
# ---------------------------------------------------------------------------------------------------
K_NOT = {"T": "F", "F": "T", "U": "U"}


def k_and(a, b):
    return "F" if "F" in (a, b) else ("U" if "U" in (a, b) else "T")


def k_or(a, b):
    return "T" if "T" in (a, b) else ("U" if "U" in (a, b) else "F")


def assignments(n):
    out = [[]]
    for _ in range(n):
        out = [[x] + t for t in out for x in "TFU"]
    return out


_ASG = {}


def asg(n):
    if n not in _ASG:
        _ASG[n] = assignments(n)
    return _ASG[n]


def feval(f, v):
    """Kleene value of a formula: the property's reference semantics."""
    t = f[0]
    if t == "a":
        return v[f[1]]
    if t == "c":
        return "T" if f[1] else "F"
    if t == "n":
        return K_NOT[feval(f[1], v)]
    if t == "p":
        return feval(f[1], v)
    vals = [feval(g, v) for g in f[1:]]
    r = vals[0]
    for x in vals[1:]:
        r = k_and(r, x) if t == "&" else k_or(r, x)
    return r


def ftable(f, n):
    return "".join(feval(f, v) for v in asg(n))


def fatoms(f):
    if f[0] == "a":
        return {f[1]}
    if f[0] == "c":
        return set()
    return set().union(*[fatoms(g) for g in f[1:]])


def fleaves(f):
    return 1 if f[0] in "ac" else sum(fleaves(g) for g in f[1:])


def fdepth(f):
    return 0 if f[0] in "ac" else (fdepth(f[1]) if f[0] == "p" else 1 + max(fdepth(g) for g in f[1:]))


def has_not_over_op(f):
    if f[0] in "ac":
        return False
    if f[0] == "n":
        g = f[1]
        while g[0] == "p":
            g = g[1]
        if g[0] in "&|":
            return True
    return any(has_not_over_op(g) for g in f[1:])


def has_const(f):
    return f[0] == "c" or (f[0] not in "ac" and any(has_const(g) for g in f[1:]))


def kind_sig(f):
    """coarse, stable identifier of the kind of formula (keys known findings / replays)"""
    ops = set()

    def walk(g):
        if g[0] in "&|n":
            ops.add({"&": "and", "|": "or", "n": "not"}[g[0]])
        if g[0] not in "ac":
            for h in g[1:]:
                walk(h)
    walk(f)
    return "+".join(sorted(ops)) + (":const" if has_const(f) else "")


def exhaustive(leaves, depth):
    """all binary formulas of nesting depth <= depth over the given leaves"""
    cur = list(leaves)
    for _ in range(depth):
        nxt = list(leaves)
        nxt += [["n", f] for f in cur]
        nxt += [[op, f, g] for op in "&|" for f in cur for g in cur]
        cur = nxt
    # `cur` holds every formula of depth <= depth exactly once (depth-d formulas are rebuilt from depth d-1 ones)
    return cur


def shapes(depth):
    """formula skeletons (leaf = None) of depth <= depth"""
    cur = [None]
    for _ in range(depth):
        nxt = [None] + [["n", f] for f in cur] + [[op, f, g] for op in "&|" for f in cur for g in cur]
        cur = nxt
    return cur


def label(shape, rng, natoms, consts, kinds):
    if shape is None:
        if consts and rng.random() < 0.12:
            return ["c", rng.random() < 0.5]
        return ["a", rng.randrange(natoms), rng.choice(kinds)]
    return [shape[0]] + [label(s, rng, natoms, consts, kinds) for s in shape[1:]]


def random_formula(rng, natoms, leaves, consts, nary, kinds, parens=False):
    """random formula with the given number of leaves"""
    if leaves <= 1:
        if consts and rng.random() < 0.1:
            f = ["c", rng.random() < 0.5]
        else:
            f = ["a", rng.randrange(natoms), rng.choice(kinds)]
    else:
        k = 2 if not nary else min(leaves, rng.choice([2, 2, 2, 3, 4]))
        cuts = sorted(rng.sample(range(1, leaves), k - 1))
        parts = [b - a for a, b in zip([0] + cuts, cuts + [leaves])]
        f = [rng.choice("&|")] + [random_formula(rng, natoms, p, consts, nary, kinds, parens) for p in parts]
        if nary and rng.random() < 0.08 and f[0] == "&":
            f.append(f[rng.randrange(1, len(f))])       # the same operand twice: exercises the `a is b` path
    if rng.random() < 0.3:
        f = ["n", f]
        if rng.random() < 0.2:
            f = ["n", f]
    if parens and rng.random() < 0.2:
        f = ["p", f]
    return f


# ---------------------------------------------------------------------------------------------------
# Coq literals
# ---------------------------------------------------------------------------------------------------
TRI = {"T": "TT", "F": "FF", "U": "UU"}


def ctable(s):
    return "[" + ";".join(TRI[c] for c in s) + "]"


_TD = {"T": 1, "F": 2, "U": 3}


def ccode(s):
    """a truth table as one number: base 4, digits T=1 F=2 U=3, first entry least significant (Model/PredCheckFast.v tri_code)"""
    code = 0
    for c in reversed(s):
        code = code * 4 + _TD[c]
    return f"{hex(code)}%N"      # hexadecimal: Coq converts a long decimal literal in quadratic time


def ccnf(ops):
    return clist(clist(f"{'Pos' if pos else 'Neg'} {a}%N" for a, pos in g) for g in ops)


def cform(f, flags):
    """binary formula -> Gallina `form`; flags = iterator over the identity flags in post-order of & nodes"""
    t = f[0]
    if t == "a":
        return f"FAtom {f[1]}%N"
    if t == "c":
        return f"FConst {cbool(f[1])}"
    if t == "n":
        return f"FNot ({cform(f[1], flags)})"
    a = cform(f[1], flags)
    b = a if f[2] == f[1] else cform(f[2], flags)      # equal operands are one object, built once (see c15_impl.build)
    if t == "&":
        fl = next(flags)
        return f"FAnd {cbool(bool(fl and fl[0]))} ({a}) ({b})"
    return f"FOr ({a}) ({b})"


def cltree(t):
    k = t[0]
    if k == "a":
        return f"LAtom {t[1]}%N"
    if k == "n":
        return f"LNot ({cltree(t[1])})"
    if k == "p":
        return f"LParens ({cltree(t[1])})"
    return f"LBin ({cltree(t[1])}) {cbool(t[2])} ({cltree(t[3])})"


def is_binary(f):
    return f[0] in "ac" or (f[0] == "n" and is_binary(f[1])) or (f[0] in "&|" and len(f) == 3 and all(is_binary(g) for g in f[1:]))


# ---------------------------------------------------------------------------------------------------
# legacy normal-form oracle (from the documented definition of the two forms)
# ---------------------------------------------------------------------------------------------------
def _strip(t):
    while t[0] == "p":
        t = t[1]
    return t


def _flat(t, is_and):
    t = _strip(t)
    if t[0] == "b" and t[2] == is_and:
        return _flat(t[1], is_and) + _flat(t[3], is_and)
    return [t]


def _is_literal(t):
    t = _strip(t)
    return t[0] == "a" or (t[0] == "n" and _strip(t[1])[0] == "a")


def tree_is_normal(t, cnf: bool) -> bool:
    """outer operator (AND for CNF) over inner operator over literals; NOT only directly on atoms"""
    return all(all(_is_literal(x) for x in _flat(g, not cnf)) for g in _flat(t, cnf))


def nodes_are_normal(nodes) -> bool:
    return bool(nodes) and all(g and all(_is_literal(x) for x in g) for g in nodes)


def nodes_table(nodes, cnf, n):
    """value of the nested list: outer(form) of inner of branch values -- read directly off `_nodes`"""
    def lv(t, v):
        t = _strip(t)
        if t[0] == "a":
            return v[t[1]]
        if t[0] == "n":
            return K_NOT[lv(t[1], v)]
        a, b = lv(t[1], v), lv(t[3], v)
        return k_and(a, b) if t[2] else k_or(a, b)
    out = []
    for v in asg(n):
        acc = "T" if cnf else "F"
        for g in nodes:
            inner = "F" if cnf else "T"
            for x in g:
                inner = k_or(inner, lv(x, v)) if cnf else k_and(inner, lv(x, v))
            acc = k_and(acc, inner) if cnf else k_or(acc, inner)
        out.append(acc)
    return "".join(out)


# ---------------------------------------------------------------------------------------------------
def _chunks(lst, k):
    return [lst[i:i + k] for i in range(0, len(lst), k)]


class Batch:
    """formulas for one system, grouped by number of atoms (table width)"""

    def __init__(self):
        self.by_n: dict[int, list] = {}

    def add(self, n, item):
        self.by_n.setdefault(n, []).append(item)

    def total(self):
        return sum(len(v) for v in self.by_n.values())


def gen_pred(ctx: Ctx, rng, quick: bool) -> Batch:
    b = Batch()
    kinds = [0, 1, 2, 3]
    # exhaustive: 3 atoms + both constants, depth <= 2
    leaves = [["a", i, 0] for i in range(3)] + [["c", True], ["c", False]]
    for f in exhaustive(leaves, 2):
        b.add(3, f)
    # every depth-3 skeleton, random labellings over <= 3 atoms (+ constants)
    for s in shapes(3):
        for _ in range(1 if quick else 6):
            b.add(3, label(s, rng, 3, True, kinds))
    # exhaustive depth 3 over 2 atoms is 195 k formulas: sampled in quick, complete in thorough without constants
    two = exhaustive([["a", 0, 0], ["a", 1, 0]], 3)
    for f in (rng.sample(two, 3000) if quick else two[::8] + rng.sample(two, 10000)):
        b.add(2, f)
    # depth 4 / 4 atoms and larger, random, n-ary calls included
    for _ in range(2500 if quick else 20000):
        n = rng.choice([3, 4, 4, 5])
        b.add(n, random_formula(rng, n, rng.randrange(2, 9), True, True, kinds))
    for _ in range(150 if quick else 2000):
        n = 6
        b.add(n, random_formula(rng, n, rng.randrange(6, 13), True, True, kinds))
    return b


def gen_nf(ctx: Ctx, rng, quick: bool) -> Batch:
    b = Batch()
    kinds = [0, 1, 2, 3]
    leaves = [["a", i, 0] for i in range(3)]
    for f in exhaustive(leaves, 2):
        for cnf in (True, False):
            b.add(3, {"f": f, "cnf": cnf, "parse": False})
    for s in shapes(3):
        for _ in range(1 if quick else 6):
            b.add(3, {"f": label(s, rng, 3, False, kinds), "cnf": rng.random() < 0.5, "parse": rng.random() < 0.15})
    two = exhaustive([["a", 0, 0], ["a", 1, 0]], 3)
    for f in (rng.sample(two, 2500) if quick else two[::10] + rng.sample(two, 8000)):
        b.add(2, {"f": f, "cnf": rng.random() < 0.5, "parse": False})
    for _ in range(2500 if quick else 20000):
        n = rng.choice([3, 4, 4, 5])
        b.add(n, {"f": random_formula(rng, n, rng.randrange(2, 9), False, False, kinds, parens=True),
                  "cnf": rng.random() < 0.5, "parse": rng.random() < 0.2})
    for _ in range(100 if quick else 1500):
        b.add(6, {"f": random_formula(rng, 6, rng.randrange(6, 11), False, False, kinds, parens=True),
                  "cnf": rng.random() < 0.5, "parse": False})
    return b


def gen_visit(ctx: Ctx, rng, quick: bool) -> Batch:
    """predicates to visit with a substituting SimplePredicateVisitor: formula + {atom: replacement formula}"""
    b = Batch()
    kinds = [0, 1, 2, 3]
    # every depth <= 2 formula over 2 atoms, atom 0 replaced by TRUE / FALSE / (x1) / (NOT x1) / (x0 AND x1) in turn
    repls = [["c", True], ["c", False], ["a", 1, 0], ["n", ["a", 1, 0]], ["&", ["a", 0, 0], ["a", 1, 0]]]
    small = exhaustive([["a", 0, 0], ["a", 1, 0]], 2)
    for i, f in enumerate(small if not quick else rng.sample(small, 250)):
        b.add(2, {"f": f, "sub": {"0": repls[i % len(repls)]}})
    for _ in range(700 if quick else 6000):
        n = rng.choice([3, 3, 4])
        f = random_formula(rng, n, rng.randrange(1, 7), False, True, kinds)
        sub = {}
        for a in rng.sample(range(n), rng.choice([1, 1, 2])):
            sub[str(a)] = random_formula(rng, n, rng.randrange(1, 4), True, False, kinds)
        b.add(n, {"f": f, "sub": sub})
    return b


def fsubst(f, sub):
    """the formula with every substituted atom replaced: the reference meaning of visiting with replacements"""
    t = f[0]
    if t == "a":
        return sub.get(str(f[1]), f)
    if t == "c":
        return f
    return [t] + [fsubst(g, sub) for g in f[1:]]


def _cnf_table(ops, leaf_value, n):
    out = []
    for v in asg(n):
        acc = "T"
        for g in ops:
            x = "F"
            for a, pos in g:
                x = k_or(x, leaf_value(a, pos, v))
            acc = k_and(acc, x)
        out.append(acc)
    return "".join(out)


# ---------------------------------------------------------------------------------------------------
class State:
    def __init__(self):
        self.form_cases, self.form_meta, self.form_shape = [], [], []       # Coq literals, replay dicts, has real ops
        self.step_cases, self.step_meta = [], []
        self.nf_cases, self.nf_meta = [], []
        self.visit_cases, self.visit_meta = [], []
        # the same cases with the observed table as one number (Model/PredCheckFast.v), index-aligned with *_cases
        self.form_fast, self.step_fast, self.nf_fast, self.visit_fast = [], [], [], []


def check_pred(ctx: Ctx, st: State, n: int, f, o, coq=True):
    """oracle + Coq case for one new-system formula and its observation"""
    ctx.count()
    rep = {"system": "pred", "n": n, "f": f}
    sig = kind_sig(f)
    if o.get("skip"):
        ctx.hist("pred_result", "skipped-" + str(o["skip"]))
        return
    if "error" in o:
        ctx.oracle_fail(f"pred-error:{o['error']}:{sig}", dict(rep, error=o), "building the predicate raised")
        return
    want = ftable(f, n)
    ctx.hist("pred_top", f[0])
    ctx.hist("pred_depth", fdepth(f))
    ctx.hist("pred_result_literals", min(o["size"], 4096).bit_length())
    if len(fatoms(f)) >= 2 and has_not_over_op(f):
        ctx.nontrivial(["pred", f])
    for how, got in (("visitor", o["tv"]), ("operands", o["td"])):
        if got != want:
            i = next(k for k in range(len(want)) if got[k:k + 1] != want[k])
            ctx.oracle_fail(f"pred-table:{sig}", dict(rep, read_by=how, assignment=asg(n)[i], got=got[i:i + 1], want=want[i],
                                                       result=o.get("str"), operands=o["ops"] if o["size"] < 200 else "(large)"),
                            "Predicate built by logical_and/logical_or/logical_not has a different truth value than the formula")
            break
    if f[0] == "c":
        exp = [] if f[1] else [[]]
        if o["ops"] != exp:
            ctx.oracle_fail(f"pred-const:{f[1]}", dict(rep, operands=o["ops"]), "from_bool does not produce the documented constant")
    if not coq:
        return
    small = o["size"] <= 120
    if is_binary(f) and fleaves(f) <= 8:
        flags = o.get("flags") or []
        unknown = any(x is None for x in flags)
        try:
            lit = cform(f, iter(flags))
        except StopIteration:
            lit, unknown = cform(f, iter([[False]] * 64)), True
        shp = ('(Some ' + ccnf(o['ops']) + ')') if small and not unknown else 'None'
        st.form_cases.append(f"(({n}%nat, {lit}, {ctable(o['tv'])}, {shp}) : pcase)")
        st.form_fast.append(f"(({n}%nat, {lit}, {ccode(o['tv'])}, {shp}) : pcase2)")
        st.form_meta.append(rep)
    for s in o.get("steps") or []:
        if sum(len(g) for g in s["res"]) > 150 or sum(sum(len(g) for g in a) for a in [s["self"]] + s["args"]) > 150:
            continue
        op = {"and": 0, "or": 1, "not": 2}[s["op"]]
        fl = s["flags"] if s["flags"] is not None and len(s["flags"]) == len(s["args"]) else None
        if s["op"] == "or":
            fl = [False] * len(s["args"])
        args = clist(f"({cbool(x)}, {ccnf(a)})" for x, a in zip(fl or [False] * len(s["args"]), s["args"]))
        shp = ('(Some ' + ccnf(s['res']) + ')') if fl is not None else 'None'
        st.step_cases.append(f"(({n}%nat, {op}%N, {ccnf(s['self'])}, {args}, {ctable(s['tv'])}, {shp}) : scase)")
        st.step_fast.append(f"(({n}%nat, {op}%N, {ccnf(s['self'])}, {args}, {ccode(s['tv'])}, {shp}) : scase2)")
        st.step_meta.append({"system": "pred-step", "n": n, "op": s["op"], "self": s["self"], "args": s["args"], "flags": fl,
                             "shape_ok": fl is not None})
        ctx.hist("pred_step", f"{s['op']}/{len(s['args'])}")


def check_nf(ctx: Ctx, st: State, n: int, c, o, coq=True):
    ctx.count()
    f, cnf = c["f"], c["cnf"]
    rep = {"system": "nf", "n": n, "f": f, "cnf": cnf, "parse": c.get("parse", False)}
    fm = "cnf" if cnf else "dnf"
    sig = kind_sig(f)
    if o.get("skip"):
        ctx.hist("nf_result", "skipped-" + o["skip"])
        return
    if "error" in o:
        ctx.oracle_fail(f"nf-error:{o['error']}:{fm}", dict(rep, error=o), "NormalFormExpression.fromTree/toTree raised")
        return
    want = ftable(f, n)
    if o["ti"] != want:
        ctx.tie_broken("harness", "nf-input", f"tree built for {f} does not mean the formula (harness or parser problem)")
        return
    ctx.hist("nf_form", fm)
    ctx.hist("nf_depth", fdepth(f))
    ctx.hist("nf_result_leaves", min(o["leaves"], 4096).bit_length())
    if o["leaves"] > fleaves(f) or has_not_over_op(f):
        ctx.nontrivial(["nf", f, cnf])
    for how, got in (("toTree", o["tt"]), ("visitor", o["tn"]), ("nodes", nodes_table(o["nodes"], cnf, n))):
        if got != want:
            i = next(k for k in range(len(want)) if got[k:k + 1] != want[k])
            ctx.oracle_fail(f"nf-table:{fm}:{sig}", dict(rep, read_by=how, assignment=asg(n)[i], got=got[i:i + 1], want=want[i], result=o.get("str")),
                            "normalised legacy expression has a different truth value than the original tree")
            break
    if not (nodes_are_normal(o["nodes"]) and tree_is_normal(o["tree"], cnf)):
        ctx.oracle_fail(f"nf-normal:{fm}:{sig}", dict(rep, result=o.get("str"), nodes=o["nodes"]),
                        "result of normalisation is not in the requested normal form")
    if not coq or o["leaves"] > 200:
        return
    tail = f"{clist(clist(cltree(x) for x in g) for g in o['nodes'])}, {cltree(o['tree'])}"
    st.nf_cases.append(f"(({n}%nat, {cbool(cnf)}, {cltree(o['input'])}, {ctable(o['tt'])}, {tail}) : ncase)")
    st.nf_fast.append(f"(({n}%nat, {cbool(cnf)}, {cltree(o['input'])}, {ccode(o['tt'])}, {tail}) : ncase2)")
    st.nf_meta.append(rep)


def check_visit(ctx: Ctx, st: State, n: int, c, o, coq=True):
    """oracle + Coq case for one predicate visited by a substituting SimplePredicateVisitor"""
    ctx.count()
    f, sub = c["f"], c["sub"]
    rep = {"system": "visit", "n": n, "f": f, "sub": sub}
    if o.get("skip"):
        ctx.hist("visit_result", "skipped-" + str(o["skip"]))
        return
    if "error" in o:
        ctx.oracle_fail(f"visit-error:{o['error']}", dict(rep, error=o), "visiting with a SimplePredicateVisitor raised")
        return
    want = ftable(fsubst(f, sub), n)
    neg_replaced = any((not pos) and str(a) in sub for g in o["ops"] for a, pos in g)
    touched = any(str(a) in sub for g in o["ops"] for a, pos in g)
    ctx.hist("visit_kind", ("none-returned" if o["none"] else "rebuilt") + ("+neg-replaced" if neg_replaced else ""))
    if touched and len(fatoms(f)) >= 2:
        ctx.nontrivial(["visit", f, sub])
    if o["none"] and touched:
        ctx.oracle_fail("visit-none:replacement-ignored", dict(rep, operands=o["ops"]),
                        "the visitor replaced a leaf but the apply_* helpers reported `nothing changed`")
    for how, got in (("visitor", o["tv"]), ("operands", o["td"])):
        if got != want:
            i = next(k for k in range(len(want)) if got[k:k + 1] != want[k])
            # classification only: what one gets when a replacement under NOT is dropped (NOT of the ORIGINAL leaf) --
            # the defect repaired by /repo 33efa74; its own signature, so that a regression is named
            subt = {a: ftable(g, n) for a, g in sub.items()}
            idx = {tuple(v): k for k, v in enumerate(asg(n))}

            def leaf(a, pos, v):
                if not pos:
                    return K_NOT[v[a]]
                return subt[str(a)][idx[tuple(v)]] if str(a) in sub else v[a]
            dropped = _cnf_table(o["ops"], leaf, n)
            sig = "visit-table:not-drops-replacement" if (neg_replaced and got == dropped) else f"visit-table:other:{kind_sig(f)}"
            ctx.oracle_fail(sig, dict(rep, read_by=how, assignment=asg(n)[i], got=got[i:i + 1], want=want[i], result=o.get("str"),
                                      operands=o["ops"], result_operands=o["res"] if len(o["res"]) < 40 else "(large)"),
                            "predicate rebuilt by SimplePredicateVisitor.apply_logical_* does not have the value of the original "
                            "with the replaced leaves substituted")
            break
    if not coq or sum(len(g) for g in o["res"]) > 150:
        return
    subl = clist(f"({a}%N, {ccnf(ops)})" for a, ops in sorted(o["sub_ops"].items(), key=lambda kv: int(kv[0])))
    st.visit_cases.append(f"(({n}%nat, {ccnf(o['ops'])}, {subl}, {cbool(o['none'])}, {ctable(o['tv'])}) : vcase)")
    st.visit_fast.append(f"(({n}%nat, {ccnf(o['ops'])}, {subl}, {cbool(o['none'])}, {ccode(o['tv'])}) : vcase2)")
    st.visit_meta.append(rep)


def run_impl(ctx: Ctx, st: State, pred: Batch, nf: Batch, coq=True, steps_frac=True, visit: Batch | None = None):
    payloads, index = [], []
    for n, cs in (visit.by_n if visit else {}).items():
        for ch in _chunks(cs, 1500):
            payloads.append(("run_visit", {"n": n, "cases": ch, "max_literals": 120}))
            index.append(("visit", n, ch))
    for n, fs in pred.by_n.items():
        for ch in _chunks(fs, 1500):
            payloads.append(("run_pred", {"n": n, "formulas": ch, "max_literals": 400, "steps": n in (4, 5) and steps_frac}))
            index.append(("pred", n, ch))
    for n, cs in nf.by_n.items():
        for ch in _chunks(cs, 1500):
            payloads.append(("run_nf", {"n": n, "cases": ch}))
            index.append(("nf", n, ch))
    from concurrent.futures import ThreadPoolExecutor
    from harness.common import NCPU
    with ThreadPoolExecutor(max_workers=max(2, NCPU - 1)) as ex:
        results = list(ex.map(lambda p: run_worker("c15_impl", p[0], p[1], timeout=600), payloads))
    for (kind, n, ch), (status, res) in zip(index, results):
        if status != "ok":
            # a hang / crash of pure boolean rewriting is itself a failure of the property's "always produces"
            ctx.oracle_fail(f"{kind}-{status}", {"system": kind, "n": n, "cases": ch[:20], "detail": (res or "")[-1500:] if isinstance(res, str) else None},
                            f"implementation worker {status} (non-termination or crash while rewriting)")
            continue
        for item, o in zip(ch, res):
            if kind == "pred":
                check_pred(ctx, st, n, item, o, coq)
            elif kind == "visit":
                check_visit(ctx, st, n, item, o, coq)
            else:
                check_nf(ctx, st, n, item, o, coq)


HDR = ("From Coq Require Import NArith List Bool.\nFrom V Require Import Base.Tri Model.Pred Model.NormalForm Model.PredCheck.\n"
       "Import ListNotations.\n")
HDRG = HDR + "From V Require Import Gen.PredGen Model.PredCheckGen.\n"
HDRN = HDR + "From V Require Import Gen.NormalFormGen Model.NormalFormCheckGen.\n"
HDRV = HDR + "From V Require Import Gen.PredGen Gen.PredVisitGen Model.PredVisitCheck.\n"
HDRF = HDR + "From V Require Import Gen.PredGen Gen.NormalFormGen Gen.PredVisitGen Model.PredCheckFast.\n"


def coq_side(ctx: Ctx, st: State, gen_ok: bool, gen_nf_ok: bool = False, gen_pv_ok: bool = False, fast_ok: bool | None = None):
    """One vm_compute pass per case list with the conjunction of all checkers; only the cases it rejects are
    re-evaluated with the individual checkers to tell a broken tie (truth tables differ) from structural drift."""
    G = "_gen" if gen_ok else ""
    hdr = HDRG if gen_ok else HDR
    fast = (gen_ok and gen_nf_ok and gen_pv_ok) if fast_ok is None else (fast_ok and gen_ok and gen_nf_ok and gen_pv_ok)
    fasts = {"form": (st.form_fast, "chk_form_fast"), "step": (st.step_fast, "chk_step_fast"),
             "nf": (st.nf_fast, "chk_nf_fast"), "visit": (st.visit_fast, "chk_visit_fast")}
    for name, cases, meta, allchk, tables, shapes_, hdr in (
        ("form", st.form_cases, st.form_meta, "chk_form_gen_only" if gen_ok else "chk_form_all", ["chk_form_table"] + (["chk_form_table_gen"] if gen_ok else []),
         ["chk_form_shape"] + (["chk_form_shape_gen"] if gen_ok else []), hdr),
        ("step", st.step_cases, st.step_meta, "chk_step_gen_only" if gen_ok else "chk_step_all", ["chk_step_table"] + (["chk_step_table_gen"] if gen_ok else []),
         ["chk_step_shape"] + (["chk_step_shape_gen"] if gen_ok else []), hdr),
        ("nf", st.nf_cases, st.nf_meta, "chk_nf_all_gen" if gen_nf_ok else "chk_nf_all",
         ["chk_nf_table"] + (["chk_nf_table_gen"] if gen_nf_ok else []), ["chk_nf_shape"], HDRN if gen_nf_ok else HDR),
        ("visit", st.visit_cases if gen_pv_ok else [], st.visit_meta, "chk_visit_table", ["chk_visit_table"], [], HDRV),
    ):
        if not cases:
            continue
        use_fast = fast and len(fasts[name][0]) == len(cases)
        lits = fasts[name][0] if use_fast else cases
        # identical cases (the same single operation on the same operands occurs inside many formulas) are evaluated once
        first: dict[str, int] = {}
        for i, lit in enumerate(lits):
            first.setdefault(lit, i)
        uniq = sorted(first.values())
        if use_fast:
            # regenerated models, observed tables passed as numbers; rejected cases are classified below (list-based checkers)
            allchk = fasts[name][1]
        bad = ctx.coq_cases(name, HDRF if use_fast else hdr, [lits[i] for i in uniq], allchk, shard=700)
        if bad is not None:
            bad = [uniq[j] for j in bad]
        if not bad:
            if bad is not None:
                ctx.cov["ties"][f"K:{name}"] = (f"ok: {len(cases)} cases ({len(uniq)} distinct), truth tables and exact structure agree "
                                                 f"({allchk})")
            continue
        sub = [cases[i] for i in bad[:300]]
        submeta = [meta[i] for i in bad[:300]]
        tie_bad = set()
        for chk in tables:
            r = ctx.coq_cases(f"{name}_{chk}", hdr, sub, chk, shard=700)
            for i in (r or []):
                tie_bad.add(i)
                if len(tie_bad) <= 5:
                    ctx.disagreement(f"{name}:{chk}", submeta[i], "model and implementation produce different truth tables")
        drift = [i for i in range(len(sub)) if i not in tie_bad]
        for i in drift[:3]:
            ctx.cov["structural_drift"].append({"check": name, "case": submeta[i]})
        if drift:
            ctx.log(f"structural drift ({name}): {len(drift)} of {len(cases)} cases differ in exact structure only, e.g. "
                    f"{json.dumps(submeta[drift[0]])[:300]}")
        ctx.cov["ties"][f"K:{name}"] = (f"{len(tie_bad)} truth-table disagreements" if tie_bad
                                         else f"ok on truth tables; {len(drift)} structural differences (drift-only)")


def run_corpus(ctx: Ctx, st: State):
    pred, nf, visit = Batch(), Batch(), Batch()
    d = VERIF / "corpus" / "C15"
    k = 0
    for p in sorted(d.glob("*.json")):
        for c in json.loads(p.read_text()):
            k += 1
            if c["system"] == "pred":
                pred.add(c["n"], c["f"])
            elif c["system"] == "visit":
                visit.add(c["n"], {"f": c["f"], "sub": c["sub"]})
            else:
                nf.add(c["n"], {"f": c["f"], "cnf": c["cnf"], "parse": c.get("parse", False)})
    run_impl(ctx, st, pred, nf, visit=visit)
    ctx.hist("cases", "corpus", k)


def regen_all(ctx: Ctx):
    gen_ok = ctx.regen("predicate", tr.translate)
    gen_nf_ok = ctx.regen("normalform", tr_nf.translate)
    gen_pv_ok = ctx.regen("pred_visitor", tr_pv.translate)
    return gen_ok, gen_nf_ok, gen_pv_ok


def check_targets(gen_ok, gen_nf_ok, gen_pv_ok):
    return (["Model/PredCheck.vo"] + (["Model/PredCheckGen.vo"] if gen_ok else [])
            + (["Model/NormalFormCheckGen.vo"] if gen_nf_ok else []) + (["Model/PredVisitCheck.vo"] if gen_ok and gen_pv_ok else [])
            + (["Model/PredCheckFast.vo"] if gen_ok and gen_nf_ok and gen_pv_ok else []))


def run(ctx: Ctx):
    ctx.assumptions += [
        "object identity (`a is b` in Predicate._impl_and) is modelled as a boolean supplied by the environment; theorems "
        "assume only that identical objects are equal, the correspondence run observes the real flags",
        "translator harness/translators/predicate.py (Python ast -> Gallina) is trusted; its output is also compared with the "
        "implementation on every generated formula",
        "legacy normalForm.py: the wrapper classes' rules are regenerated (harness/translators/normalform.py, trusted: class "
        "dispatch read as a match on the receiver, wrapper objects immutable, `x.normalize(form)` read as the fuelled recursive "
        "call); TransformationVisitor / fromTree / unwrap / TreeReconstructionVisitor are hand-modelled with their source text "
        "pinned; atoms are opaque nodes whose Kleene value is given by the assignment",
        "SimplePredicateVisitor.apply_logical_* regenerated (harness/translators/pred_visitor.py); the @final "
        "PredicateVisitor._visit_logical_* composition is hand-modelled (Model/PredVisitCheck.v) and compared on every case",
        "CPython semantics of tuple concatenation, itertools.product order, all()/any() on tuples of tuples",
    ]
    ctx.cov["rule"] = (
        "new system: a formula is non-trivial when it mentions >= 2 distinct atoms and has a NOT applied to an AND/OR "
        "(De Morgan + distribution both run); legacy: when NOT is applied to an AND/OR or normalisation had to "
        "distribute (result has more leaves than the input); distinctness by hash of (system, formula, form)"
    )
    gen_ok, gen_nf_ok, gen_pv_ok = regen_all(ctx)
    props_ok = ctx.build_props(extra_targets=check_targets(gen_ok, gen_nf_ok, gen_pv_ok))
    if not props_ok:
        coq_make(["Model/PredCheck.vo"])
        if gen_ok:
            ok, _ = coq_make(["Model/PredCheckGen.vo"])
            gen_ok = gen_ok and ok
        if gen_nf_ok:
            ok, _ = coq_make(["Model/NormalFormCheckGen.vo"])
            gen_nf_ok = gen_nf_ok and ok
        if gen_pv_ok:
            ok, _ = coq_make(["Model/PredVisitCheck.vo"])
            gen_pv_ok = gen_pv_ok and ok
    fast_ok = gen_ok and gen_nf_ok and gen_pv_ok
    if fast_ok and not props_ok:
        fast_ok, _ = coq_make(["Model/PredCheckFast.vo"])

    st = State()
    run_corpus(ctx, st)
    pred, nf = gen_pred(ctx, ctx.rng, ctx.quick), gen_nf(ctx, ctx.rng, ctx.quick)
    visit = gen_visit(ctx, ctx.rng, ctx.quick)
    ctx.hist("cases", "pred_generated", pred.total())
    ctx.hist("cases", "nf_generated", nf.total())
    ctx.hist("cases", "visit_generated", visit.total())
    ctx.log(f"generated {pred.total()} new-system formulas, {nf.total()} legacy cases, {visit.total()} visitor cases")
    run_impl(ctx, st, pred, nf, visit=visit)
    ctx.log(f"implementation done; coq cases: form {len(st.form_cases)}, step {len(st.step_cases)}, nf {len(st.nf_cases)}, "
            f"visit {len(st.visit_cases)}")
    for m, c in ((st.form_meta, st.form_cases), (st.step_meta, st.step_cases), (st.nf_meta, st.nf_cases), (st.visit_meta, st.visit_cases)):
        if c:
            k = len(c) // 2
            ctx.sample({"case": m[k], "coq_case": c[k][:600]})
    coq_side(ctx, st, gen_ok, gen_nf_ok, gen_pv_ok and gen_ok, fast_ok)

    if ctx.broken and not ctx.oracle_failures:
        search(ctx)
    # report the smallest failing formula of each kind (the replay written per signature is the first one)
    ctx.oracle_failures.sort(key=lambda sr: (fleaves(sr[1]["f"]), len(json.dumps(sr[1]["f"]))) if sr[1].get("f") else (0, 0))


def search(ctx: Ctx):
    """something no longer checks but the oracle held: look harder for a failing input on the implementation"""
    import random
    ctx.log("obligation/tie broken without an oracle failure: running the thorough-size search on the implementation")
    st = State()
    n0 = ctx.cov["evaluations"]
    for seed in range(1, 3 if ctx.quick else 6):
        rng = random.Random(f"C15-search:{ctx.seed}:{seed}")
        run_impl(ctx, st, gen_pred(ctx, rng, False), gen_nf(ctx, rng, False), coq=False, steps_frac=False,
                 visit=gen_visit(ctx, rng, False))
        if ctx.oracle_failures:
            break
    ctx.cov["search"] = (f"thorough-size generation with {seed} extra seed(s), {ctx.cov['evaluations'] - n0} formulas through the "
                         f"implementation, oracle {'FAILED' if ctx.oracle_failures else 'held on all of them'}")


def replay(ctx: Ctx, rep: dict):
    """re-run exactly the recorded case on the implementation (oracle) and on the models (correspondence)"""
    st = State()
    pred, nf, visit = Batch(), Batch(), Batch()
    if rep.get("system") == "pred" and "f" in rep:
        pred.add(rep["n"], rep["f"])
    elif rep.get("system") == "visit" and "f" in rep:
        visit.add(rep["n"], {"f": rep["f"], "sub": rep["sub"]})
    elif rep.get("system") == "nf" and "f" in rep:
        nf.add(rep["n"], {"f": rep["f"], "cnf": rep["cnf"], "parse": rep.get("parse", False)})
    else:
        ctx.log("replay file carries no single case (broken obligation / worker failure): running the whole check with its seed")
        return run(ctx)
    gen_ok, gen_nf_ok, gen_pv_ok = regen_all(ctx)
    coq_make(check_targets(gen_ok, gen_nf_ok, gen_pv_ok))
    run_impl(ctx, st, pred, nf, visit=visit)
    coq_side(ctx, st, gen_ok, gen_nf_ok, gen_pv_ok and gen_ok)
    ctx.log(f"replayed {ctx.replay}: oracle failures {sorted({s for s, _ in ctx.oracle_failures})}")
