"""C16 -- Ordering, limits, paging and counts describe the same result set.

Obligations: coq/Props/C16.v (model coq/Model/Paging.v; coq/Model/PagingPP.v = the generator / raw-page-loop skeleton
       around the counter logic of Postprocessing.apply regenerated from /repo into coq/Gen/PostprocGen.v).
Tie T: harness/translators/postproc.py (fail-closed ast walker over Postprocessing.apply, pins for the limit property,
       _Cursor.next and _read_results); the paging theorems are stated over the generated definitions.
Tie K: a populated real repository per worker (harness/impl/c16_impl.py); the driver's raw page size / filter factor are
       forced down through the public constructor parameters; every observation (iteration, count, any, Butler.query_*
       with negative limits and explain, constraint spellings) is compared with the Coq model by vm_compute.
Oracle: written from the property text (sorted permutation, prefix of the right length, every row once, count/any
        agree with iteration, spellings give the same rows); ground truth for the spatial join from sphgeom directly.
"""
from __future__ import annotations

import functools
import json
import os
from pathlib import Path

from harness.common import COQ, VERIF, Ctx, cbool, clist, copt, cz, parallel_workers
from harness.impl import c16_impl as I
from harness.translators import postproc

DEFAULT_FACTOR = 10

# ------------------------------------------------------------------------------------------------------------
# the fixture as tables (for key extraction and expected row sets) -- data only, shared with the worker
# ------------------------------------------------------------------------------------------------------------
VIS = {r["id"]: r for r in I.visit_rows()}
EXP = {r["id"]: r for r in I.exposure_rows()}
DET = {r["id"]: r for r in I.detector_rows()}
PAT = {(r["tract"], r["id"]): r for r in I.patch_rows()}
BAND = dict(I.FILTERS)
_TRUTH = None


def truth():
    global _TRUTH
    if _TRUTH is None:
        _TRUTH = [tuple(t) for t in I.overlap_truth()]
    return _TRUTH


def _vf(f):
    return lambda t: VIS[t[0]][f]


class Entity:
    def __init__(self, name, spec, idkeys, fields, rows, pp=False, legacy=True, wheres=(), constraints=None):
        self.name, self.spec, self.idkeys, self.fields, self.pp, self.legacy = name, spec, idkeys, fields, pp, legacy
        self._rows = rows
        self.wheres = list(wheres)        # (where string, python predicate over the id tuple)
        self.constraints = constraints or {}   # data-ID key -> (value getter over id tuple)

    def rows(self):
        return self._rows() if callable(self._rows) else self._rows


def _flat_rows(find_first):
    out = []
    for dt, run, did in I.dataset_plan():
        if dt == "flat":
            out.append((did["detector"], run))
    if find_first:  # collections searched in the order [r2, r1]
        best = {}
        for d, run in out:
            if d not in best or run == "r2":
                best[d] = run
        out = list(best.items())
    return sorted(out)


ENTITIES = {
    "VP": Entity(
        "VP", {"result": "data_ids", "dims": ["visit", "patch"], "idcols": ["visit", "tract", "patch"], "rawcols": ["visit", "tract", "patch"]},
        ["visit", "tract", "patch"],
        {"visit": lambda t: t[0], "tract": lambda t: t[1], "patch": lambda t: t[2],
         "visit.exposure_time": _vf("exposure_time"), "visit.seq_num": _vf("seq_num"), "visit.target_name": _vf("target_name"),
         "visit.zenith_angle": _vf("zenith_angle"), "physical_filter": _vf("physical_filter"), "day_obs": _vf("day_obs"),
         "band": lambda t: BAND[VIS[t[0]]["physical_filter"]],
         "patch.cell_x": lambda t: PAT[(t[1], t[2])]["cell_x"], "patch.cell_y": lambda t: PAT[(t[1], t[2])]["cell_y"],
         "visit.timespan.begin": lambda t: VIS[t[0]]["_span"][0]},
        truth, pp=True,
        wheres=[("visit > 3", lambda t: t[0] > 3), ("visit.seq_num < 3", lambda t: VIS[t[0]]["seq_num"] is not None and VIS[t[0]]["seq_num"] < 3)],
        constraints={"instrument": lambda t: I.INSTR, "skymap": lambda t: I.SKYMAP, "visit": lambda t: t[0], "tract": lambda t: t[1],
                     "physical_filter": _vf("physical_filter"), "band": lambda t: BAND[VIS[t[0]]["physical_filter"]]}),
    "EX": Entity(
        "EX", {"result": "records", "element": "exposure", "idcols": ["exposure"]}, ["exposure"],
        {"exposure": lambda t: t[0], **{f"exposure.{f}": (lambda f: lambda t: EXP[t[0]][f])(f) for f in
                                        ("seq_num", "exposure_time", "dark_time", "target_name", "science_program", "observation_type")},
         "day_obs": lambda t: EXP[t[0]]["day_obs"], "physical_filter": lambda t: EXP[t[0]]["physical_filter"],
         "exposure.timespan.begin": lambda t: EXP[t[0]]["_span"][0]},
        [(e,) for e in sorted(EXP)],
        wheres=[("exposure.seq_num > 1", lambda t: EXP[t[0]]["seq_num"] is not None and EXP[t[0]]["seq_num"] > 1),
                ("exposure.exposure_time < 25.0 AND exposure > 104", lambda t: EXP[t[0]]["exposure_time"] is not None and EXP[t[0]]["exposure_time"] < 25 and t[0] > 104)],
        constraints={"instrument": lambda t: I.INSTR, "exposure": lambda t: t[0], "physical_filter": lambda t: EXP[t[0]]["physical_filter"],
                     "day_obs": lambda t: EXP[t[0]]["day_obs"], "band": lambda t: BAND[EXP[t[0]]["physical_filter"]]}),
    "DET": Entity(
        "DET", {"result": "records", "element": "detector", "idcols": ["detector"]}, ["detector"],
        {"detector": lambda t: t[0], **{f"detector.{f}": (lambda f: lambda t: DET[t[0]][f])(f) for f in ("raft", "purpose", "name_in_raft", "full_name")}},
        [(d,) for d in sorted(DET)],
        wheres=[("detector > 10", lambda t: t[0] > 10)],
        constraints={"instrument": lambda t: I.INSTR, "detector": lambda t: t[0]}),
    "DID": Entity(
        "DID", {"result": "data_ids", "dims": ["detector"], "idcols": ["detector"]}, ["detector"],
        {"detector": lambda t: t[0], "detector.raft": lambda t: DET[t[0]]["raft"], "detector.purpose": lambda t: DET[t[0]]["purpose"]},
        [(d,) for d in sorted(DET)],
        constraints={"instrument": lambda t: I.INSTR, "detector": lambda t: t[0]}),
    "VIS": Entity(
        "VIS", {"result": "records", "element": "visit", "idcols": ["visit"]}, ["visit"],
        {"visit": lambda t: t[0], "visit.exposure_time": _vf("exposure_time"), "visit.seq_num": _vf("seq_num"),
         "visit.target_name": _vf("target_name"), "physical_filter": _vf("physical_filter"), "visit.timespan.begin": lambda t: VIS[t[0]]["_span"][0]},
        [(v,) for v in sorted(VIS)],
        constraints={"instrument": lambda t: I.INSTR, "visit": lambda t: t[0], "physical_filter": _vf("physical_filter"),
                     "band": lambda t: BAND[VIS[t[0]]["physical_filter"]], "day_obs": _vf("day_obs")}),
    "FLA": Entity(
        "FLA", {"result": "datasets", "dataset_type": "flat", "collections": ["r2", "r1"], "find_first": False, "idcols": ["detector"]},
        ["detector", "flat.run"],
        {"detector": lambda t: t[0], "flat.run": lambda t: t[1], "detector.raft": lambda t: DET[t[0]]["raft"], "detector.purpose": lambda t: DET[t[0]]["purpose"]},
        lambda: _flat_rows(False), legacy=False,
        constraints={"instrument": lambda t: I.INSTR, "detector": lambda t: t[0]}),
    "FLF": Entity(
        "FLF", {"result": "datasets", "dataset_type": "flat", "collections": ["r2", "r1"], "find_first": True, "idcols": ["detector"]},
        ["detector"],
        {"detector": lambda t: t[0], "detector.raft": lambda t: DET[t[0]]["raft"], "detector.purpose": lambda t: DET[t[0]]["purpose"]},
        lambda: _flat_rows(True), legacy=False,
        wheres=[("detector > 10", lambda t: t[0] > 10)],
        constraints={"instrument": lambda t: I.INSTR, "detector": lambda t: t[0]}),
    "CAL": Entity(
        "CAL", {"result": "datasets", "dataset_type": "calexp", "collections": ["r1"], "find_first": True, "idcols": ["visit", "detector"]},
        ["visit", "detector"],
        {"visit": lambda t: t[0], "detector": lambda t: t[1], "visit.exposure_time": _vf("exposure_time"), "visit.seq_num": _vf("seq_num"),
         "detector.raft": lambda t: DET[t[1]]["raft"], "physical_filter": _vf("physical_filter")},
        lambda: sorted((did["visit"], did["detector"], run) for dt, run, did in I.dataset_plan() if dt == "calexp"), legacy=False,
        constraints={"instrument": lambda t: I.INSTR, "visit": lambda t: t[0], "detector": lambda t: t[1], "physical_filter": _vf("physical_filter")}),
}


# ------------------------------------------------------------------------------------------------------------
# ordering as the property states it (independent of the Coq model): NULLs first ascending, '-' reverses
# ------------------------------------------------------------------------------------------------------------

def parse_keys(order_by):
    return [(k[1:], True) if k.startswith("-") else (k, False) for k in order_by]


def cmp_vals(a, b):
    if a is None or b is None:
        return (a is not None) - (b is not None)
    return (a > b) - (a < b)


def cmp_rows(ent: Entity, keys, r, s):
    for name, desc in keys:
        c = cmp_vals(ent.fields[name](r), ent.fields[name](s))
        if c:
            return -c if desc else c
    return 0


def is_total(ent: Entity, keys):
    names = {n for n, _ in keys}
    return all(k in names for k in ent.idkeys)


def tup(x):
    return tuple(x)


# ------------------------------------------------------------------------------------------------------------
# case generation
# ------------------------------------------------------------------------------------------------------------

def gen_order(rng, ent: Entity, total: bool):
    names = list(ent.fields)
    k = rng.choice([0, 1, 1, 2, 2, 3])
    picked = rng.sample(names, min(k, len(names)))
    ob = [("-" if rng.random() < 0.45 else "") + n for n in picked]
    if total:
        for idk in ent.idkeys:
            if idk not in picked:
                ob.append(("-" if rng.random() < 0.3 else "") + idk)
    return ob


def limits_around(rng, page, n, raw_n):
    s = {0, 1, page - 1, page, page + 1, 2 * page, n - 1, n, n + 1, raw_n, rng.randrange(0, n + 3)}
    return sorted(x for x in s if x >= 0)


def gen_cases(ctx: Ctx, size: int):
    rng = ctx.rng
    cases = []
    names = list(ENTITIES)
    for i in range(size):
        ent = ENTITIES[names[i % len(names)] if i < 3 * len(names) else rng.choice(names + ["VP", "VP", "EX"])]
        page = rng.choice([1, 2, 3, 4, 5, 6, 7]) if rng.random() < 0.85 else rng.choice([8, 13, 50, 2000])
        factor = rng.choice([1, 2, 3, 10, 10]) if ent.pp else None
        total = rng.random() < 0.75
        ob = gen_order(rng, ent, total)
        where = None
        if ent.wheres and rng.random() < 0.3:
            where = rng.choice(ent.wheres)
        spec = dict(ent.spec, order_by=ob, where=where[0] if where else "",
                    kwargs={"instrument": I.INSTR, **({"skymap": I.SKYMAP} if ent.name == "VP" else {})})
        n = len([r for r in ent.rows() if not where or where[1](r)])
        lims = limits_around(rng, page, n, 150 if ent.pp else n)
        if len(lims) > 8:
            keep = {0, n, page}
            lims = sorted(set(rng.sample(lims, 6)) | (keep & set(lims)))
        meta = {"ent": ent.name, "where": where[0] if where else None}
        kind = rng.choice(["ctx", "ctx", "ctx", "butler", "legacy"]) if ent.legacy else rng.choice(["ctx", "ctx", "butler"])
        if kind == "ctx":
            cl = list(lims)
            if rng.random() < 0.15:
                cl.append(-rng.choice([1, 2, 5]))
            cases.append({"kind": "ctx", "q": spec, "page": page, "factor": factor, "limits": cl, "unordered": True, "meta": meta})
        elif kind == "butler":
            bl = [[None, False]]
            for L in lims[:5]:
                bl.append([L, rng.random() < 0.5])
            for L in {1, max(1, n - 1), n, n + 1, page}:
                bl.append([-L, rng.random() < 0.3])
            cases.append({"kind": "butler", "q": spec, "page": page, "factor": factor, "limits": bl, "meta": meta})
        else:
            cases.append({"kind": "legacy", "q": spec, "limits": lims[:6], "meta": meta})
    # butler API with an empty result: explain semantics
    for ent_name, w in (("VP", "visit = 99"), ("DET", "detector = 99"), ("FLF", "detector = 99")):
        ent = ENTITIES[ent_name]
        spec = dict(ent.spec, order_by=list(ent.idkeys), where=w, kwargs={"instrument": I.INSTR, **({"skymap": I.SKYMAP} if ent_name == "VP" else {})})
        cases.append({"kind": "butler", "q": spec, "page": 3, "factor": 2 if ent.pp else None,
                      "limits": [[None, False], [0, True], [0, False], [3, True], [3, False], [-3, True], [-3, False], [None, True]],
                      "meta": {"ent": ent_name, "where": w, "empty": True}})
    # constraint spellings
    for i in range(max(8, size // 3)):
        ent = ENTITIES[rng.choice(["DET", "DID", "EX", "VIS", "VP", "FLF", "CAL"])]
        rows = ent.rows()
        target = rng.choice(rows)
        keys = [k for k in ent.constraints if rng.random() < 0.6] or ["instrument"]
        if "instrument" not in keys:
            keys.insert(0, "instrument")
        if ent.name == "VP" and "skymap" not in keys:
            keys.insert(1, "skymap")
        merged = {k: ent.constraints[k](target) for k in keys}
        if rng.random() < 0.2:   # contradictory constraint on a second row: usually empty result
            other = rng.choice(rows)
            k2 = rng.choice(keys)
            merged[k2] = ent.constraints[k2](other)
        # split into data ID and kwargs, with an overridden stale value in the data ID sometimes
        d, kw = {}, {}
        for k, v in merged.items():
            r = rng.random()
            if r < 0.45:
                d[k] = v
            elif r < 0.85:
                kw[k] = v
            else:
                stale = ent.constraints[k](rng.choice(rows))
                d[k] = stale
                kw[k] = v
        if not d:
            d = None
        where = " AND ".join(f"{k} = {v!r}" if isinstance(v, str) else f"{k} = {v}" for k, v in merged.items())
        spec = dict(ent.spec, order_by=[])
        cases.append({"kind": "spell", "q": spec, "d": d, "kw": kw, "merged": merged, "where": where, "page": rng.choice([1, 2, 3, 5]),
                      "meta": {"ent": ent.name}})
    return cases


# ------------------------------------------------------------------------------------------------------------
# Coq literal helpers
# ------------------------------------------------------------------------------------------------------------

class Enc:
    """identity tuples -> small integers, stable inside one case"""

    def __init__(self, ids):
        self.m = {t: i for i, t in enumerate(sorted({tup(x) for x in ids}, key=lambda t: tuple(str(type(v)) + str(v).zfill(8) for v in t)))}

    def __call__(self, t):
        return self.m[tup(t)]


def rank_col(values):
    """python column values -> option Z preserving order (strings by rank, integer-valued floats as ints)"""
    strs = sorted({v for v in values if isinstance(v, str)})
    out = []
    for v in values:
        if v is None:
            out.append(None)
        elif isinstance(v, str):
            out.append(strs.index(v))
        else:
            assert float(v) == int(v)
            out.append(int(v))
    return out


def zopt(v):
    return "(@None Z)" if v is None else f"(Some {cz(v)})"


def c_cfg(page, factor, pp, lim):
    return f"({cz(page)}, {cz(factor if factor is not None else DEFAULT_FACTOR)}, {cbool(pp)}, {zopt(lim)})"


def c_xrows(rows):
    return clist(f"({cz(i)}, {cbool(k)})" for i, k in rows)


def c_res_int(v):
    return zopt(v if isinstance(v, int) else None)


def c_res_bool(v):
    return "(@None bool)" if not isinstance(v, bool) else f"(Some {cbool(v)})"


def is_err(x):
    return isinstance(x, dict) and "err" in x


# ------------------------------------------------------------------------------------------------------------
# oracle + case emission
# ------------------------------------------------------------------------------------------------------------

class Judge:
    def __init__(self, ctx: Ctx):
        self.ctx = ctx
        self.exec_cases, self.exec_meta = [], []
        self.trace_cases, self.trace_meta = [], []
        self.butler_cases, self.butler_meta = [], []
        self.order_cases, self.order_meta = [], []
        self.spell_cases, self.spell_meta = [], []

    # ---- helpers -----------------------------------------------------------------------------------------
    def fail(self, sig, case, what, **extra):
        rep = {"case": {k: v for k, v in case.items() if k != "meta"}, "meta": case.get("meta")}
        rep.update(extra)
        self.ctx.hist("oracle_signatures", sig)
        if os.environ.get("C16_DEBUG"):
            with open(os.environ["C16_DEBUG"], "a") as fh:
                fh.write(json.dumps({"sig": sig, "what": what, "rep": rep}, default=str)[:3000] + "\n")
        self.ctx.oracle_fail(sig, rep, what)

    def check_sorted(self, ent, keys, ids):
        for a, b in zip(ids, ids[1:]):
            if cmp_rows(ent, keys, tup(a), tup(b)) > 0:
                return (a, b)
        return None

    def expected_rows(self, ent, case):
        w = case["meta"].get("where")
        pred = None
        if w:
            pred = dict(ent.wheres).get(w)
            if pred is None:
                return None
        return sorted(tup(r) for r in ent.rows() if pred is None or pred(tup(r)))

    # ---- context API ---------------------------------------------------------------------------------------
    def ctx_case(self, case, res):
        ctx = self.ctx
        ent = ENTITIES[case["meta"]["ent"]]
        api = "ctx"
        tag = f"{api}:{ent.name}:{'pp' if ent.pp else 'sql'}"
        if "error" in res or is_err(res.get("full", {}).get("ids")):
            self.fail(f"exception:{tag}", case, "query raised", observed=res.get("error") or res["full"]["ids"])
            return
        keys = parse_keys(case["q"]["order_by"])
        total = is_total(ent, keys)
        full = [tup(x) for x in res["full"]["ids"]]
        page, factor = case["page"], case.get("factor")
        ctx.hist("api", "ctx")
        ctx.hist("entity", ent.name)
        ctx.hist("page_size", page)
        ctx.hist("order_keys", len(keys))
        # (1) ordered result is a permutation of the unordered one
        if "unordered" in res and not is_err(res["unordered"]["ids"]):
            un = [tup(x) for x in res["unordered"]["ids"]]
            ctx.count()
            if sorted(un) != sorted(full):
                self.fail(f"perm:{tag}", case, "ordered result is not a permutation of the unordered result", ordered=full, unordered=un)
        # (2) sorted by the requested keys
        ctx.count()
        bad = self.check_sorted(ent, keys, full)
        if bad:
            self.fail(f"order:{tag}", case, "result is not sorted by the requested keys (NULLs first ascending)", adjacent=bad, ordered=full)
        # (3) every row exactly once (paged iteration): no duplicates, equals the expected row set
        ctx.count()
        if len(set(full)) != len(full):
            self.fail(f"once-dup:{tag}", case, "paged iteration yields a row more than once", ordered=full)
        exp = self.expected_rows(ent, case)
        if exp is not None:
            got = sorted(full)
            if got != exp:
                self.fail(f"once-set:{tag}", case, "paged iteration loses or invents rows w.r.t. the stored records",
                          missing=[x for x in exp if x not in got][:5], extra=[x for x in got if x not in exp][:5])
        self.observation(case, res["full"], ent, keys, total, full, None, tag)
        for ls, ob in res["limits"].items():
            self.observation(case, ob, ent, keys, total, full, int(ls), tag)
        # ---- model cases
        enc = Enc(full + [tup(r) for c in res["full"]["trace"] for r in (c.get("raw") or [])])
        raw = None
        if ent.pp:
            tr = res["full"]["trace"]
            if tr and all(c.get("raw") is not None for c in tr):
                raw = [tup(r) for c in tr for r in c["raw"]]
        if total:
            fullset = set(full)
            if ent.pp and raw is not None:
                xrows = [(enc(t), t in fullset) for t in raw]
                # the post-filter of the model input must be the geometric truth, not the implementation's answer
                tr_set = set(truth())
                if any((t in tr_set) != (t in fullset) for t in raw) and not case["meta"].get("where"):
                    self.fail(f"once-set:{tag}", case, "post-filter keeps/drops a row against the sphgeom ground truth")
            elif ent.pp:
                xrows = None   # raw rows could not be recorded: the black-box model comparison needs them (inexact count)
                self.ctx.cov["structural_drift"].append({"raw_rows_unavailable": case["q"]})
            else:
                xrows = [(enc(t), True) for t in full]
            for lim, ob in [(None, res["full"])] + [(int(k), v) for k, v in res["limits"].items()]:
                if xrows is None or (is_err(ob["ids"]) and ob["ids"]["err"] != "InvalidQuery"):
                    continue   # an unexpected exception is the oracle's business (exception:*), not a model case
                ids_c = "(@None (list Z))" if is_err(ob["ids"]) else f"(Some {clist(cz(enc(t)) for t in ob['ids'])})"
                c = (f"({c_cfg(page, factor, ent.pp, lim)}, {c_xrows(xrows)}, ({ids_c}, "
                     f"{clist(c_res_int(v) for v in ob['counts'])}, {clist(c_res_bool(v) for v in ob['anys'])}))")
                self.exec_cases.append(c)
                self.exec_meta.append({"case": {k: v for k, v in case.items() if k != 'meta'}, "limit": lim, "observed": {k: ob[k] for k in ("ids", "counts", "anys")}})
                if ob["trace"] and (raw is not None or not ent.pp) and all(isinstance(t["limit_before"], (int, type(None))) for t in ob["trace"]):
                    t3 = clist(f"({zopt(t['limit_before'])}, {cz(t['n_in'])}, {cz(t['n_out'])})" for t in ob["trace"])
                    self.trace_cases.append(f"({c_cfg(page, factor, ent.pp, lim)}, {c_xrows(xrows)}, {t3})")
                    self.trace_meta.append({"case": case["q"], "page": page, "factor": factor, "limit": lim})
            # ORDER BY model: base rows in identity order, one column per key
            base = sorted(full)
            cols = [rank_col([ent.fields[n](t) for t in base]) for n, _ in keys]
            rows = clist(clist([f"Some {cz(enc(t))}"] + [zopt(col[i]) for col in cols]) for i, t in enumerate(base))
            ks = clist(f"({j + 1}%nat, {cbool(desc)})" for j, (_, desc) in enumerate(keys))
            self.order_cases.append(f"({ks}, {rows}, {clist(cz(enc(t)) for t in full)})")
            self.order_meta.append({"q": case["q"], "ordered": full})

    def observation(self, case, ob, ent, keys, total, full, lim, tag):
        """One result object: iteration vs the unlimited ordered result, count and any vs iteration."""
        ctx = self.ctx
        ctx.count()
        ids = ob["ids"]
        n = len(full)
        rep = {"limit": lim, "observed": {k: ob.get(k) for k in ("ids", "counts", "anys")}, "unlimited": full}
        if lim is not None and lim < 0:
            # outside the documented domain of Query.limit: must be rejected or behave consistently
            ok = is_err(ids) or (not is_err(ob["counts"][0]) and ob["counts"][0] == len(ids) and ob["counts"][0] >= 0)
            if not ok:
                self.fail(f"neglimit:{tag}", case, "negative limit in Query.limit is neither rejected nor consistent (count vs iteration)", **rep)
            self.ctx.hist("limit_kind", "negative-refused" if is_err(ids) else "negative-accepted")
            return
        if is_err(ids):
            self.fail(f"exception:{tag}:limit", case, "iteration raised", **rep)
            return
        ids = [tup(x) for x in ids]
        want_n = n if lim is None else min(lim, n)
        pages_spanned = (150 if ent.pp else n) > case["page"]
        if pages_spanned and (lim is None or 0 < lim < n):
            ctx.nontrivial({"q": case["q"], "page": case["page"], "factor": case.get("factor"), "limit": lim})
        ctx.hist("limit_kind", "none" if lim is None else "0" if lim == 0 else "<n" if lim < n else "=n" if lim == n else ">n")
        if lim is not None:
            if len(ids) != want_n:
                self.fail(f"prefix-len:{tag}", case, f"limit={lim} returned {len(ids)} rows, expected {want_n}", **rep)
            elif total and ids != full[:want_n]:
                self.fail(f"prefix:{tag}", case, "limited result is not the prefix of the ordered result", **rep)
            elif not total:
                k1 = [[ent.fields[nm](t) for nm, _ in keys] for t in ids]
                k2 = [[ent.fields[nm](t) for nm, _ in keys] for t in full[:want_n]]
                if (keys and k1 != k2) or len(set(ids)) != len(ids) or not set(ids) <= set(full):
                    self.fail(f"prefix:{tag}", case, "limited result is not a prefix (by keys) of the ordered result", **rep)
        # count agrees with iteration
        c_ed, c_e, c_i = ob["counts"]
        if is_err(c_ed) or c_ed != len(ids):
            self.fail(f"count:exact-discard:{tag}", case, f"count(exact=True, discard=True)={c_ed} but iteration returned {len(ids)} rows", **rep)
        if not (is_err(c_e) and c_e["err"] == "InvalidQuery") and c_e != len(ids):
            self.fail(f"count:exact:{tag}", case, f"count(exact=True)={c_e} but iteration returned {len(ids)} rows", **rep)
        if is_err(c_i) or c_i < len(ids):
            self.fail(f"count:inexact:{tag}", case, f"count(exact=False)={c_i} is not an upper bound of {len(ids)}", **rep)
        a_tt, a_tf, a_ff, a_ft = ob["anys"]
        lk = "limit0" if lim == 0 else "limit" if lim is not None else "nolimit"
        if is_err(a_tt) or a_tt != (len(ids) > 0):
            self.fail(f"any:{lk}:{tag}", case, f"any()={a_tt} but iteration returned {len(ids)} rows", **rep)
        elif any((not is_err(a)) and a is False for a in (a_tf, a_ff)) and ids:
            self.fail(f"any-inexact:{lk}:{tag}", case, "inexact any() is False although rows are returned", **rep)
        if not is_err(a_ft) and a_ft != (len(ids) > 0):
            self.fail(f"any:{lk}:{tag}", case, "any(execute=False, exact=True) returned a wrong answer instead of refusing", **rep)

    # ---- Butler.query_* ------------------------------------------------------------------------------------
    def butler_case(self, case, res):
        ctx = self.ctx
        ent = ENTITIES[case["meta"]["ent"]]
        tag = f"butler:{ent.name}:{'pp' if ent.pp else 'sql'}"
        keys = parse_keys(case["q"]["order_by"])
        total = is_total(ent, keys)
        ref = res["limits"].get("None:0")
        ctx.hist("api", "butler")
        ctx.hist("entity", ent.name)
        if ref is None or is_err(ref["ids"]):
            self.fail(f"exception:{tag}", case, "unlimited query raised", observed=ref)
            return
        full = [tup(x) for x in ref["ids"]]
        bad = self.check_sorted(ent, keys, full)
        if bad:
            self.fail(f"order:{tag}", case, "result is not sorted by the requested keys", adjacent=bad)
        if not case["meta"].get("empty"):
            exp = self.expected_rows(ent, case)
            if exp is not None and sorted(full) != exp:
                self.fail(f"once-set:{tag}", case, "result set differs from the stored records", got=sorted(full)[:10])
        n = len(full)
        enc = Enc(full)
        xrows = [(enc(t), True) for t in full]
        for key, ob in res["limits"].items():
            ls, ex = key.split(":")
            lim = None if ls == "None" else int(ls)
            explain = ex == "1"
            ctx.count()
            ids = ob["ids"]
            rep = {"limit": lim, "explain": explain, "observed": ob, "unlimited": full}
            want_n = n if lim is None else min(abs(lim), n)
            want_empty_err = explain and lim != 0 and want_n == 0
            ctx.hist("limit_kind", "none" if lim is None else "negative" if lim < 0 else "0" if lim == 0 else "pos")
            if (150 if ent.pp else n) > case["page"]:
                ctx.nontrivial({"q": case["q"], "page": case["page"], "limit": lim, "explain": explain, "api": "butler"})
            if is_err(ids):
                if not (want_empty_err and ids["err"] == "EmptyQueryResultError"):
                    self.fail(f"exception:{tag}:limit", case, "Butler.query_* raised", **rep)
                got_c = "(@None (list Z))"
            else:
                ids = [tup(x) for x in ids]
                if want_empty_err:
                    self.fail(f"explain:{tag}", case, "empty result with explain=True did not raise EmptyQueryResultError", **rep)
                elif len(ids) != want_n:
                    self.fail(f"prefix-len:{tag}:{'neg' if (lim or 0) < 0 else 'pos'}", case, f"limit={lim} returned {len(ids)} rows, expected {want_n}", **rep)
                elif total and ids != full[:want_n]:
                    self.fail(f"prefix:{tag}", case, "limited result is not the prefix of the ordered result", **rep)
                elif not set(ids) <= set(full) or len(set(ids)) != len(ids):
                    self.fail(f"prefix:{tag}", case, "limited result is not part of the unlimited result", **rep)
                want_warn = lim is not None and lim < 0 and n > abs(lim)
                if bool(ob["warned"]) != want_warn:
                    self.fail(f"warn:{tag}", case, f"negative-limit warning {'missing' if want_warn else 'spurious'}", **rep)
                got_c = f"(Some {clist(cz(enc(t)) for t in ids)})" if set(ids) <= set(full) else None
            if total and got_c is not None:
                page, factor = case["page"], case.get("factor")
                self.butler_cases.append(
                    f"(({cz(page)}, {cz(factor if factor is not None else DEFAULT_FACTOR)}, {cbool(ent.pp)}, {zopt(lim)}, {cbool(explain)}), "
                    f"{c_xrows(xrows)}, ({got_c}, {cbool(ob['warned'])}))")
                self.butler_meta.append({"q": case["q"], "limit": lim, "explain": explain, "observed": ob})

    # ---- legacy registry interface ---------------------------------------------------------------------------
    def legacy_case(self, case, res):
        ctx = self.ctx
        ent = ENTITIES[case["meta"]["ent"]]
        kind = case["q"]["result"]
        tag = f"legacy:{ent.name}:{'pp' if ent.pp else 'sql'}"
        ctx.hist("api", "legacy")
        if "error" in res or is_err(res["full"]["ids"]):
            self.fail(f"exception:{tag}", case, "legacy query raised", observed=res.get("error") or res["full"]["ids"])
            return
        keys = parse_keys(case["q"]["order_by"])
        total = is_total(ent, keys)
        full = [tup(x) for x in res["full"]["ids"]]   # legacy results may contain duplicates (documented)
        bad = self.check_sorted(ent, keys, full)
        if bad:
            self.fail(f"order:{tag}", case, "result is not sorted by the requested keys", adjacent=bad)
        exp = self.expected_rows(ent, case)
        if exp is not None and sorted(set(full)) != exp:
            self.fail(f"once-set:{tag}", case, "distinct legacy rows differ from the stored records", got=sorted(set(full))[:10])
        for ls, ob in [("None", res["full"])] + list(res["limits"].items()):
            lim = None if ls == "None" else int(ls)
            ctx.count()
            rep = {"limit": lim, "observed": ob, "unlimited": full}
            ids = ob["ids"]
            if is_err(ids):
                self.fail(f"exception:{tag}:limit", case, "legacy iteration raised", **rep)
                continue
            ids = [tup(x) for x in ids]
            want_n = len(full) if lim is None else min(lim, len(full))
            if len(ids) != want_n:
                self.fail(f"prefix-len:{tag}", case, f"limit={lim} returned {len(ids)} rows, expected {want_n}", **rep)
            else:
                k1 = [[ent.fields[nm](t) for nm, _ in keys] for t in ids]
                k2 = [[ent.fields[nm](t) for nm, _ in keys] for t in full[:want_n]]
                if (total and ids != full[:want_n]) or (keys and k1 != k2):
                    self.fail(f"prefix:{tag}", case, "limited result is not the prefix of the ordered result", **rep)
            c = ob["counts"][0]
            lk = "nolimit" if lim is None else "limit"
            if is_err(c) or c != len(ids):
                self.fail(f"count-vs-iter:legacy:{kind}:{'pp' if ent.pp else 'sql'}:{lk}", case,
                          f"legacy count(exact=True, discard=True)={c} but iteration returned {len(ids)} rows", **rep)
            a = ob["anys"][0]
            if is_err(a) or a != (len(ids) > 0):
                self.fail(f"any:legacy:{kind}:{lk}", case, f"legacy any()={a} but iteration returned {len(ids)} rows", **rep)

    # ---- spellings -------------------------------------------------------------------------------------------
    def spell_case(self, case, res):
        ctx = self.ctx
        ent = ENTITIES[case["meta"]["ent"]]
        merged = case["merged"]
        exp = sorted(tup(r) for r in ent.rows() if all(ent.constraints[k](tup(r)) == v for k, v in merged.items()))
        names = ["dataid+kwargs", "kwargs", "where", "dataid"]
        ctx.hist("api", "spell")
        if exp:
            ctx.nontrivial({"spell": case["q"], "merged": merged, "d": case["d"], "kw": case["kw"]})
        for api in ("ctx", "butler", "legacy"):
            for nm, got in zip(names, res.get(api, [])):
                ctx.count()
                if is_err(got) and got["err"] == "InconsistentDataId" and not exp and nm != "where":
                    continue   # documented: a self-contradicting data ID may be rejected instead of selecting nothing
                if is_err(got):
                    self.fail(f"spell-exception:{api}:{nm}", case, "constraint spelling raised", observed=got, spelling=nm)
                    continue
                got = sorted(tup(x) for x in got)
                if got != exp:
                    # a constraint that contradicts itself only through an implied dimension value (e.g. visit=11, band='i')
                    req = [k for k in merged if k in ("instrument", "skymap") or k in ent.idkeys]
                    only_required = sorted(tup(r) for r in ent.rows() if all(ent.constraints[k](tup(r)) == merged[k] for k in req))
                    kindc = "implied-conflict" if (not exp and got == only_required) else "rows"
                    self.fail(f"spell:{api}:{nm}:{ent.name}:{kindc}", case, "constraint spelling selects different rows", spelling=nm, got=got[:10], want=exp[:10])
        if ent.pp or not res.get("ctx") or any(is_err(g) for g in res["ctx"]):
            return
        # model case: all rows of the entity, col 0 identity, one column per constraint key
        rows = sorted(tup(r) for r in ent.rows())
        enc = Enc(rows)
        ckeys = list(ent.constraints)
        allvals = {k: [ent.constraints[k](t) for t in rows] + [v for dd in (case["d"] or {}, case["kw"], merged) for kk, v in dd.items() if kk == k] for k in ckeys}
        ranks = {k: rank_col(allvals[k]) for k in ckeys}

        def zval(k, v):
            return ranks[k][allvals[k].index(v)]

        crows = clist(clist([f"Some {cz(enc(t))}"] + [zopt(ranks[k][i]) for k in ckeys]) for i, t in enumerate(rows))

        def cd(dd):
            return clist(f"({ckeys.index(k) + 1}%nat, {cz(zval(k, v))})" for k, v in (dd or {}).items())

        obs = clist(clist(cz(enc(tup(x))) for x in sorted(tup(y) for y in g)) for g in res["ctx"])
        self.spell_cases.append(f"({crows}, {cd(case['d'])}, {cd(case['kw'])}, {obs})")
        self.spell_meta.append({"q": case["q"], "d": case["d"], "kw": case["kw"], "observed": res["ctx"]})


# ------------------------------------------------------------------------------------------------------------

HDR = "From Coq Require Import ZArith List Bool.\nFrom V Require Import Model.Paging Model.PagingCheck.\nImport ListNotations.\nOpen Scope Z_scope.\n"
HDR_G = HDR.replace("Model.PagingCheck.", "Model.PagingCheck Model.PagingPPCheck.")


def run_batch(ctx: Ctx, cases, judge: Judge, label):
    nw = max(2, min(12, len(cases) // 12 or 1))
    chunks = [cases[i::nw] for i in range(nw)]
    outs = parallel_workers("c16_impl", "run_cases", [{"cases": ch} for ch in chunks], timeout=600 if ctx.quick else 1500)
    installed = None
    for ch, (st, res) in zip(chunks, outs):
        if st != "ok":
            # a hang / crash of the worker is an outcome, not a reason to stall: iteration never finished
            ctx.oracle_fail(f"worker-{st}", {"cases": ch[:3], "detail": (res or "")[-1500:] if isinstance(res, str) else None},
                            f"query worker {st}: iteration over result pages did not complete")
            continue
        installed = res["installed"]
        for case, r in zip(ch, res["results"]):
            try:
                {"ctx": judge.ctx_case, "butler": judge.butler_case, "legacy": judge.legacy_case, "spell": judge.spell_case}[case["kind"]](case, r)
            except Exception as e:  # noqa: BLE001  (harness bug: report, never hide)
                import traceback
                ctx.tie_broken("harness", f"judge:{case['kind']}", traceback.format_exc()[-1500:] + json.dumps(r, default=str)[:500])
    ctx.log(f"{label}: {len(cases)} cases in {nw} workers; instrumentation {installed}")
    return installed


def model_check(ctx: Ctx, judge: Judge, suffix="", generated=False):
    bads = {}
    for name, cases, chk, meta, structural in (
        ("exec" + suffix, judge.exec_cases, "chk_exec", judge.exec_meta, False),
        ("butler" + suffix, judge.butler_cases, "chk_butler", judge.butler_meta, False),
        ("order" + suffix, judge.order_cases, "chk_order", judge.order_meta, False),
        ("spell" + suffix, judge.spell_cases, "chk_spell", judge.spell_meta, False),
        ("trace" + suffix, judge.trace_cases, "chk_trace", judge.trace_meta, True),
    ):
        if not cases:
            continue
        bad = ctx.coq_cases(name, HDR, cases, chk, shard=250)
        bads[name] = bad
        ctx.hist("model_cases", name, len(cases))
        for i in (bad or [])[:4]:
            if structural:
                ctx.cov["structural_drift"].append({"relation": name, "case": meta[i]})
            else:
                ctx.disagreement(name, meta[i], "model and implementation differ")
        if structural and bad:
            ctx.log(f"structural drift (page structure) on {len(bad)} cases: logged, not a verdict")
            ctx.cov["ties"][f"K:{name}"] = f"drift on {len(bad)} cases (structure only)"
    if not generated:
        return
    # the REGENERATED Postprocessing.apply on the same observations.  By theorem postproc_refines_model it agrees with
    # chk_exec / chk_trace on the unchanged tree; where only the generated model disagrees the translator misrenders the code.
    for name, base, cases, chk, meta, structural in (
        ("gexec" + suffix, "exec" + suffix, judge.exec_cases, "chk_gexec", judge.exec_meta, False),
        ("gtrace" + suffix, "trace" + suffix, judge.trace_cases, "chk_gtrace", judge.trace_meta, True),
    ):
        if not cases or bads.get(base) is None:
            continue
        bad = ctx.coq_cases(name, HDR_G, cases, chk, shard=250)
        if bad is None:
            continue
        ctx.hist("model_cases", name, len(cases))
        only_g = sorted(set(bad) - set(bads[base]))
        only_h = sorted(set(bads[base]) - set(bad))
        if only_h:
            ctx.log(f"{name}: the regenerated apply follows the implementation on {len(only_h)} cases where the hand-written model does not")
        if structural:
            if only_g:
                ctx.cov["structural_drift"].append({"relation": name, "case": meta[only_g[0]], "n": len(only_g)})
            ctx.cov["ties"][f"K:{name}"] = "ok" if not bad else f"drift on {len(bad)} cases (structure only)"
        else:
            for i in only_g[:4]:
                ctx.disagreement(name, meta[i], "regenerated Postprocessing.apply and implementation differ (translator does not render the code)")
            ctx.cov["ties"][f"K:{name}"] = "ok" if not bad else f"{len(bad)} disagreements ({len(only_g)} not shared with the hand-written model)"


def run(ctx: Ctx):
    # known findings of this property: also read the fragment so that the check is quiet before assembly
    frag = VERIF / "known_findings.d" / "C16.json"
    if frag.exists():
        have = {k["id"] for k in ctx.known}
        ctx.known += [k for k in json.loads(frag.read_text()) if k["id"] not in have and k.get("property") == "C16"]
    ctx.assumptions += [
        "SQLite yields the rows of one SELECT in the same order every time it is run inside one session (used to compare a limited with an unlimited execution when ORDER BY is total)",
        "SQLAlchemy partitions(): yield_per=0 behaves as 1 and a negative yield_per yields nothing (modelled in pages_z, compared on every run)",
        "lsst.sphgeom region overlap is the ground truth of the spatial post-filter (computed by the harness from the fixture regions)",
        "Python str ordering of the ASCII metadata values equals SQLite BINARY collation",
    ]
    ctx.cov["rule"] = (
        "an observation (query, raw page size, filter factor, limit) is non-trivial when the unlimited SQL result spans at least "
        "two raw pages and the limit is None or strictly between 0 and the result size; a spelling case when it selects at least one row"
    )
    # tie T: the counter logic of Postprocessing.apply, regenerated; the paging theorems are stated over it
    gen_ok = ctx.regen("postproc", postproc.translate)
    ctx.build_props(extra_targets=["Model/PagingCheck.vo", "Model/PagingPPCheck.vo"])
    gen_ok = gen_ok and (COQ / "Model" / "PagingPPCheck.vo").exists()
    judge = Judge(ctx)
    # regression corpus first
    corpus = []
    for f in sorted((VERIF / "corpus" / "C16").glob("*.json")):
        corpus += json.loads(f.read_text())["cases"]
    if ctx.replay:
        rp = json.loads(Path(ctx.replay).read_text())
        c = rp.get("case")
        if c:
            corpus = [dict(c, meta=rp.get("meta") or {})]
    if corpus:
        run_batch(ctx, corpus, judge, "corpus")
    if not ctx.replay:
        cases = gen_cases(ctx, 120 if ctx.quick else 900)
        for c in cases[:3]:
            ctx.sample({k: v for k, v in c.items()})
        installed = run_batch(ctx, cases, judge, "generated")
        if installed and not all(installed.values()):
            ctx.cov["structural_drift"].append({"instrumentation": installed})
            if not installed.get("driver_init"):
                ctx.tie_broken("correspondence", "page-size", "could not force the driver's raw page size (constructor parameters changed)")
    model_check(ctx, judge, generated=gen_ok)
    if ctx.broken and not ctx.oracle_failures and ctx.quick and not ctx.replay:
        # something no longer checks but the oracle held: deeper search on the implementation
        ctx.log("broken obligation/tie without oracle failure: running the thorough-size search")
        j2 = Judge(ctx)
        run_batch(ctx, gen_cases(ctx, 600), j2, "search")
        ctx.cov["search"] = f"thorough-size search: {len(j2.exec_cases)} more executions judged by the oracle"
