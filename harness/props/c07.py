"""C07 -- A failed operation or transaction block leaves registry and datastore untouched.

Obligations: coq/Props/C07.v over Model/Txn.v (programs of operations, Butler.transaction blocks, try/except, user
       failures; datastore undo-log stack + pointer, SQL nesting with savepoints, fault at the k-th boundary).
Tie K: generated transaction programs (depth <= 3, caught / uncaught inner failures, put / ingest(copy, move) / associate /
       certify / insertDimensionData / expandDataId / pruneDatasets(purge | unstore | disassociate) / emptyTrash; corpus programs
       also transfer_from / import_ of one dataset from a fixed source repository) run on a
       REAL Butler in worker subprocesses with a fault injected at EACH instrumented SQL / file / formatter boundary in
       turn (positions enumerated by a fault-free run).  The sequence of final observations (registry through the same
       client, raw rows, checksummed root listing, staging area, Datastore._transaction, open SQL transaction), before
       and after a follow-up emptyTrash, with consecutive duplicates collapsed, must equal the Coq model's sequence
       (Model/TxnCheck.v, vm_compute).
Oracle (from the property text, independent of the Coq model): `Spec` below -- blocks and additive operations are
       all-or-nothing, a failing removal is all-or-nothing in the registry and leaves at most artifacts that the next
       emptyTrash collects; the set of results the statement allows for "one failure somewhere" is enumerated over the
       failure points of the abstract program, and every implementation result must be in it.  Plus direct checks:
       pointer / SQL transaction closed afterwards, client views agree with the committed rows, no stray files; and,
       wherever the program's own try/except catches a failure of an additive construct, row counts of the registry
       tables seen by the client's connection and the file listings equal those at entry of the construct.
"""
from __future__ import annotations

import copy
import glob
import json
import os
import re

from harness.common import VERIF, Ctx, parallel_workers

NSLOT, NGOV = 4, 3
ADDITIVE = {"put", "ingest", "assoc", "cert", "insdim", "expand", "transfer", "import"}
REMOVAL = {"purge", "unstore", "emptytrash"}
HDR = ("From Coq Require Import NArith List Bool.\nFrom V Require Import Model.Txn Model.TxnCheck.\n"
       "Import ListNotations.\nOpen Scope N_scope.\n")


# =================================================================================================
# The abstract specification, written from the property statement (NOT from the Coq model)
# =================================================================================================
class SFail(Exception):
    def __init__(self, hard=False):
        self.hard = hard


class Spec:
    """ds: slots registered; tags, certs, dims: sets; files: slot -> content; ext: slot -> content;
    pending: artifacts left behind by a failed removal (must be gone after the next emptyTrash)."""

    def __init__(self):
        self.ds, self.tags, self.certs, self.dims = set(), set(), set(), set()
        self.files, self.ext, self.pending = {}, {d: 100 + d for d in range(NSLOT)}, set()
        self.xf = set()          # slots whose registered dataset came from the source repository (same dataset id there)

    def key(self):
        return (tuple(sorted(self.ds)), tuple(sorted(self.tags)), tuple(sorted(self.certs)), tuple(sorted(self.dims)),
                tuple(sorted(self.files.items())), tuple(sorted(self.pending)))

    # the documented effect of an operation that succeeds; raises SFail when its precondition fails
    def apply(self, op):
        n, a = op[0], op[1:]
        if n == "put":
            d, v = a
            if d in self.ds:
                raise SFail()
            self.ds.add(d)
            self.files[d] = v
        elif n == "ingest":
            mode, d = a
            if d in self.ds or d not in self.ext:
                raise SFail()
            self.ds.add(d)
            self.files[d] = self.ext[d]
            if mode == "move":
                del self.ext[d]
        elif n == "transfer":
            # documented: datasets already present (same id) are skipped, an artifact is only copied when the target has
            # none recorded; the same data ID under another id is a conflict
            d = a[0]
            if d in self.ds and d not in self.xf:
                raise SFail()
            self.ds.add(d)
            self.xf.add(d)
            if d not in self.files:
                self.files[d] = 200 + d
        elif n == "import":
            # an export holding one dataset of the source repository: as transfer_from, except that importing a dataset
            # that is already STORED here is refused (ConflictingDefinitionError since /repo 2da36a1, before any file is touched)
            # -- by the statement a refusal changes nothing
            d = a[0]
            if d in self.ds and (d not in self.xf or d in self.files):
                raise SFail()
            self.ds.add(d)
            self.xf.add(d)
            self.files[d] = 200 + d
        elif n == "assoc":
            if a[0] not in self.ds:
                raise SFail()
            self.tags.add(a[0])
        elif n == "untag":
            if a[0] not in self.ds:
                raise SFail()
            self.tags.discard(a[0])
        elif n == "cert":
            if a[0] not in self.ds or a[0] in self.certs:
                raise SFail()
            self.certs.add(a[0])
        elif n == "insdim":
            if a[0] in self.dims:
                raise SFail()
            self.dims.add(a[0])
        elif n == "expand":
            if a[0] not in self.dims:
                raise SFail()
        elif n == "purge":
            d = a[0]
            if d not in self.ds:
                raise SFail()
            self.ds.discard(d)
            self.xf.discard(d)
            self.tags.discard(d)
            self.certs.discard(d)
            self.files.pop(d, None)
            self.empty()
        elif n == "unstore":
            d = a[0]
            if d not in self.ds:
                raise SFail()
            self.files.pop(d, None)
            self.empty()
        elif n == "emptytrash":
            self.empty()
        else:
            raise ValueError(op)

    def empty(self):
        for d in self.pending:
            self.files.pop(d, None)
        self.pending = set()


def spec_results(pre, prog, hard):
    """All (outcome, Spec) pairs the statement allows for the program with at most one failure somewhere.
    Failure points: every operation instance executed, every block entry and every block exit.  A failing additive
    operation or block has no effect; a failing removal may have removed its target from the registry entirely or not
    at all, and may leave the target's artifact behind as `pending`; a removal whose error is swallowed may also have done
    nothing and returned normally, the program continuing (variant 3)."""
    base = Spec()
    for p in pre:
        try:
            _spec_run(base, p, [10 ** 9], False, [0])
        except SFail:
            pass
    results = []
    n = 0
    while True:
        for variant in (0, 1, 2, 3):
            s = copy.deepcopy(base)
            cnt = [n]
            used = [0]
            try:
                _spec_run(s, prog, cnt, hard, used, variant)
                out = "Normal"
            except SFail:
                out = "Raised"
            results.append((out, s, used[0]))
            if not used[0]:
                break
        if not used[0]:
            break
        n += 1
        if n > 400:
            break
    return base, results


def _spec_run(s, p, cnt, hard, used, variant=0):
    k = p[0]

    def point():
        if cnt[0] == 0:
            cnt[0] = -1
            used[0] = 1
            return True
        if cnt[0] > 0:
            cnt[0] -= 1
        return False

    if k == "op":
        op = p[1:]
        if point():
            if variant == 3 and op[0] in REMOVAL and not hard:
                # the failing removal did nothing AND returned normally (Datastore.trash / emptyTrash swallow ordinary
                # errors by design, ignore_errors=True): the program goes on as if the call had been a no-op; nothing is
                # left behind, so the statement holds.  The outcome must then be the one the REST of the program gives
                # (used = 3, not the outcome-free 2).  A BaseException is never swallowed.
                used[0] = 3
                return
            if op[0] in ("purge", "unstore") and op[1] in s.ds and variant in (1, 2):
                # a removal that fails: registry all-or-nothing; the artifact may be left behind, to be collected
                d = op[1]
                if op[0] == "purge":
                    s.ds.discard(d)
                    s.xf.discard(d)
                    s.tags.discard(d)
                    s.certs.discard(d)
                used[0] = 2
                if variant == 1:
                    if d in s.files:
                        s.pending.add(d)
                else:
                    s.files.pop(d, None)
                    s.empty()
            elif op[0] == "emptytrash" and variant in (1, 2):
                used[0] = 2
                if variant == 2:
                    s.empty()
            elif op[0] in REMOVAL:
                # variant 0: the removal did nothing at all.  Datastore.trash / emptyTrash swallow errors by design
                # (ignore_errors=True), so the call may even return normally; nothing is left behind, the statement holds
                used[0] = 2
            raise SFail(hard)
        s.apply(op)
    elif k == "block":
        snap = copy.deepcopy(s)
        try:
            if point():
                raise SFail(hard)
            for q in p[1]:
                _spec_run(s, q, cnt, hard, used, variant)
            if point():
                raise SFail(hard)
        except SFail:
            s.__dict__.update(copy.deepcopy(snap).__dict__)     # everything as before the block
            raise
    elif k == "try":
        try:
            _spec_run(s, p[1], cnt, hard, used, variant)
        except SFail as e:
            if e.hard:
                raise
    elif k == "fail":
        raise SFail()
    else:
        raise ValueError(p)


# =================================================================================================
# generator
# =================================================================================================
def ops_in(p):
    if p[0] == "op":
        return [p[1]]
    if p[0] == "block":
        return [o for q in p[1] for o in ops_in(q)]
    if p[0] == "try":
        return ops_in(p[1])
    return []


def _all_ops(p):
    if p[0] == "op":
        return [p]
    if p[0] == "block":
        return [o for q in p[1] for o in _all_ops(q)]
    if p[0] == "try":
        return _all_ops(p[1])
    return []


def depth(p):
    if p[0] == "block":
        return 1 + max([depth(q) for q in p[1]] or [0])
    if p[0] == "try":
        return depth(p[1])
    return 0


def gen_case(rng, additive_only=False):
    sp = Spec()
    vctr = [0]

    def gen_op(removal_ok):
        x = rng.random()
        free = [d for d in range(NSLOT) if d not in sp.ds]
        have = sorted(sp.ds)

        def slot(good, bad=0.15):
            if good and rng.random() > bad:
                return rng.choice(good)
            return rng.randrange(NSLOT)
        if x < 0.28:
            vctr[0] += 1
            return ["op", "put", slot(free), vctr[0]]
        if x < 0.45:
            cand = [d for d in free if d in sp.ext]
            return ["op", "ingest", rng.choice(["copy", "move"]), slot(cand)]
        if x < 0.55:
            return ["op", "assoc", slot(have)]
        if x < 0.63:
            return ["op", "cert", slot([d for d in have if d not in sp.certs], 0.25)]
        if x < 0.71:
            return ["op", "insdim", rng.randrange(NGOV)]
        if x < 0.78:
            return ["op", "expand", rng.choice(sorted(sp.dims)) if sp.dims and rng.random() < 0.7 else rng.randrange(NGOV)]
        if x < 0.82 or not removal_ok:
            return ["op", "untag", slot(sorted(sp.tags))] if not additive_only else ["op", "assoc", slot(have)]
        if x < 0.92:
            return ["op", "purge", slot(have)]
        if x < 0.98:
            return ["op", "unstore", slot(have)]
        return ["op", "emptytrash"]

    def track(p):
        if p[0] == "op":
            try:
                sp.apply(p[1:])
            except SFail:
                pass

    pre = []
    for _ in range(rng.choice([0, 1, 2, 3, 3, 4])):
        p = gen_op(False)
        if p[1] in ("expand",):
            continue
        pre.append(p)
        track(p)

    def gen_prog(dep, removal_ok):
        x = rng.random()
        if dep >= 3 or x < 0.45:
            p = gen_op(removal_ok)
            track(p)
            return p
        if x < 0.6 and dep > 0:
            return ["fail"]
        if x < 0.78:
            return ["try", gen_prog(dep, removal_ok)]
        snap = copy.deepcopy(sp)
        body = [gen_prog(dep + 1, removal_ok) for _ in range(rng.choice([1, 2, 2, 3, 3, 4]))]
        if rng.random() < 0.4:
            body.append(["fail"])
            sp.__dict__.update(snap.__dict__)
        return ["block", body]

    shape = rng.random()
    removal_ok = not additive_only and rng.random() < 0.45
    if shape < 0.65:
        body = [gen_prog(1, removal_ok) for _ in range(rng.choice([2, 3, 3, 4]))]
        if rng.random() < 0.5:
            body.append(["fail"])
        prog = ["block", body]
    elif shape < 0.8:
        prog = gen_op(not additive_only)     # a lone expandDataId included (compared since the cache load is a boundary of the model)
    else:
        prog = ["try", ["block", [gen_prog(1, removal_ok) for _ in range(rng.choice([2, 3]))] + [["fail"]]]]
    return {"pre": pre, "prog": prog}


def boost_removal_after_write(case, seed, k):
    """Raise the weight of "a dataset written (put / ingest) inside a block is removed again inside the SAME block, which then
    fails" -- the mix in which an undo action finds its artifact gone (seed C07c).  Decided by a random generator derived from
    (seed, k) only, so the main stream -- every other program of every seed -- stays what it was.  In 35 % of the programs whose
    top-level block writes some slot, `purge d` of such a slot and a final `fail` are appended to that block."""
    import random
    rng2 = random.Random(f"C07-boost:{seed}:{k}")
    prog = case["prog"]
    if prog[0] != "block" or rng2.random() >= 0.35:
        return case
    written = [o[2] if o[0] == "ingest" else o[1] for o in
               (q[1:] for q in _all_ops(prog)) if o[0] in ("put", "ingest")]
    if not written:
        return case
    d = rng2.choice(written)
    body = [q for q in prog[1] if q != ["fail"]] + [["op", "purge", d], ["fail"]]
    return {"pre": case["pre"], "prog": ["block", body]}


# =================================================================================================
# observations -> vectors
# =================================================================================================
def recs_slots(paths):
    out = []
    for p in paths:
        m = re.search(r"det(\d+)", p)
        out.append(int(m.group(1)) if m else 99)
    return sorted(out)


def fvec(pairs, n=NSLOT):
    m = {d: v for d, v in pairs}
    return [m[d] + 1 if d in m else 0 for d in range(n)]


def state_vec(o):
    return [o["ds"], o["raw_loc"], recs_slots(o["raw_recs"]), [o["raw_trash_n"]], o["tags"], o["certs"], o["dims"], o["dimvis"],
            fvec(o["fs"]), fvec(o["ext"]), [1 if o["ptr_none"] else 0, 0 if o["in_sql_txn"] else 1]]


def out_code(out):
    if out == "Normal":
        return 0
    return 2 if "InjectedInterrupt" in out else 1


def run_vec(r):
    return [[out_code(r["out"])]] + state_vec(r["obs"]) + state_vec(r["follow_obs"])


def compress(seq):
    out = []
    for x in seq:
        if not out or out[-1] != x:
            out.append(x)
    return out


# ---- Coq literals
def cl(l):
    return "[" + ";".join(str(x) for x in l) + "]"


def cll(ll):
    return "[" + ";".join(cl(x) for x in ll) + "]"


def cprog(p):
    k = p[0]
    if k == "op":
        n, a = p[1], p[2:]
        if n == "put":
            return f"POp (Put {a[0]} {a[1]})"
        if n == "ingest":
            return f"POp (Ingest {'Copy' if a[0] == 'copy' else 'Move'} {a[1]})"
        nm = {"assoc": "Assoc", "untag": "Untag", "cert": "Cert", "insdim": "InsDim", "expand": "Expand", "purge": "Purge",
              "unstore": "Unstore", "transfer": "Transfer", "import": "ImportDs"}
        if n == "emptytrash":
            return "POp EmptyTrash"
        return f"POp ({nm[n]} {a[0]})"
    if k == "block":
        return "PBlock [" + "; ".join(cprog(q) for q in p[1]) + "]"
    if k == "try":
        return f"PTry ({cprog(p[1])})"
    if k == "fail":
        return "PFail"
    raise ValueError(p)


EXT0 = "[" + ";".join(f"({d},{100 + d})" for d in range(NSLOT)) + "]"


def ccase(case, hard, seq):
    pre = "[" + "; ".join(cprog(p) for p in case["pre"]) + "]"
    return (f"({EXT0}, {pre} : list prog, {cprog(case['prog'])}, {'true' if hard else 'false'},\n    ["
            + ";\n     ".join(cll(v) for v in seq) + "])")


# =================================================================================================
# oracle
# =================================================================================================
def ev_class(fired):
    if not fired:
        return "none"
    kind, _, lab = fired.partition(":")
    if kind == "sql":
        w = lab.split()
        if w[0] in ("INSERT", "DELETE", "UPDATE"):
            tb = w[1] if len(w) > 1 else ''
            tb = "tmp" if tb.startswith("tmp_") else re.sub(r'_[0-9a-f]{8}$', '', tb)
            return f"sql:{w[0]} {tb}".strip()
        if w[0] in ("SELECT", "WITH"):
            return "sql:read"
        return f"sql:{w[0]}"
    return f"{kind}:{lab}"


def check_case(ctx: Ctx, case, res, origin):
    """Evaluate the property on every run of one case; returns number of oracle failures."""
    nfail = 0
    prog, pre = case["prog"], case["pre"]
    opsin = ops_in(prog)
    has_removal = any(o in REMOVAL for o in opsin)
    top = "top-op" if prog[0] == "op" else "block"
    P = res["pre_obs"]
    runs = [dict(res["free"], at=None, flavour="natural")] + res["faults"]
    allowed_cache = {}

    def fail(vtype, r, what, extra=None):
        nonlocal nfail
        nfail += 1
        sig = f"{vtype}:{ev_class(r.get('fired'))}:{'removal' if has_removal else 'additive'}:{top}"
        ctx.oracle_fail(sig, {"pre": pre, "prog": prog, "fault_at": r.get("at"), "flavour": r.get("flavour"), "fired": r.get("fired"),
                              "outcome": r["out"], "origin": origin, "observed": _brief(r["obs"]),
                              "observed_after_emptyTrash": _brief(r.get("follow_obs") or {}), "before": _brief(P), "detail": extra}, what)

    for r in runs:
        ctx.count()
        o, fo = r["obs"], r["follow_obs"]
        hardf = r.get("flavour") == "interrupt"
        ctx.hist("outcomes", r["out"].split(":")[-1])
        ctx.hist("fault_boundary", ev_class(r.get("fired")))
        # ---- direct statements
        if not o["ptr_none"] or o["in_sql_txn"]:
            fail("transaction-left-open", r, "after the program Datastore._transaction is not None or a SQL transaction is still open")
        for name, ob in (("", o), ("-after-emptyTrash", fo)):
            if not (ob["ds"] == ob["ds_legacy"] == ob["find"] == ob["raw_ds"]) or ob["dims"] != ob["raw_dims"]:
                fail("client-view-differs-from-committed" + name, r, "the client's query results differ from the committed rows",
                     {k: ob[k] for k in ("ds", "ds_legacy", "find", "raw_ds", "dims", "raw_dims")})
            if ob["dimvis"] != ob["dims"]:
                fail("dimension-cache-stale" + name, r, "expandDataId accepts / rejects a governor value contrary to the stored records",
                     {"expandable": ob["dimvis"], "records": ob["dims"]})
            if ob["fs_odd"]:
                fail("stray-file" + name, r, f"unexpected files under the datastore root: {ob['fs_odd'][:3]}")
            if ob["errors"]:
                fail("probe-error" + name, r, f"observation raised: {ob['errors'][:3]}")
        # ---- the statement where the program itself catches the failure: the failing additive construct left no trace
        for esc in r.get("escapes", []):
            diff = {k: [esc["before"].get(k), esc["after"].get(k)] for k in sorted(set(esc["before"]) | set(esc["after"]))
                    if esc["before"].get(k) != esc["after"].get(k)}
            fail("inner-failure-kept-effects", r,
                 f"a {esc['construct']} inside the program raised {esc['exc']} (caught by the program's own try) but the registry rows / "
                 f"files are not what they were when it was entered: {diff}", {"construct": esc["construct"], "changed": diff})
        # ---- the statement: the result must be one the abstract program allows for a single failure somewhere
        key = hardf
        if key not in allowed_cache:
            allowed_cache[key] = spec_results(pre, prog, hardf)
        base, results = allowed_cache[key]
        got = (tuple(o["ds"]), tuple(o["tags"]), tuple(o["certs"]), tuple(o["dims"]), tuple(tuple(x) for x in o["fs"]))
        got_out = "Normal" if r["out"] == "Normal" else "Raised"
        cands = []
        for out, s, used in results:
            k = s.key()
            if k[:5] == got and (out == got_out or used == 2):
                cands.append(s)
        if not cands:
            # classify what is wrong relative to the closest allowed result with equal registry content
            same_reg = [s for out, s, used in results if s.key()[:4] == got[:4]]
            files_now = dict(o["fs"])
            if same_reg:
                s = same_reg[0]
                orphan = sorted(d for d in files_now if d not in s.files)
                lost = sorted(d for d in s.files if d not in files_now)
                wrongv = sorted(d for d in s.files if d in files_now and files_now[d] != s.files[d])
                targets = {p_[2] for p_ in _all_ops(prog) if p_[1] in ("purge", "unstore")}
                vt = ("artifact-orphaned" if orphan else
                      ("artifact-lost-removal-target" if set(lost) <= targets else "artifact-lost") if lost else
                      "artifact-content" if wrongv else "outcome")
                fail(vt, r, f"{r['out']} after a fault at {r.get('fired')}: registry as allowed but artifacts differ "
                            f"(left behind: {orphan}, missing: {lost}, wrong content: {wrongv})",
                     {"allowed_files": sorted(s.files.items()), "files": o["fs"]})
            else:
                fail("registry-differs", r, f"{r['out']} after a fault at {r.get('fired')}: the registry content is none of the "
                                            f"results the statement allows", {"allowed": [list(s.key()[:4]) for _, s, _ in results][:6], "got": list(got[:4])})
        else:
            # leftovers are removed by the next trash emptying
            ok_follow = False
            ffiles = dict(fo["fs"])
            for s in cands:
                want = {d: v for d, v in s.files.items() if d not in s.pending}
                if ffiles == want and tuple(fo["ds"]) == tuple(sorted(s.ds)):
                    ok_follow = True
            if not ok_follow:
                s = cands[0]
                left = sorted(d for d in ffiles if d not in s.files or d in s.pending)
                vt = "not-collected-by-emptyTrash" if left else "emptyTrash-harms"
                fail(vt, r, f"after the next emptyTrash the artifacts are {sorted(ffiles.items())}; left behind {left}",
                     {"files_after": fo["fs"], "allowed": sorted((d, v) for d, v in s.files.items() if d not in s.pending)})
        # ---- no artifact without a row, no row without an artifact (after emptyTrash nothing may be pending)
        fslots = {d for d, _ in fo["fs"]}
        locs = set(fo["raw_loc"])
        if fslots - locs:
            fail("artifact-without-location-after-emptyTrash", r,
                 f"after the follow-up emptyTrash the artifacts of slots {sorted(fslots - locs)} are under the root but no "
                 f"dataset_location row refers to them (nothing will ever collect them)", {"files": fo["fs"], "dataset_location": fo["raw_loc"]})
        if locs - fslots:
            fail("location-without-artifact-after-emptyTrash", r,
                 f"after the follow-up emptyTrash dataset_location says slots {sorted(locs - fslots)} are stored but their artifacts "
                 f"are gone", {"files": fo["fs"], "dataset_location": fo["raw_loc"]})
    return nfail


def _brief(o):
    return {k: o.get(k) for k in ("ds", "tags", "certs", "dims", "dimvis", "fs", "raw_loc", "raw_recs", "raw_trash_n", "ptr_none", "get")}


def nontrivial_rule(case, res):
    """A case counts when the program has a block, at least one fault run ended Raised with files or registry that had
    been modified before the fault (rollback had work to do: the fault fired at or after the first write boundary), and
    at least one fault was caught or absorbed (Normal outcome with a fault fired)."""
    if depth(case["prog"]) < 1 and case["prog"][0] != "op":
        return False
    raised_after_write = False
    caught = False
    seen_write = False
    for r in res["faults"]:
        f = r.get("fired") or ""
        if f.startswith("fs:") or "INSERT" in f or "DELETE" in f:
            seen_write = True
        if r["out"] != "Normal" and seen_write:
            raised_after_write = True
        if r["out"] == "Normal" and r.get("fired"):
            caught = True
    return raised_after_write and (caught or case["prog"][0] == "op")


# =================================================================================================
def execute(ctx: Ctx, cases, flavours_of, timeout=1500):
    payloads = [{"cases": [dict(c, flavours=flavours_of(i), positions=c.get("positions", "all"), follow=[["op", "emptytrash"]])]}
                for i, c in enumerate(cases)]
    res = parallel_workers("c07_impl", "run_cases", payloads, timeout=timeout)
    out = []
    for c, (status, r) in zip(cases, res):
        if status != "ok":
            out.append(None)
            ctx.oracle_fail(f"worker-{status}", {"pre": c["pre"], "prog": c["prog"], "detail": (r or "")[-1500:] if isinstance(r, str) else None},
                            f"running the program on the implementation ended in a {status}")
        else:
            out.append(r[0])
    return out


def coq_cases_of(case, res):
    """One Coq case per flavour present."""
    out = []
    free = run_vec(res["free"])
    for fl in sorted({f["flavour"] for f in res["faults"]} or {"natural"}):
        seq = compress([run_vec(f) for f in res["faults"] if f["flavour"] == fl] + [free])
        out.append((fl, ccase(case, fl == "interrupt", seq), seq))
    return out


def run(ctx: Ctx):
    frag = VERIF / "known_findings.d" / "C07.json"
    if frag.exists():
        have = {k["id"] for k in ctx.known}
        ctx.known += [k for k in json.loads(frag.read_text()) if k["id"] not in have and k.get("property") == "C07"]
    ctx.assumptions += [
        "SQLite: a transaction / savepoint rollback discards exactly the statements executed inside it; a failed statement "
        "leaves the enclosing transaction usable (exercised by the correspondence on every run)",
        "one fault per run, raised INSTEAD of the work at the boundary; boundaries reached while an undo log is replayed or a "
        "ROLLBACK is issued are not faulted (errors there are swallowed by design)",
        "one RUN / TAGGED / CALIBRATION collection, one dataset type, 4 data IDs, 3 governor values, POSIX file datastore with "
        "the YAML formatter; transfer_from / import_ of ONE dataset with transfer='copy' from a fixed source repository (corpus "
        "programs only); ChainedDatastore / InMemoryDatastore, removeRuns and PostgreSQL are outside the model",
    ]
    ctx.cov["rule"] = (
        "a case (committed pre-history + transaction program, every fault position of the fault-free run replayed on a fresh copy "
        "of the repository) is non-trivial when some fault fired after the first write boundary and escaped (the rollback had "
        "work to do) and, for block programs, some fault was caught by a try or absorbed"
    )
    props_ok = ctx.build_props(extra_targets=["Model/TxnCheck.vo"])
    if not props_ok:
        from harness.common import coq_make
        coq_make(["Model/TxnCheck.vo"])

    cases, origins = [], []
    for f in sorted(glob.glob(str(VERIF / "corpus" / "C07" / "*.json"))):
        for j in json.load(open(f)):
            cases.append(dict({"pre": j["pre"], "prog": j["prog"]}, **({"positions": j["positions"]} if "positions" in j else {})))
            origins.append("corpus/" + os.path.basename(f) + ":" + j.get("name", ""))
    ncorpus = len(cases)
    if ctx.replay:
        j = ctx.replay_obj
        cases, origins, ncorpus = [{"pre": j["pre"], "prog": j["prog"]}], ["replay"], 1
    elif os.environ.get("VERIF_C07_EXPAND_SWEEP"):
        # cheap sweep: no corpus, only those of the first N generated programs of this seed that contain expandDataId
        # (caught or not) -- the operation whose cache-loading SELECTs are boundaries of the model since wave 5
        cases, origins, ncorpus = [], [], 0
        for k in range(int(os.environ["VERIF_C07_EXPAND_SWEEP"])):
            c = gen_case(ctx.rng, additive_only=(k % 4 == 0))
            if "expand" in ops_in(c["prog"]):
                cases.append(c)
                origins.append(f"seed{ctx.seed}/{k}")
    else:
        n = 5 if ctx.quick else 100      # 5 (was 12): the corpus grew from 10 to 19 programs; wall time unchanged
        for k in range(n):
            cases.append(boost_removal_after_write(gen_case(ctx.rng, additive_only=(k % 4 == 0)), ctx.seed, k))
            origins.append(f"seed{ctx.seed}/{k}")

    def flav(i):
        return ["natural", "interrupt"] if (i % 4 == 0 or not ctx.quick) else ["natural"]
    results = execute(ctx, cases, flav)

    coq, meta = [], []
    for c, r, org in zip(cases, results, origins):
        if r is None:
            continue
        check_case(ctx, c, r, org)
        if nontrivial_rule(c, r):
            ctx.nontrivial([c["pre"], c["prog"]])
        ctx.hist("boundaries_per_program", min(200, (r["free"]["nevents"] // 20) * 20))
        ctx.hist("depth", depth(c["prog"]))
        for o in ops_in(c["prog"]):
            ctx.hist("ops", o)
        if c.get("positions", "all") != "all":
            continue          # restricted fault positions (corpus entries with "positions"): oracle only, sequences not comparable
        for fl, lit, seq in coq_cases_of(c, r):
            coq.append(lit)
            meta.append((c, r, org, fl, seq))
    if meta:
        c, r, org, fl, seq = meta[min(len(meta) - 1, ncorpus)]
        ctx.sample({"origin": org, "pre": c["pre"], "prog": c["prog"], "boundaries": r["free"]["nevents"],
                    "trace_head": r["free"].get("trace", [])[:25], "distinct_results": len(seq)})

    bad = ctx.coq_cases("txn", HDR, coq, "chk_case", shard=6 if ctx.quick else 8, timeout=900)
    for i in (bad or [])[:5]:
        c, r, org, fl, seq = meta[i]
        pre = "[" + "; ".join(cprog(p) for p in c["pre"]) + "]"
        rc, txt = ctx.coq_eval("where", HDR, f"model_seq {EXT0} ({pre} : list prog) ({cprog(c['prog'])}) {'true' if fl == 'interrupt' else 'false'}")
        ctx.disagreement("txn", {"origin": org, "pre": c["pre"], "prog": c["prog"], "flavour": fl, "implementation_sequence": seq},
                         "model sequence: " + re.sub(r"\s+", " ", txt)[-1500:])

    if ctx.broken and not ctx.oracle_failures and not ctx.replay:
        ctx.log("obligation/tie broken without oracle failure: searching deeper on the implementation")
        if ctx.quick:
            # bounded: the whole quick run must end within ~6 min even when a tie is broken (a program costs ~8 s at 3 workers
            # with the natural flavour only); the thorough tier searches 160 programs with both flavours
            import time
            n_extra = max(3, min(12, int((345 - (time.time() - ctx.t0)) / 8)))
            extra = [gen_case(ctx.rng) for _ in range(n_extra)]
            res = execute(ctx, extra, lambda i: ["natural"], timeout=240)
        else:
            extra = [gen_case(ctx.rng) for _ in range(160)]
            res = execute(ctx, extra, lambda i: ["natural", "interrupt"])
        for k, (c, r) in enumerate(zip(extra, res)):
            if r is not None:
                check_case(ctx, c, r, f"search/{k}")
        ctx.cov["search"] = f"{len(extra)} further programs with every fault position on the implementation ({'natural flavour' if ctx.quick else 'both fault flavours'}); oracle failures found: {len(ctx.oracle_failures)}"


def replay(ctx: Ctx, rep):
    run(ctx)
