"""MANIFEST.setup_cmd: regenerate every translated model from /repo, then a full .vo build (never -vos)."""
import importlib
import pkgutil
import sys
import traceback

from harness import translators
from harness.common import COQ, NCPU, coq_make, ensure_makefile, write_if_changed


def main():
    for m in pkgutil.iter_modules(translators.__path__):
        try:
            mod = importlib.import_module(f"harness.translators.{m.name}")
            if hasattr(mod, "translate"):
                for p, t in mod.translate().items():
                    write_if_changed(COQ / p, t)
                print(f"translator {m.name}: ok")
        except Exception:  # noqa: BLE001
            print(f"translator {m.name}: FAILED (the check that uses it will report the broken tie)")
            traceback.print_exc()
    ensure_makefile()
    ok, out = coq_make(["all"], timeout=3000, jobs=NCPU)
    print(out[-6000:])
    print("coq build:", "ok" if ok else "INCOMPLETE (failing files are reported by the checks that depend on them)")
    return 0


if __name__ == "__main__":
    sys.exit(main())
